//! C04 — status ↔ header codec: Status::add_header / from_header_map, Code tables, HTTP and
//! HTTP/2 mapping tables (exhaustive over each finite domain on every run).
use crate::common::*;
use bytes::{Buf, Bytes};
use http::{HeaderMap, HeaderName, HeaderValue};
use http_body::Frame;
use tonic::codec::{DecodeBuf, Decoder, Streaming};
use tonic::metadata::MetadataMap;
use tonic::{Code, Status};

// ---------------------------------------------------------------------------------------------
// canonical text forms (shared with c08.rs)

/// `<#names> (<name> <#values> <value>*)*`, names ascending, values of one name in map order.
pub fn render_map(h: &HeaderMap) -> String {
    let mut names: Vec<&HeaderName> = h.keys().collect();
    names.sort_by(|a, b| a.as_str().as_bytes().cmp(b.as_str().as_bytes()));
    let mut out = vec![names.len().to_string()];
    for n in names {
        let vs: Vec<&HeaderValue> = h.get_all(n).iter().collect();
        out.push(hex(n.as_str().as_bytes()));
        out.push(vs.len().to_string());
        for v in vs {
            out.push(hex(v.as_bytes()));
        }
    }
    out.join(" ")
}

/// `<#entries> (<name> <value>)*` in insertion order.
pub fn entries_tok(es: &[(Vec<u8>, Vec<u8>)]) -> String {
    let mut out = vec![es.len().to_string()];
    for (k, v) in es {
        out.push(hex(k));
        out.push(hex(v));
    }
    out.join(" ")
}

/// Parse `<#entries> (<name> <value>)*` from a token cursor; the map is built with `append`.
pub fn parse_entries<'a>(it: &mut impl Iterator<Item = &'a str>) -> Option<HeaderMap> {
    let n: usize = it.next()?.parse().ok()?;
    let mut h = HeaderMap::new();
    for _ in 0..n {
        let k = unhex(it.next()?)?;
        let v = unhex(it.next()?)?;
        let name = HeaderName::from_bytes(&k).ok()?;
        let val = HeaderValue::from_bytes(&v).ok()?;
        h.append(name, val);
    }
    Some(h)
}

const DET_ERR_PREFIX: &str = "Error deserializing status details header: ";

pub fn render_status(st: &Status) -> String {
    // the text after the details-error prefix is the base64 crate's error description, which
    // the model does not reproduce
    let msg: &str = if st.message().starts_with(DET_ERR_PREFIX) { DET_ERR_PREFIX } else { st.message() };
    format!(
        "{} {} {} {}",
        st.code() as i32,
        hex(msg.as_bytes()),
        hex(st.details()),
        render_map(&st.metadata().clone().into_headers())
    )
}

fn parse_status<'a>(it: &mut impl Iterator<Item = &'a str>) -> Option<Status> {
    let c: i32 = it.next()?.parse().ok()?;
    let m = String::from_utf8(unhex(it.next()?)?).ok()?;
    let d = unhex(it.next()?)?;
    let md = parse_entries(it)?;
    Some(Status::with_details_and_metadata(
        Code::from_i32(c),
        m,
        Bytes::from(d),
        MetadataMap::from_headers(md),
    ))
}

// ---------------------------------------------------------------------------------------------
// execution

struct RawDecoder;
impl Decoder for RawDecoder {
    type Item = Vec<u8>;
    type Error = Status;
    fn decode(&mut self, src: &mut DecodeBuf<'_>) -> Result<Option<Vec<u8>>, Status> {
        let n = src.remaining();
        Ok(Some(src.copy_to_bytes(n).to_vec()))
    }
}

pub fn execute(case: &str) -> String {
    let mut it = case.split(' ');
    match it.next() {
        Some("code") => {
            let b = unhex(it.next().unwrap()).unwrap();
            (Code::from_bytes(&b) as i32).to_string()
        }
        Some("u8") => {
            // Rust's own UTF-8 encoding of a code point (None for surrogates / out of range)
            let c: u32 = it.next().unwrap().parse().unwrap();
            match char::from_u32(c) {
                Some(ch) => format!("u {}", hex(ch.to_string().as_bytes())),
                None => "none".into(),
            }
        }
        Some("codei") => {
            let sgn = it.next().unwrap();
            let mag: i64 = it.next().unwrap().parse().unwrap();
            let i = if sgn == "-" { -mag } else { mag } as i32;
            let c = Code::from_i32(i);
            let back: i32 = c.into();
            assert_eq!(back, c as i32);
            back.to_string()
        }
        Some("enc") => {
            let st = match parse_status(&mut it) {
                Some(s) => s,
                None => return "bad-case".into(),
            };
            let mut h0 = match parse_entries(&mut it) {
                Some(h) => h,
                None => return "bad-case".into(),
            };
            match st.add_header(&mut h0) {
                Ok(()) => format!("ok {}", render_map(&h0)),
                Err(e) => format!("err {}", render_status(&e)),
            }
        }
        Some("dec") => {
            let h = match parse_entries(&mut it) {
                Some(h) => h,
                None => return "bad-case".into(),
            };
            match Status::from_header_map(&h) {
                None => "none".into(),
                Some(st) => format!("st {}", render_status(&st)),
            }
        }
        Some("rt") => {
            let st = match parse_status(&mut it) {
                Some(s) => s,
                None => return "bad-case".into(),
            };
            let mut h = HeaderMap::new();
            if let Err(e) = st.add_header(&mut h) {
                return format!("enc-err {}", render_status(&e));
            }
            let back = match guarded_opt(|| Status::from_header_map(&h)) {
                None => "panic".to_string(),
                Some(None) => "none".to_string(),
                Some(Some(st)) => format!("st {}", render_status(&st)),
            };
            format!("wire {} back {}", render_map(&h), back)
        }
        Some("rth") => {
            // trailers-only response: Status::into_http writes content-type first
            let st = match parse_status(&mut it) {
                Some(s) => s,
                None => return "bad-case".into(),
            };
            let resp = st.into_http::<()>();
            let h = resp.headers().clone();
            let back = match guarded_opt(|| Status::from_header_map(&h)) {
                None => "panic".to_string(),
                Some(None) => "none".to_string(),
                Some(Some(st)) => format!("st {}", render_status(&st)),
            };
            format!("wire {} back {}", render_map(&h), back)
        }
        Some("infer") => {
            let http: u16 = it.next().unwrap().parse().unwrap();
            let nf: usize = it.next().unwrap().parse().unwrap();
            let mut frames = Vec::new();
            for _ in 0..nf {
                match parse_entries(&mut it) {
                    Some(h) => frames.push(h),
                    None => return "bad-case".into(),
                }
            }
            infer_case(http, frames)
        }
        Some("h2") => {
            let r: u32 = it.next().unwrap().parse().unwrap();
            let e1: h2::Error = h2::Reason::from(r).into();
            let s1 = Status::from(e1);
            let e2: h2::Error = h2::Reason::from(r).into();
            let s2 = Status::from_error(Box::new(e2));
            let pfx = s1.message().starts_with("h2 protocol error: ") && s2.message().starts_with("h2 protocol error: ");
            format!("{} {} {}", s1.code() as i32, s2.code() as i32, pfx as u8)
        }
        Some("toh2") => {
            let c: i32 = it.next().unwrap().parse().unwrap();
            let e: h2::Error = Status::new(Code::from_i32(c), "m").into();
            match e.reason() {
                Some(r) => u32::from(r).to_string(),
                None => "no-reason".into(),
            }
        }
        _ => "bad-case".into(),
    }
}

fn guarded_opt<T, F: FnOnce() -> T>(f: F) -> Option<T> {
    std::panic::catch_unwind(std::panic::AssertUnwindSafe(f)).ok()
}

fn infer_case(http: u16, frames: Vec<HeaderMap>) -> String {
    let status = match http::StatusCode::from_u16(http) {
        Ok(s) => s,
        Err(_) => return "bad-case".into(),
    };
    let items: Vec<Result<Frame<Bytes>, Status>> = frames.into_iter().map(|h| Ok(Frame::trailers(h))).collect();
    let body = http_body_util::StreamBody::new(tokio_stream::iter(items));
    let mut s: Streaming<Vec<u8>> = Streaming::new_response(RawDecoder, body, status, None, None);
    let rt = tokio::runtime::Builder::new_current_thread().build().unwrap();
    rt.block_on(async move {
        match s.message().await {
            Ok(None) => match s.trailers().await {
                Ok(None) => "end none".to_string(),
                Ok(Some(t)) => format!("end some {}", render_map(&t.into_headers())),
                Err(e) => format!("end trailers-err {}", render_status(&e)),
            },
            Ok(Some(_)) => "unexpected-message".to_string(),
            Err(st) => {
                let after = match s.trailers().await {
                    Ok(None) => "t:none",
                    Ok(Some(_)) => "t:some",
                    Err(_) => "t:err",
                };
                format!("err {} {}", render_status(&st), after)
            }
        }
    })
}

// ---------------------------------------------------------------------------------------------
// generation

const RESERVED: [&str; 6] = ["te", "user-agent", "content-type", "grpc-message", "grpc-message-type", "grpc-status"];

fn legal_value_byte(b: u8) -> bool {
    (b >= 32 && b != 127) || b == 9
}

pub fn gen_value(rng: &mut Rng) -> Vec<u8> {
    match rng.below(8) {
        0 => vec![],
        1 => b"v".to_vec(),
        2 => b"application/grpc".to_vec(),
        3 => {
            // opaque bytes
            let n = rng.range(1, 6) as usize;
            (0..n).map(|_| 0x80 | (rng.next() as u8)).collect()
        }
        4 => b"a b\tc".to_vec(),
        5 => {
            // base64-looking
            let n = rng.range(0, 9) as usize;
            (0..n).map(|_| *rng.pick(b"ABab01+/=")).collect()
        }
        _ => {
            let n = rng.range(1, 10) as usize;
            (0..n)
                .map(|_| loop {
                    let b = rng.next() as u8;
                    if legal_value_byte(b) {
                        break b;
                    }
                })
                .collect()
        }
    }
}

pub fn gen_name(rng: &mut Rng) -> Vec<u8> {
    const CUSTOM: [&str; 12] = [
        "x-a", "x-b", "x-a-bin", "foo", "foo-bin", "bin", "-bin", "x-trace-id", "grpc-timeout", "grpc-encoding", "a.b_c~d", "x-bin-x",
    ];
    match rng.below(10) {
        0 | 1 => RESERVED[rng.below(6) as usize].as_bytes().to_vec(),
        2 => b"grpc-status-details-bin".to_vec(),
        _ => CUSTOM[rng.below(CUSTOM.len() as u64) as usize].as_bytes().to_vec(),
    }
}

pub fn gen_entries(rng: &mut Rng, max: u64) -> Vec<(Vec<u8>, Vec<u8>)> {
    let n = match rng.below(6) {
        0 => 0,
        1 => 1,
        _ => rng.range(0, max),
    };
    let mut out: Vec<(Vec<u8>, Vec<u8>)> = Vec::new();
    for _ in 0..n {
        // repeated keys are common
        let k = if !out.is_empty() && rng.chance(1, 3) { out[rng.below(out.len() as u64) as usize].0.clone() } else { gen_name(rng) };
        out.push((k, gen_value(rng)));
    }
    out
}

fn gen_message(rng: &mut Rng) -> String {
    const UNI: [&str; 12] = ["é", "ß", "\u{7ff}", "\u{800}", "€", "\u{d7ff}", "\u{e000}", "\u{ffff}", "\u{10000}", "😀", "\u{10ffff}", "\u{80}"];
    const SPECIAL: [&str; 16] = ["%", "%%", "%41", "%zz", "%4", " ", "\"", "#", "<", ">", "`", "?", "{", "}", "\u{7f}", "\t"];
    match rng.below(8) {
        0 => String::new(),
        1 => "plain message".into(),
        2 => rng.pick(&SPECIAL).to_string(),
        3 => rng.pick(&UNI).to_string(),
        4 => char::from(rng.below(128) as u8).to_string(),
        _ => {
            let n = rng.range(1, 8);
            let mut s = String::new();
            for _ in 0..n {
                match rng.below(5) {
                    0 => s.push_str(*rng.pick(&SPECIAL[..])),
                    1 => s.push_str(*rng.pick(&UNI[..])),
                    2 => s.push(char::from(rng.below(32) as u8)),
                    3 => s.push(char::from_u32(rng.below(0x11_0000 as u64) as u32).unwrap_or('x')),
                    _ => s.push(char::from(rng.range(33, 126) as u8)),
                }
            }
            s
        }
    }
}

fn gen_details(rng: &mut Rng) -> Vec<u8> {
    let n = match rng.below(4) {
        0 => 0,
        1 => rng.range(1, 7),
        2 => rng.range(8, 40),
        _ => rng.range(1, 4),
    } as usize;
    match rng.below(4) {
        0 => vec![0xff; n],
        1 => vec![0x00; n],
        _ => rng.bytes(n),
    }
}

fn status_tok(code: u64, msg: &str, det: &[u8], md: &[(Vec<u8>, Vec<u8>)]) -> String {
    format!("{} {} {} {}", code, hex(msg.as_bytes()), hex(det), entries_tok(md))
}

fn b64_unpadded(b: &[u8]) -> Vec<u8> {
    use base64::Engine;
    base64::engine::general_purpose::STANDARD_NO_PAD.encode(b).into_bytes()
}

fn pct_all(b: &[u8], upper: bool) -> Vec<u8> {
    let mut out = Vec::new();
    for x in b {
        out.extend_from_slice(if upper { format!("%{:02X}", x) } else { format!("%{:02x}", x) }.as_bytes());
    }
    out
}

fn kv(k: &str, v: &[u8]) -> (Vec<u8>, Vec<u8>) {
    (k.as_bytes().to_vec(), v.to_vec())
}

fn gen_code_value(rng: &mut Rng) -> Vec<u8> {
    const ODD: [&[u8]; 20] = [
        b"", b"00", b"01", b"016", b"17", b"99", b"-1", b"+1", b" 1", b"1 ", b"1.0", b"0x1", b"\xef\xbc\x91", b"\xb1", b"1\t", b"100", b"2", b"16", b"ok", b"O",
    ];
    match rng.below(3) {
        0 => rng.below(17).to_string().into_bytes(),
        1 => ODD[rng.below(ODD.len() as u64) as usize].to_vec(),
        _ => {
            let n = rng.range(1, 3) as usize;
            (0..n).map(|_| *rng.pick(b"0123456789 +-")).collect()
        }
    }
}

fn gen_wire_message(rng: &mut Rng) -> Vec<u8> {
    const ODD: [&[u8]; 22] = [
        b"%", b"%4", b"%zz", b"%4g", b"%g4", b"%%41", b"%25", b"%C3", b"%C3%A9", b"%c3%a9", b"%FF", b"%ED%A0%80", b"%F4%90%80%80", b"%C0%80", b"%E2%82", b"\xc3\xa9", b"\xc3", b"\xff", b"a b", b"a%20b%", b"%00", b"%e2%82%ac",
    ];
    match rng.below(5) {
        4 => {
            // a peer that escapes as little as it can: `%` and what a header value cannot carry
            let m = gen_message(rng);
            let lower = rng.chance(1, 2);
            let mut out = Vec::new();
            for &b in m.as_bytes() {
                if b == b'%' || !legal_value_byte(b) || (b >= 0x80 && rng.chance(1, 2)) {
                    out.extend_from_slice(&pct_all(&[b], !lower));
                } else {
                    out.push(b);
                }
            }
            out
        }
        0 => ODD[rng.below(ODD.len() as u64) as usize].to_vec(),
        1 => {
            // what tonic would write
            let m = gen_message(rng);
            let mut h = HeaderMap::new();
            Status::new(Code::Unknown, m).add_header(&mut h).unwrap();
            h.get("grpc-message").map(|v| v.as_bytes().to_vec()).unwrap_or_default()
        }
        2 => {
            let n = rng.range(0, 8) as usize;
            (0..n).map(|_| *rng.pick(b"%%%0123456789abcdefABCDEFg \xc3\xa9\xe2\x82\xac\xf0\x9f\x98\x80\xff")).collect()
        }
        _ => {
            let m = gen_message(rng);
            pct_all(m.as_bytes(), rng.chance(1, 2))
        }
    }
}

fn gen_wire_details(rng: &mut Rng) -> Vec<u8> {
    const ODD: [&[u8]; 24] = [
        b"!!!", b"A", b"AAAAA", b"A=", b"=", b"==", b"====", b"=AAA", b"AA=A", b"AAAA=", b"AA==AAAA", b"QQ", b"QR", b"QQ=", b"QQ==", b"QQ===", b"QUI", b"QUJ", b"QUI=", b"AA-_", b"AA A", b"AAAA\t", b"\xff\xff", b"QUJD====",
    ];
    match rng.below(4) {
        0 => ODD[rng.below(ODD.len() as u64) as usize].to_vec(),
        1 => b64_unpadded(&gen_details(rng)),
        2 => {
            use base64::Engine;
            base64::engine::general_purpose::STANDARD.encode(gen_details(rng)).into_bytes()
        }
        _ => {
            let n = rng.range(0, 10) as usize;
            (0..n).map(|_| *rng.pick(b"ABCDwxyz0189+/==")).collect()
        }
    }
}

pub fn generate(tier: &str, rng: &mut Rng) -> Vec<String> {
    let thorough = tier == "thorough";
    let mut out: Vec<String> = Vec::new();

    // ---- corpus: witnesses of findings
    out.push(format!("dec {}", entries_tok(&[kv("grpc-status", b"3"), kv("grpc-status-details-bin", b"!!!")]))); // 5.2
    out.push(format!("infer 200 1 {}", entries_tok(&[kv("grpc-status", b"3"), kv("grpc-status-details-bin", b"!!!")])));
    out.push("h2 6".into()); // 5.3
    out.push(format!("rt {}", status_tok(3, "", b"", &[kv("grpc-status-details-bin", b"!!!")])));
    out.push(format!("rt {}", status_tok(3, "", b"", &[kv("grpc-status-details-bin", b"QUJD")])));

    // ---- exhaustive finite tables (every run)
    // Code::from_bytes: every string of length 0, 1, 2 over all 256 bytes; length 3 over an alphabet
    out.push("code x".into());
    for a in 0u16..=255 {
        out.push(format!("code {}", hex(&[a as u8])));
    }
    for a in 0u16..=255 {
        for b in 0u16..=255 {
            if thorough || (32..=64).contains(&a) || (32..=64).contains(&b) || a == b {
                out.push(format!("code {}", hex(&[a as u8, b as u8])));
            }
        }
    }
    for a in b"0123456789 +-" {
        for b in b"0123456789 +-" {
            for c in b"0123456789 +-" {
                out.push(format!("code {}", hex(&[*a, *b, *c])));
            }
        }
    }
    // the same table through the header path, for every byte a header value can carry
    for a in 0u16..=255 {
        let a = a as u8;
        if legal_value_byte(a) {
            out.push(format!("dec {}", entries_tok(&[kv("grpc-status", &[a])])));
            out.push(format!("dec {}", entries_tok(&[kv("grpc-status", &[b'1', a])])));
            out.push(format!("dec {}", entries_tok(&[kv("grpc-status", &[a, b'1'])])));
        }
    }
    // what "a Unicode string" is: Rust's encoding of code points vs the model's encoder/validator
    for c in [0u32, 0x7f, 0x80, 0x7ff, 0x800, 0xfff, 0x1000, 0xcfff, 0xd000, 0xd7ff, 0xd800, 0xdbff, 0xdfff, 0xe000, 0xffff, 0x10000, 0x3ffff, 0x40000, 0xfffff, 0x100000, 0x10ffff, 0x110000] {
        for d in [-1i64, 0, 1] {
            let x = c as i64 + d;
            if x >= 0 {
                out.push(format!("u8 {}", x));
            }
        }
    }
    let step = if thorough { 17 } else { 997 };
    let mut c = 0u32;
    while c < 0x110000 {
        out.push(format!("u8 {}", c));
        c += step;
    }
    // Code::from_i32
    for i in -3i64..=20 {
        out.push(format!("codei {} {}", if i < 0 { "-" } else { "+" }, i.abs()));
    }
    for i in [i32::MIN as i64, i32::MAX as i64, 255, 256, 65536, -16, 116] {
        out.push(format!("codei {} {}", if i < 0 { "-" } else { "+" }, i.abs()));
    }
    // every code × {empty, message} × details lengths 0..=4: write + read back
    for c in 0..=16u64 {
        for m in ["", "m", "é%"] {
            for dl in 0..=4usize {
                let d: Vec<u8> = (0..dl).map(|i| 0xf0 + i as u8).collect();
                out.push(format!("rt {}", status_tok(c, m, &d, &[])));
            }
        }
        out.push(format!("toh2 {}", c));
    }
    // percent-encode set: every ASCII byte as a one-character message; a two-character context
    for b in 0u8..128 {
        out.push(format!("rt {}", status_tok(2, &char::from(b).to_string(), b"", &[])));
        out.push(format!("rt {}", status_tok(2, &format!("a{}b", char::from(b)), b"", &[])));
    }
    // percent-decode: %XY for all 256 values in both cases, alone and after a 2-byte lead so
    // that continuation bytes are observable; raw (unescaped) bytes
    for x in 0u16..=255 {
        let x = x as u8;
        for upper in [true, false] {
            out.push(format!("dec {}", entries_tok(&[kv("grpc-status", b"2"), kv("grpc-message", &pct_all(&[x], upper))])));
        }
        let mut v = b"%C3".to_vec();
        v.extend_from_slice(&pct_all(&[x], true));
        out.push(format!("dec {}", entries_tok(&[kv("grpc-status", b"2"), kv("grpc-message", &v)])));
        if legal_value_byte(x) {
            out.push(format!("dec {}", entries_tok(&[kv("grpc-status", b"2"), kv("grpc-message", &[x])])));
            // every byte as first / second hex digit
            out.push(format!("dec {}", entries_tok(&[kv("grpc-status", b"2"), kv("grpc-message", &[b'%', x, b'1'])])));
            out.push(format!("dec {}", entries_tok(&[kv("grpc-status", b"2"), kv("grpc-message", &[b'%', b'4', x])])));
            // base64 symbol table: every byte in each position of a quantum and of the tails
            for pat in [vec![x, b'A', b'A', b'A'], vec![b'A', b'A', b'A', x], vec![b'A', b'A', x], vec![b'A', x], vec![b'A', b'A', x, b'='], vec![b'A', x, b'=', b'='], vec![b'A', b'A', b'A', b'A', x]] {
                out.push(format!("dec {}", entries_tok(&[kv("grpc-status", b"2"), kv("grpc-status-details-bin", &pat)])));
            }
        }
    }
    // base64: every 1- and 2-byte details value round trip (thorough: all 65536 two-byte values)
    for a in 0u16..=255 {
        out.push(format!("rt {}", status_tok(2, "", &[a as u8], &[])));
    }
    let n2 = if thorough { 65536 } else { 1024 };
    for i in 0..n2 {
        let v: u16 = if thorough { i as u16 } else { rng.next() as u16 };
        out.push(format!("rt {}", status_tok(2, "", &v.to_be_bytes(), &[])));
    }
    // HTTP status table: every status code the http crate can represent, no trailers / trailers
    // without grpc-status
    for s in 100u16..=999 {
        out.push(format!("infer {} 0", s));
        if s < 600 {
            out.push(format!("infer {} 1 {}", s, entries_tok(&[kv("x-a", b"1")])));
        }
    }
    // HTTP/2 error codes
    for r in (0u64..=20).chain([255, 256, 65535, 1 << 31, u32::MAX as u64]) {
        out.push(format!("h2 {}", r));
    }

    // ---- structured: statuses
    let n = if thorough { 200000 } else { 4000 };
    for i in 0..n {
        let code = rng.below(17);
        let msg = gen_message(rng);
        let det = gen_details(rng);
        let md = gen_entries(rng, 6);
        if i % 8 == 5 {
            out.push(format!("rth {}", status_tok(code, &msg, &det, &md)));
        } else if i % 4 == 3 {
            let h0 = gen_entries(rng, 4);
            out.push(format!("enc {} {}", status_tok(code, &msg, &det, &md), entries_tok(&h0)));
        } else {
            out.push(format!("rt {}", status_tok(code, &msg, &det, &md)));
        }
    }

    // ---- malformed / arbitrary peer header maps
    let n = if thorough { 200000 } else { 4000 };
    for _ in 0..n {
        let mut es: Vec<(Vec<u8>, Vec<u8>)> = Vec::new();
        let k = rng.range(0, 5);
        for _ in 0..k {
            match rng.below(6) {
                0 | 1 => es.push(kv("grpc-status", &gen_code_value(rng))),
                2 => es.push(kv("grpc-message", &gen_wire_message(rng))),
                3 => es.push(kv("grpc-status-details-bin", &gen_wire_details(rng))),
                _ => es.push((gen_name(rng), gen_value(rng))),
            }
        }
        if rng.chance(3, 4) && !es.iter().any(|e| e.0 == b"grpc-status") {
            let pos = rng.below(es.len() as u64 + 1) as usize;
            es.insert(pos, kv("grpc-status", &gen_code_value(rng)));
        }
        out.push(format!("dec {}", entries_tok(&es)));
    }
    // end-of-body classification with trailers
    let n = if thorough { 60000 } else { 1500 };
    for _ in 0..n {
        let http = match rng.below(4) {
            0 => 200,
            1 => *rng.pick(&[400u64, 401, 403, 404, 429, 500, 502, 503, 504]),
            _ => rng.range(100, 599),
        };
        let nf = rng.range(0, 2);
        let mut s = format!("infer {} {}", http, nf);
        for _ in 0..nf {
            let mut es = gen_entries(rng, 3);
            if rng.chance(2, 3) {
                es.push(kv("grpc-status", &gen_code_value(rng)));
            }
            if rng.chance(1, 3) {
                es.push(kv("grpc-message", &gen_wire_message(rng)));
            }
            if rng.chance(1, 4) {
                es.push(kv("grpc-status-details-bin", &gen_wire_details(rng)));
            }
            s.push(' ');
            s.push_str(&entries_tok(&es));
        }
        out.push(s);
    }
    out
}
