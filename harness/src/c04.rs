//! C04 — status ↔ header codec: Status::add_header / from_header_map, Code tables, HTTP and
//! HTTP/2 mapping tables (exhaustive over each finite domain on every run).
//! Case kinds: `code` `codei` `u8` (tables), `enc` `dec` `rt` `rth` (the codec), `infer` `inferb`
//! (end of a response stream), `h2` `rst` `toh2` (HTTP/2 error codes), and — added by the proactive
//! dimension audit, see the header of c04_x.rs — `cli` (a real client::Grpc reads a scripted
//! response), `wr` (EncodeBody / server::Grpc write a failing call), `mk` (one status value made in
//! different ways).
use crate::common::*;
use bytes::{Buf, Bytes};
use http::{HeaderMap, HeaderName, HeaderValue};
use http_body::Frame;
use tonic::codec::{DecodeBuf, Decoder, Streaming};
use tonic::metadata::MetadataMap;
use tonic::{Code, Status};

#[path = "c04_x.rs"]
mod x;

// ---------------------------------------------------------------------------------------------
// canonical text forms (shared with c08.rs)

/// `<#names> (<name> <#values> <value>*)*`, names ascending, values of one name in map order.
pub fn render_map(h: &HeaderMap) -> String {
    let mut names: Vec<&HeaderName> = h.keys().collect();
    names.sort_by(|a, b| a.as_str().as_bytes().cmp(b.as_str().as_bytes()));
    let mut out = vec![names.len().to_string()];
    for n in names {
        let vs: Vec<&HeaderValue> = h.get_all(n).iter().collect();
        out.push(hex(n.as_str().as_bytes()));
        out.push(vs.len().to_string());
        for v in vs {
            out.push(hex(v.as_bytes()));
        }
    }
    out.join(" ")
}

/// `<#entries> (<name> <value>)*` in insertion order.
pub fn entries_tok(es: &[(Vec<u8>, Vec<u8>)]) -> String {
    let mut out = vec![es.len().to_string()];
    for (k, v) in es {
        out.push(hex(k));
        out.push(hex(v));
    }
    out.join(" ")
}

/// Parse `<#entries> (<name> <value>)*` from a token cursor; the map is built with `append`.
pub fn parse_entries<'a>(it: &mut impl Iterator<Item = &'a str>) -> Option<HeaderMap> {
    let n: usize = it.next()?.parse().ok()?;
    let mut h = HeaderMap::new();
    for _ in 0..n {
        let k = unhex(it.next()?)?;
        let v = unhex(it.next()?)?;
        let name = HeaderName::from_bytes(&k).ok()?;
        let val = HeaderValue::from_bytes(&v).ok()?;
        h.append(name, val);
    }
    Some(h)
}

const DET_ERR_PREFIX: &str = "Error deserializing status details header: ";

pub fn render_status(st: &Status) -> String {
    // the text after the details-error prefix is the base64 crate's error description, which
    // the model does not reproduce
    let msg: &str = if st.message().starts_with(DET_ERR_PREFIX) { DET_ERR_PREFIX } else { st.message() };
    format!(
        "{} {} {} {}",
        st.code() as i32,
        hex(msg.as_bytes()),
        hex(st.details()),
        render_map(&st.metadata().clone().into_headers())
    )
}

fn parse_status<'a>(it: &mut impl Iterator<Item = &'a str>) -> Option<Status> {
    let c: i32 = it.next()?.parse().ok()?;
    let m = String::from_utf8(unhex(it.next()?)?).ok()?;
    let d = unhex(it.next()?)?;
    let md = parse_entries(it)?;
    Some(Status::with_details_and_metadata(
        Code::from_i32(c),
        m,
        Bytes::from(d),
        MetadataMap::from_headers(md),
    ))
}

// ---------------------------------------------------------------------------------------------
// execution

struct RawDecoder;
impl Decoder for RawDecoder {
    type Item = Vec<u8>;
    type Error = Status;
    fn decode(&mut self, src: &mut DecodeBuf<'_>) -> Result<Option<Vec<u8>>, Status> {
        let n = src.remaining();
        Ok(Some(src.copy_to_bytes(n).to_vec()))
    }
}

pub fn execute(case: &str) -> String {
    let mut it = case.split(' ');
    match it.next() {
        Some("code") => {
            let b = unhex(it.next().unwrap()).unwrap();
            (Code::from_bytes(&b) as i32).to_string()
        }
        Some("u8") => {
            // Rust's own UTF-8 encoding of a code point (None for surrogates / out of range)
            let c: u32 = it.next().unwrap().parse().unwrap();
            match char::from_u32(c) {
                Some(ch) => format!("u {}", hex(ch.to_string().as_bytes())),
                None => "none".into(),
            }
        }
        Some("codei") => {
            let sgn = it.next().unwrap();
            let mag: i64 = it.next().unwrap().parse().unwrap();
            let i = if sgn == "-" { -mag } else { mag } as i32;
            let c = Code::from_i32(i);
            let back: i32 = c.into();
            assert_eq!(back, c as i32);
            back.to_string()
        }
        Some("enc") => {
            let st = match parse_status(&mut it) {
                Some(s) => s,
                None => return "bad-case".into(),
            };
            let mut h0 = match parse_entries(&mut it) {
                Some(h) => h,
                None => return "bad-case".into(),
            };
            match st.add_header(&mut h0) {
                Ok(()) => format!("ok {}", render_map(&h0)),
                Err(e) => format!("err {}", render_status(&e)),
            }
        }
        Some("dec") => {
            let h = match parse_entries(&mut it) {
                Some(h) => h,
                None => return "bad-case".into(),
            };
            match Status::from_header_map(&h) {
                None => "none".into(),
                Some(st) => format!("st {}", render_status(&st)),
            }
        }
        Some("rt") => {
            let st = match parse_status(&mut it) {
                Some(s) => s,
                None => return "bad-case".into(),
            };
            let mut h = HeaderMap::new();
            if let Err(e) = st.add_header(&mut h) {
                return format!("enc-err {}", render_status(&e));
            }
            let back = match guarded_opt(|| Status::from_header_map(&h)) {
                None => "panic".to_string(),
                Some(None) => "none".to_string(),
                Some(Some(st)) => format!("st {}", render_status(&st)),
            };
            format!("wire {} back {}", render_map(&h), back)
        }
        Some("rth") => {
            // trailers-only response: Status::into_http writes content-type first
            let st = match parse_status(&mut it) {
                Some(s) => s,
                None => return "bad-case".into(),
            };
            let resp = st.into_http::<()>();
            let h = resp.headers().clone();
            let back = match guarded_opt(|| Status::from_header_map(&h)) {
                None => "panic".to_string(),
                Some(None) => "none".to_string(),
                Some(Some(st)) => format!("st {}", render_status(&st)),
            };
            format!("wire {} back {}", render_map(&h), back)
        }
        Some("infer") => {
            let http: u16 = it.next().unwrap().parse().unwrap();
            let nf: usize = it.next().unwrap().parse().unwrap();
            let mut frames = Vec::new();
            for _ in 0..nf {
                match parse_entries(&mut it) {
                    Some(h) => frames.push(h),
                    None => return "bad-case".into(),
                }
            }
            infer_case(http, frames)
        }
        Some("inferb") => {
            // a response body with DATA: `inferb <http> <nev> (D <hex> | P | T <entries>)*`
            let http: u16 = it.next().unwrap().parse().unwrap();
            let nev: usize = it.next().unwrap().parse().unwrap();
            let mut evs = std::collections::VecDeque::new();
            for _ in 0..nev {
                match it.next() {
                    Some("D") => match it.next().and_then(unhex) {
                        Some(b) => evs.push_back(BEv::Data(b)),
                        None => return "bad-case".into(),
                    },
                    Some("P") => evs.push_back(BEv::Pending),
                    Some("T") => match parse_entries(&mut it) {
                        Some(h) => evs.push_back(BEv::Trailers(h)),
                        None => return "bad-case".into(),
                    },
                    _ => return "bad-case".into(),
                }
            }
            inferb_case(http, evs)
        }
        Some("rst") => {
            // a real client (tonic Channel over hyper/h2 on a duplex pipe) against an h2 server
            // that resets the stream: `rst <reason> <pre|mid>`
            let r: u32 = it.next().unwrap().parse().unwrap();
            match it.next() {
                Some("pre") => rst_case(r, false),
                Some("mid") => rst_case(r, true),
                _ => "bad-case".into(),
            }
        }
        Some("h2") => {
            let r: u32 = it.next().unwrap().parse().unwrap();
            let e1: h2::Error = h2::Reason::from(r).into();
            let s1 = Status::from(e1);
            let e2: h2::Error = h2::Reason::from(r).into();
            let s2 = Status::from_error(Box::new(e2));
            let pfx = s1.message().starts_with("h2 protocol error: ") && s2.message().starts_with("h2 protocol error: ");
            format!("{} {} {}", s1.code() as i32, s2.code() as i32, pfx as u8)
        }
        Some("toh2") => {
            let c: i32 = it.next().unwrap().parse().unwrap();
            let e: h2::Error = Status::new(Code::from_i32(c), "m").into();
            match e.reason() {
                Some(r) => u32::from(r).to_string(),
                None => "no-reason".into(),
            }
        }
        Some(kind) => x::execute(kind, &mut it).unwrap_or_else(|| "bad-case".into()),
        None => "bad-case".into(),
    }
}

fn guarded_opt<T, F: FnOnce() -> T>(f: F) -> Option<T> {
    std::panic::catch_unwind(std::panic::AssertUnwindSafe(f)).ok()
}

fn infer_case(http: u16, frames: Vec<HeaderMap>) -> String {
    let status = match http::StatusCode::from_u16(http) {
        Ok(s) => s,
        Err(_) => return "bad-case".into(),
    };
    let items: Vec<Result<Frame<Bytes>, Status>> = frames.into_iter().map(|h| Ok(Frame::trailers(h))).collect();
    let body = http_body_util::StreamBody::new(tokio_stream::iter(items));
    let mut s: Streaming<Vec<u8>> = Streaming::new_response(RawDecoder, body, status, None, None);
    let rt = tokio::runtime::Builder::new_current_thread().build().unwrap();
    rt.block_on(async move {
        match s.message().await {
            Ok(None) => match s.trailers().await {
                Ok(None) => "end none".to_string(),
                Ok(Some(t)) => format!("end some {}", render_map(&t.into_headers())),
                Err(e) => format!("end trailers-err {}", render_status(&e)),
            },
            Ok(Some(_)) => "unexpected-message".to_string(),
            Err(st) => {
                let after = match s.trailers().await {
                    Ok(None) => "t:none",
                    Ok(Some(_)) => "t:some",
                    Err(_) => "t:err",
                };
                format!("err {} {}", render_status(&st), after)
            }
        }
    })
}

enum BEv {
    Data(Vec<u8>),
    Pending,
    Trailers(HeaderMap),
}

/// scripted response body: data chunks, `Pending`s (which wake the task at once) and trailers
/// frames; after the script `None` for ever
struct EvBody {
    evs: std::collections::VecDeque<BEv>,
}

impl http_body::Body for EvBody {
    type Data = Bytes;
    type Error = Status;
    fn poll_frame(
        mut self: std::pin::Pin<&mut Self>,
        cx: &mut std::task::Context<'_>,
    ) -> std::task::Poll<Option<Result<Frame<Bytes>, Status>>> {
        use std::task::Poll;
        match self.evs.pop_front() {
            None => Poll::Ready(None),
            Some(BEv::Pending) => {
                cx.waker().wake_by_ref();
                Poll::Pending
            }
            Some(BEv::Data(b)) => Poll::Ready(Some(Ok(Frame::data(Bytes::from(b))))),
            Some(BEv::Trailers(h)) => Poll::Ready(Some(Ok(Frame::trailers(h)))),
        }
    }
}

/// `message()` until the stream ends: `(m <hex>)* <end …|err …|errc …>`.  For HTTP 200 an error
/// is rendered by its code only (`errc`): its text belongs to the framing layer (C07).
fn inferb_case(http: u16, evs: std::collections::VecDeque<BEv>) -> String {
    let status = match http::StatusCode::from_u16(http) {
        Ok(s) => s,
        Err(_) => return "bad-case".into(),
    };
    let bound = evs.len() + evs.iter().map(|e| if let BEv::Data(d) = e { d.len() / 5 + 1 } else { 0 }).sum::<usize>() + 4;
    let mut s: Streaming<Vec<u8>> = Streaming::new_response(RawDecoder, EvBody { evs }, status, None, None);
    let rt = tokio::runtime::Builder::new_current_thread().build().unwrap();
    rt.block_on(async move {
        let mut out: Vec<String> = Vec::new();
        for _ in 0..bound {
            match s.message().await {
                Ok(Some(m)) => out.push(format!("m {}", hex(&m))),
                Ok(None) => {
                    out.push(match s.trailers().await {
                        Ok(None) => "end none".to_string(),
                        Ok(Some(t)) => format!("end some {}", render_map(&t.into_headers())),
                        Err(e) => format!("end trailers-err {}", render_status(&e)),
                    });
                    return out.join(" ");
                }
                Err(st) => {
                    let after = match s.trailers().await {
                        Ok(None) => "t:none",
                        Ok(Some(_)) => "t:some",
                        Err(_) => "t:err",
                    };
                    out.push(if http == 200 { format!("errc {} {}", st.code() as i32, after) } else { format!("err {} {}", render_status(&st), after) });
                    return out.join(" ");
                }
            }
        }
        out.push("no-end".into());
        out.join(" ")
    })
}

// ---- `rst`: the path a real client takes (hyper::Error{source: h2::Error} → Status::from_error)

#[derive(Default, Clone)]
struct RawCodec;
struct RawEncoder;
impl tonic::codec::Encoder for RawEncoder {
    type Item = Vec<u8>;
    type Error = Status;
    fn encode(&mut self, item: Vec<u8>, dst: &mut tonic::codec::EncodeBuf<'_>) -> Result<(), Status> {
        use bytes::BufMut;
        dst.put_slice(&item);
        Ok(())
    }
}
impl tonic::codec::Codec for RawCodec {
    type Encode = Vec<u8>;
    type Decode = Vec<u8>;
    type Encoder = RawEncoder;
    type Decoder = RawDecoder;
    fn encoder(&mut self) -> RawEncoder {
        RawEncoder
    }
    fn decoder(&mut self) -> RawDecoder {
        RawDecoder
    }
}

const RST_MSG: [u8; 3] = [7, 8, 9];

/// An h2 server answers the one call with RST_STREAM(reason): before any response headers
/// (`mid = false`; observed: what the response future returns) or after response headers and one
/// message, once the client has read that message (`mid = true`; observed: what
/// `Streaming::message` returns next).  `<where> <code> <1 iff the text starts "h2 protocol error: ">`.
fn rst_case(reason: u32, mid: bool) -> String {
    use std::time::Duration;
    let rt = tokio::runtime::Builder::new_current_thread().enable_all().start_paused(true).build().unwrap();
    rt.block_on(async move {
        let (client_io, server_io) = tokio::io::duplex(64 * 1024);
        let (go_tx, go_rx) = tokio::sync::oneshot::channel::<()>();
        let server = tokio::spawn(async move {
            let mut conn = match h2::server::handshake(server_io).await {
                Ok(c) => c,
                Err(_) => return,
            };
            let mut go_rx = Some(go_rx);
            while let Some(Ok((_req, mut respond))) = conn.accept().await {
                let go = go_rx.take();
                tokio::spawn(async move {
                    let r = h2::Reason::from(reason);
                    if !mid {
                        respond.send_reset(r);
                        return;
                    }
                    let head = http::Response::builder().status(200).header("content-type", "application/grpc").body(()).unwrap();
                    let mut send = match respond.send_response(head, false) {
                        Ok(s) => s,
                        Err(_) => return,
                    };
                    let mut f = vec![0u8, 0, 0, 0, RST_MSG.len() as u8];
                    f.extend_from_slice(&RST_MSG);
                    let _ = send.send_data(Bytes::from(f), false);
                    if let Some(go) = go {
                        let _ = go.await;
                    }
                    send.send_reset(r);
                });
            }
        });
        let io = std::sync::Arc::new(std::sync::Mutex::new(Some(client_io)));
        let connector = tower::service_fn(move |_uri: http::Uri| {
            let io = io.lock().unwrap().take();
            async move {
                match io {
                    Some(io) => Ok(hyper_util::rt::TokioIo::new(io)),
                    None => Err(std::io::Error::new(std::io::ErrorKind::ConnectionRefused, "one connection only")),
                }
            }
        });
        let ep = tonic::transport::Endpoint::from_static("http://verif.test");
        let channel = match tokio::time::timeout(Duration::from_secs(30), ep.connect_with_connector(connector)).await {
            Ok(Ok(c)) => c,
            Ok(Err(_)) => return "connect-failed".to_string(),
            Err(_) => return "hang".to_string(),
        };
        let mut grpc = tonic::client::Grpc::new(channel);
        let call = async {
            if grpc.ready().await.is_err() {
                return "not-ready".to_string();
            }
            let path = http::uri::PathAndQuery::from_static("/verif.Svc/M");
            let tok = |w: &str, st: &Status| format!("{} {} {}", w, st.code() as i32, st.message().starts_with("h2 protocol error: ") as u8);
            match grpc.server_streaming(tonic::Request::new(vec![1u8, 2, 3]), path, RawCodec).await {
                Err(st) => tok("call", &st),
                Ok(resp) => {
                    let mut s = resp.into_inner();
                    match s.message().await {
                        Ok(Some(m)) if m == RST_MSG => {}
                        Ok(Some(_)) => return "wrong-message".to_string(),
                        Ok(None) => return "body end".to_string(),
                        Err(st) => return tok("body-first", &st),
                    }
                    let _ = go_tx.send(());
                    match s.message().await {
                        Ok(Some(_)) => "second-message".to_string(),
                        Ok(None) => "body end".to_string(),
                        Err(st) => tok("body", &st),
                    }
                }
            }
        };
        let out = match tokio::time::timeout(Duration::from_secs(60), call).await {
            Ok(s) => s,
            Err(_) => "hang".to_string(),
        };
        server.abort();
        out
    })
}

// ---------------------------------------------------------------------------------------------
// generation

const RESERVED: [&str; 6] = ["te", "user-agent", "content-type", "grpc-message", "grpc-message-type", "grpc-status"];

fn legal_value_byte(b: u8) -> bool {
    (b >= 32 && b != 127) || b == 9
}

pub fn gen_value(rng: &mut Rng) -> Vec<u8> {
    match rng.below(8) {
        0 => vec![],
        1 => b"v".to_vec(),
        2 => b"application/grpc".to_vec(),
        3 => {
            // opaque bytes
            let n = rng.range(1, 6) as usize;
            (0..n).map(|_| 0x80 | (rng.next() as u8)).collect()
        }
        4 => b"a b\tc".to_vec(),
        5 => {
            // base64-looking
            let n = rng.range(0, 9) as usize;
            (0..n).map(|_| *rng.pick(b"ABab01+/=")).collect()
        }
        _ => {
            let n = rng.range(1, 10) as usize;
            (0..n)
                .map(|_| loop {
                    let b = rng.next() as u8;
                    if legal_value_byte(b) {
                        break b;
                    }
                })
                .collect()
        }
    }
}

pub fn gen_name(rng: &mut Rng) -> Vec<u8> {
    const CUSTOM: [&str; 12] = [
        "x-a", "x-b", "x-a-bin", "foo", "foo-bin", "bin", "-bin", "x-trace-id", "grpc-timeout", "grpc-encoding", "a.b_c~d", "x-bin-x",
    ];
    match rng.below(10) {
        0 | 1 => RESERVED[rng.below(6) as usize].as_bytes().to_vec(),
        2 => b"grpc-status-details-bin".to_vec(),
        _ => CUSTOM[rng.below(CUSTOM.len() as u64) as usize].as_bytes().to_vec(),
    }
}

pub fn gen_entries(rng: &mut Rng, max: u64) -> Vec<(Vec<u8>, Vec<u8>)> {
    let n = match rng.below(6) {
        0 => 0,
        1 => 1,
        _ => rng.range(0, max),
    };
    let mut out: Vec<(Vec<u8>, Vec<u8>)> = Vec::new();
    for _ in 0..n {
        // repeated keys are common
        let k = if !out.is_empty() && rng.chance(1, 3) { out[rng.below(out.len() as u64) as usize].0.clone() } else { gen_name(rng) };
        out.push((k, gen_value(rng)));
    }
    out
}

fn gen_message(rng: &mut Rng) -> String {
    const UNI: [&str; 12] = ["é", "ß", "\u{7ff}", "\u{800}", "€", "\u{d7ff}", "\u{e000}", "\u{ffff}", "\u{10000}", "😀", "\u{10ffff}", "\u{80}"];
    const SPECIAL: [&str; 16] = ["%", "%%", "%41", "%zz", "%4", " ", "\"", "#", "<", ">", "`", "?", "{", "}", "\u{7f}", "\t"];
    match rng.below(8) {
        0 => String::new(),
        1 => "plain message".into(),
        2 => rng.pick(&SPECIAL).to_string(),
        3 => rng.pick(&UNI).to_string(),
        4 => char::from(rng.below(128) as u8).to_string(),
        _ => {
            let n = rng.range(1, 8);
            let mut s = String::new();
            for _ in 0..n {
                match rng.below(5) {
                    0 => s.push_str(*rng.pick(&SPECIAL[..])),
                    1 => s.push_str(*rng.pick(&UNI[..])),
                    2 => s.push(char::from(rng.below(32) as u8)),
                    3 => s.push(char::from_u32(rng.below(0x11_0000 as u64) as u32).unwrap_or('x')),
                    _ => s.push(char::from(rng.range(33, 126) as u8)),
                }
            }
            s
        }
    }
}

fn gen_details(rng: &mut Rng) -> Vec<u8> {
    let n = match rng.below(4) {
        0 => 0,
        1 => rng.range(1, 7),
        2 => rng.range(8, 40),
        _ => rng.range(1, 4),
    } as usize;
    match rng.below(4) {
        0 => vec![0xff; n],
        1 => vec![0x00; n],
        _ => rng.bytes(n),
    }
}

fn status_tok(code: u64, msg: &str, det: &[u8], md: &[(Vec<u8>, Vec<u8>)]) -> String {
    format!("{} {} {} {}", code, hex(msg.as_bytes()), hex(det), entries_tok(md))
}

fn b64_unpadded(b: &[u8]) -> Vec<u8> {
    use base64::Engine;
    base64::engine::general_purpose::STANDARD_NO_PAD.encode(b).into_bytes()
}

fn pct_all(b: &[u8], upper: bool) -> Vec<u8> {
    let mut out = Vec::new();
    for x in b {
        out.extend_from_slice(if upper { format!("%{:02X}", x) } else { format!("%{:02x}", x) }.as_bytes());
    }
    out
}

fn kv(k: &str, v: &[u8]) -> (Vec<u8>, Vec<u8>) {
    (k.as_bytes().to_vec(), v.to_vec())
}

fn gen_code_value(rng: &mut Rng) -> Vec<u8> {
    const ODD: [&[u8]; 20] = [
        b"", b"00", b"01", b"016", b"17", b"99", b"-1", b"+1", b" 1", b"1 ", b"1.0", b"0x1", b"\xef\xbc\x91", b"\xb1", b"1\t", b"100", b"2", b"16", b"ok", b"O",
    ];
    match rng.below(3) {
        0 => rng.below(17).to_string().into_bytes(),
        1 => ODD[rng.below(ODD.len() as u64) as usize].to_vec(),
        _ => {
            let n = rng.range(1, 3) as usize;
            (0..n).map(|_| *rng.pick(b"0123456789 +-")).collect()
        }
    }
}

fn gen_wire_message(rng: &mut Rng) -> Vec<u8> {
    const ODD: [&[u8]; 22] = [
        b"%", b"%4", b"%zz", b"%4g", b"%g4", b"%%41", b"%25", b"%C3", b"%C3%A9", b"%c3%a9", b"%FF", b"%ED%A0%80", b"%F4%90%80%80", b"%C0%80", b"%E2%82", b"\xc3\xa9", b"\xc3", b"\xff", b"a b", b"a%20b%", b"%00", b"%e2%82%ac",
    ];
    if rng.chance(1, 12) {
        return long_bad_value(rng.range(8, 300) as usize, rng.below(4) as usize, rng.below(6) as usize, true);
    }
    match rng.below(5) {
        4 => {
            // a peer that escapes as little as it can: `%` and what a header value cannot carry
            let m = gen_message(rng);
            let lower = rng.chance(1, 2);
            let mut out = Vec::new();
            for &b in m.as_bytes() {
                if b == b'%' || !legal_value_byte(b) || (b >= 0x80 && rng.chance(1, 2)) {
                    out.extend_from_slice(&pct_all(&[b], !lower));
                } else {
                    out.push(b);
                }
            }
            out
        }
        0 => ODD[rng.below(ODD.len() as u64) as usize].to_vec(),
        1 => {
            // what tonic would write
            let m = gen_message(rng);
            let mut h = HeaderMap::new();
            Status::new(Code::Unknown, m).add_header(&mut h).unwrap();
            h.get("grpc-message").map(|v| v.as_bytes().to_vec()).unwrap_or_default()
        }
        2 => {
            let n = rng.range(0, 8) as usize;
            (0..n).map(|_| *rng.pick(b"%%%0123456789abcdefABCDEFg \xc3\xa9\xe2\x82\xac\xf0\x9f\x98\x80\xff")).collect()
        }
        _ => {
            let m = gen_message(rng);
            pct_all(m.as_bytes(), rng.chance(1, 2))
        }
    }
}

/// A LONG peer-supplied value that does not decode (seed C04f: a "bounded preview" of the offending header cut a
/// lossily decoded string at a fixed byte offset, and panicked when the offset fell inside a character): `len`
/// bytes or a little more, ASCII up to `len - off`, then a multi-byte character / a raw non-UTF-8 byte that straddles
/// offset `len`, more text, and a tail that makes the whole value malformed (`pct`: for grpc-message, a bad percent
/// escape; otherwise characters outside the base64 alphabet).
fn long_bad_value(len: usize, off: usize, ch: usize, pct: bool) -> Vec<u8> {
    const CH: [&[u8]; 6] = [b"\xc3\xa9", b"\xe2\x82\xac", b"\xf0\x9f\x98\x80", b"\xff", b"\xc3", b"\x80\x80\x80"];
    let fill: &[u8] = if pct { b"abc def-ghi" } else { b"QUJDREVG" };
    let mut v: Vec<u8> = (0..len.saturating_sub(off)).map(|i| fill[i % fill.len()]).collect();
    v.extend_from_slice(CH[ch % CH.len()]);
    v.extend((0..(7 + ch)).map(|i| fill[i % fill.len()]));
    v.extend_from_slice(CH[(ch + 1) % CH.len()]);
    v.extend_from_slice(if pct { b"%FF" } else { b"!!" });
    v
}

fn gen_wire_details(rng: &mut Rng) -> Vec<u8> {
    const ODD: [&[u8]; 24] = [
        b"!!!", b"A", b"AAAAA", b"A=", b"=", b"==", b"====", b"=AAA", b"AA=A", b"AAAA=", b"AA==AAAA", b"QQ", b"QR", b"QQ=", b"QQ==", b"QQ===", b"QUI", b"QUJ", b"QUI=", b"AA-_", b"AA A", b"AAAA\t", b"\xff\xff", b"QUJD====",
    ];
    if rng.chance(1, 12) {
        return long_bad_value(rng.range(8, 300) as usize, rng.below(4) as usize, rng.below(6) as usize, false);
    }
    match rng.below(4) {
        0 => ODD[rng.below(ODD.len() as u64) as usize].to_vec(),
        1 => b64_unpadded(&gen_details(rng)),
        2 => {
            use base64::Engine;
            base64::engine::general_purpose::STANDARD.encode(gen_details(rng)).into_bytes()
        }
        _ => {
            let n = rng.range(0, 10) as usize;
            (0..n).map(|_| *rng.pick(b"ABCDwxyz0189+/==")).collect()
        }
    }
}

/// text of exactly `n` bytes (when `uni`, up to 3 bytes more): varied, with spaces, `%`, and —
/// when `uni` — controls and 2-, 3- and 4-byte characters, so that most of it needs escaping and a
/// cut anywhere is visible
fn big_text(n: usize, uni: bool) -> String {
    let mut s = String::with_capacity(n + 4);
    let mut i = 0usize;
    while s.len() < n {
        if uni {
            s.push_str(["é", "€", "😀", "%", "\n", "ß", " ", "\u{7f}"][i % 8]);
        } else {
            s.push(char::from(b'!' + ((i * 7 + i / 94) % 94) as u8));
            if i % 61 == 60 {
                s.push(' ');
            }
        }
        i += 1;
    }
    s
}

/// one status through every kind that carries it: written (`enc`), written and read back (`rt`,
/// `rth`), and read from a block a peer wrote (`dec`, escaping everything / only what it must)
fn push_big(out: &mut Vec<String>, code: u64, msg: &str, det: &[u8], md: &[(Vec<u8>, Vec<u8>)]) {
    out.push(format!("rt {}", status_tok(code, msg, det, md)));
    out.push(format!("rth {}", status_tok(code, msg, det, md)));
    out.push(format!("enc {} {}", status_tok(code, msg, det, md), entries_tok(&[kv("content-type", b"application/grpc")])));
    for all in [true, false] {
        let mut es: Vec<(Vec<u8>, Vec<u8>)> = md.to_vec();
        es.push(kv("grpc-status", code.to_string().as_bytes()));
        let wire: Vec<u8> = if all {
            pct_all(msg.as_bytes(), false)
        } else {
            let mut o = Vec::new();
            for &b in msg.as_bytes() {
                if b == b'%' || !legal_value_byte(b) {
                    o.extend_from_slice(&pct_all(&[b], true));
                } else {
                    o.push(b);
                }
            }
            o
        };
        es.push(kv("grpc-message", &wire));
        if !det.is_empty() {
            use base64::Engine;
            es.push(kv("grpc-status-details-bin", &if all { b64_unpadded(det) } else { base64::engine::general_purpose::STANDARD.encode(det).into_bytes() }));
        }
        out.push(format!("dec {}", entries_tok(&es)));
    }
}

/// bodies of a response that is not a gRPC message stream (each a list of DATA chunks)
fn body_shapes() -> Vec<Vec<Vec<u8>>> {
    let fr = |flag: u8, p: &[u8]| {
        let mut f = vec![flag];
        f.extend_from_slice(&(p.len() as u32).to_be_bytes());
        f.extend_from_slice(p);
        f
    };
    vec![
        vec![b"<html><body><h1>Service Unavailable</h1></body></html>\n".to_vec()],     // 0 HTML
        vec![fr(0, b"unauthorized")],                                                    // 1 one well-formed frame
        vec![fr(0, b"a"), fr(0, b""), fr(0, b"bc")],                                     // 2 three frames
        vec![fr(0, b"truncated-payload")[..9].to_vec()],                                 // 3 truncated frame
        vec![vec![0, 0, 0, 0, 7]],                                                       // 4 bare prefix
        vec![vec![], vec![]],                                                            // 5 empty DATA frames
        vec![fr(1, b"compressed?")],                                                     // 6 compressed flag, no encoding
        vec![vec![0, 0xff, 0xff, 0xff, 0xff]],                                           // 7 over-limit length
        vec![b"{\"error\":\"rate limited\"}".to_vec(), vec![], b"\n".to_vec()],         // 8 JSON + empty + newline
        vec![vec![0, 0], vec![0, 0, 1], b"x".to_vec(), b"tail".to_vec()],                // 9 frame then garbage
    ]
}

fn trailer_shapes() -> Vec<Option<Vec<(Vec<u8>, Vec<u8>)>>> {
    vec![
        None,
        Some(vec![]),
        Some(vec![kv("x-a", b"1")]),
        Some(vec![kv("grpc-status", b"0")]),
        Some(vec![kv("grpc-status", b"7"), kv("grpc-message", b"denied%21"), kv("x-a", b"1")]),
        Some(vec![kv("grpc-status", b"99")]),
        Some(vec![kv("grpc-status", b"5"), kv("grpc-message", b"%FF")]),
        Some(vec![kv("grpc-message", b"no status here"), kv("grpc-status-details-bin", b"QUJD")]),
    ]
}

pub fn generate(tier: &str, rng: &mut Rng) -> Vec<String> {
    let thorough = tier == "thorough";
    let mut out: Vec<String> = Vec::new();

    // ---- corpus: witnesses of findings
    out.push(format!("dec {}", entries_tok(&[kv("grpc-status", b"3"), kv("grpc-status-details-bin", b"!!!")]))); // 5.2
    out.push(format!("infer 200 1 {}", entries_tok(&[kv("grpc-status", b"3"), kv("grpc-status-details-bin", b"!!!")])));
    out.push("h2 6".into()); // 5.3
    out.push(format!("rt {}", status_tok(3, "", b"", &[kv("grpc-status-details-bin", b"!!!")])));
    out.push(format!("rt {}", status_tok(3, "", b"", &[kv("grpc-status-details-bin", b"QUJD")])));

    // F2 (review round 2): a non-200 response WITH body data — an HTML error page, a body that
    // happens to look like a gRPC frame, a short text body
    out.push(format!("inferb 503 1 D {}", hex(b"<html><body>503 Service Unavailable</body></html>")));
    out.push(format!("inferb 401 1 D {}", hex(b"\0\0\0\0\x0cunauthorized")));
    out.push(format!("inferb 429 1 D {}", hex(b"slow")));
    out.push(format!("inferb 404 2 D {} T {}", hex(b"Not Found"), entries_tok(&[kv("x-a", b"1")])));
    // F3: the reset table on the path a real client takes
    out.push("rst 7 pre".into());
    out.push("rst 11 mid".into());
    // F5: a long message must not be cut
    out.push(format!("rt {}", status_tok(13, &big_text(64 * 1024, false), b"", &[])));

    // ---- exhaustive finite tables (every run)
    // Code::from_bytes: every string of length 0, 1, 2 over all 256 bytes; length 3 over an alphabet
    out.push("code x".into());
    for a in 0u16..=255 {
        out.push(format!("code {}", hex(&[a as u8])));
    }
    for a in 0u16..=255 {
        for b in 0u16..=255 {
            if thorough || (32..=64).contains(&a) || (32..=64).contains(&b) || a == b {
                out.push(format!("code {}", hex(&[a as u8, b as u8])));
            }
        }
    }
    for a in b"0123456789 +-" {
        for b in b"0123456789 +-" {
            for c in b"0123456789 +-" {
                out.push(format!("code {}", hex(&[*a, *b, *c])));
            }
        }
    }
    // the same table through the header path, for every byte a header value can carry
    for a in 0u16..=255 {
        let a = a as u8;
        if legal_value_byte(a) {
            out.push(format!("dec {}", entries_tok(&[kv("grpc-status", &[a])])));
            out.push(format!("dec {}", entries_tok(&[kv("grpc-status", &[b'1', a])])));
            out.push(format!("dec {}", entries_tok(&[kv("grpc-status", &[a, b'1'])])));
        }
    }
    // what "a Unicode string" is: Rust's encoding of code points vs the model's encoder/validator
    for c in [0u32, 0x7f, 0x80, 0x7ff, 0x800, 0xfff, 0x1000, 0xcfff, 0xd000, 0xd7ff, 0xd800, 0xdbff, 0xdfff, 0xe000, 0xffff, 0x10000, 0x3ffff, 0x40000, 0xfffff, 0x100000, 0x10ffff, 0x110000] {
        for d in [-1i64, 0, 1] {
            let x = c as i64 + d;
            if x >= 0 {
                out.push(format!("u8 {}", x));
            }
        }
    }
    let step = if thorough { 17 } else { 997 };
    let mut c = 0u32;
    while c < 0x110000 {
        out.push(format!("u8 {}", c));
        c += step;
    }
    // Code::from_i32
    for i in -3i64..=20 {
        out.push(format!("codei {} {}", if i < 0 { "-" } else { "+" }, i.abs()));
    }
    for i in [i32::MIN as i64, i32::MAX as i64, 255, 256, 65536, -16, 116] {
        out.push(format!("codei {} {}", if i < 0 { "-" } else { "+" }, i.abs()));
    }
    // every code × {empty, message} × details lengths 0..=4: write + read back
    for c in 0..=16u64 {
        for m in ["", "m", "é%"] {
            for dl in 0..=4usize {
                let d: Vec<u8> = (0..dl).map(|i| 0xf0 + i as u8).collect();
                out.push(format!("rt {}", status_tok(c, m, &d, &[])));
            }
        }
        out.push(format!("toh2 {}", c));
    }
    // percent-encode set: every ASCII byte as a one-character message; a two-character context
    for b in 0u8..128 {
        out.push(format!("rt {}", status_tok(2, &char::from(b).to_string(), b"", &[])));
        out.push(format!("rt {}", status_tok(2, &format!("a{}b", char::from(b)), b"", &[])));
    }
    // percent-decode: %XY for all 256 values in both cases, alone and after a 2-byte lead so
    // that continuation bytes are observable; raw (unescaped) bytes
    for x in 0u16..=255 {
        let x = x as u8;
        for upper in [true, false] {
            out.push(format!("dec {}", entries_tok(&[kv("grpc-status", b"2"), kv("grpc-message", &pct_all(&[x], upper))])));
        }
        let mut v = b"%C3".to_vec();
        v.extend_from_slice(&pct_all(&[x], true));
        out.push(format!("dec {}", entries_tok(&[kv("grpc-status", b"2"), kv("grpc-message", &v)])));
        if legal_value_byte(x) {
            out.push(format!("dec {}", entries_tok(&[kv("grpc-status", b"2"), kv("grpc-message", &[x])])));
            // every byte as first / second hex digit
            out.push(format!("dec {}", entries_tok(&[kv("grpc-status", b"2"), kv("grpc-message", &[b'%', x, b'1'])])));
            out.push(format!("dec {}", entries_tok(&[kv("grpc-status", b"2"), kv("grpc-message", &[b'%', b'4', x])])));
            // base64 symbol table: every byte in each position of a quantum and of the tails
            for pat in [vec![x, b'A', b'A', b'A'], vec![b'A', b'A', b'A', x], vec![b'A', b'A', x], vec![b'A', x], vec![b'A', b'A', x, b'='], vec![b'A', x, b'=', b'='], vec![b'A', b'A', b'A', b'A', x]] {
                out.push(format!("dec {}", entries_tok(&[kv("grpc-status", b"2"), kv("grpc-status-details-bin", &pat)])));
            }
        }
    }
    // base64: every 1- and 2-byte details value round trip (thorough: all 65536 two-byte values)
    for a in 0u16..=255 {
        out.push(format!("rt {}", status_tok(2, "", &[a as u8], &[])));
    }
    let n2 = if thorough { 65536 } else { 1024 };
    for i in 0..n2 {
        let v: u16 = if thorough { i as u16 } else { rng.next() as u16 };
        out.push(format!("rt {}", status_tok(2, "", &v.to_be_bytes(), &[])));
    }
    // HTTP status table: every status code the http crate can represent, no trailers / trailers
    // without grpc-status
    for s in 100u16..=999 {
        out.push(format!("infer {} 0", s));
        if s < 600 {
            out.push(format!("infer {} 1 {}", s, entries_tok(&[kv("x-a", b"1")])));
        }
    }
    // HTTP/2 error codes
    for r in (0u64..=20).chain([255, 256, 65535, 1 << 31, u32::MAX as u64]) {
        out.push(format!("h2 {}", r));
    }
    // … and through a real client connection: RST_STREAM(reason) before the response headers and
    // mid-body, every reason RFC 9113 defines and unknown ones
    for r in (0u64..=14).chain([255, u32::MAX as u64]) {
        out.push(format!("rst {} pre", r));
        out.push(format!("rst {} mid", r));
    }
    // HTTP status classes × bodies WITH data × trailers
    for http in [400u16, 401, 403, 404, 429, 502, 503, 504, 500, 302, 204, 418, 100, 599, 201, 200] {
        for (bi, body) in body_shapes().iter().enumerate() {
            if http == 200 && !(bi == 0 || bi == 1 || bi == 2 || bi == 5) {
                // for HTTP 200 the body IS the message stream (C01/C06/C07): only a few shapes here
                continue;
            }
            for tr in trailer_shapes() {
                for style in 0..3u64 {
                    let mut evs: Vec<String> = Vec::new();
                    match style {
                        0 => {
                            for c in body {
                                evs.push(format!("D {}", hex(c)));
                            }
                        }
                        1 => {
                            // every chunk cut in two, a Pending before each piece
                            for c in body {
                                let k = c.len() / 2;
                                evs.push("P".into());
                                evs.push(format!("D {}", hex(&c[..k])));
                                evs.push("P".into());
                                evs.push(format!("D {}", hex(&c[k..])));
                            }
                        }
                        _ => {
                            let all: Vec<u8> = body.concat();
                            let cuts = rng.below(4) as usize;
                            let mut pos: Vec<usize> = (0..cuts).map(|_| rng.below(all.len() as u64 + 1) as usize).collect();
                            pos.sort();
                            let mut prev = 0;
                            for p in pos {
                                evs.push(format!("D {}", hex(&all[prev..p])));
                                if rng.chance(1, 3) {
                                    evs.push("P".into());
                                }
                                prev = p;
                            }
                            evs.push(format!("D {}", hex(&all[prev..])));
                        }
                    }
                    if let Some(t) = &tr {
                        evs.push(format!("T {}", entries_tok(t)));
                    }
                    out.push(format!("inferb {} {} {}", http, evs.len(), evs.join(" ")).trim_end().to_string());
                }
            }
        }
    }
    // sizes: long messages (ASCII / needing percent-encoding), long details, one long metadata
    // value, through every kind that carries a status
    let sizes: &[usize] = if thorough { &[8 * 1024, 32 * 1024 - 1, 32 * 1024 + 1, 64 * 1024, 1024 * 1024] } else { &[8 * 1024, 32 * 1024 + 1, 64 * 1024] };
    for &n in sizes {
        for uni in [false, true] {
            let m = big_text(n, uni);
            push_big(&mut out, 2 + (n % 13) as u64, &m, b"", &[]);
        }
    }
    for &n in if thorough { &[64 * 1024usize, 1024 * 1024][..] } else { &[64 * 1024usize][..] } {
        let d: Vec<u8> = (0..n).map(|i| (i * 7 + i / 251) as u8).collect();
        push_big(&mut out, 9, "details", &d, &[]);
        push_big(&mut out, 9, &big_text(8 * 1024, true), &d, &[kv("x-big", big_text(16 * 1024, false).as_bytes())]);
    }
    push_big(&mut out, 5, "m", b"", &[kv("x-a", b"1"), kv("x-big", big_text(16 * 1024, false).as_bytes()), kv("x-big-bin", &b64_unpadded(&vec![0xa5u8; 12 * 1024]))]);

    // ---- structured: statuses
    let n = if thorough { 200000 } else { 4000 };
    for i in 0..n {
        let code = rng.below(17);
        let msg = gen_message(rng);
        let det = gen_details(rng);
        let md = gen_entries(rng, 6);
        if i % 8 == 5 {
            out.push(format!("rth {}", status_tok(code, &msg, &det, &md)));
        } else if i % 4 == 3 {
            let h0 = gen_entries(rng, 4);
            out.push(format!("enc {} {}", status_tok(code, &msg, &det, &md), entries_tok(&h0)));
        } else {
            out.push(format!("rt {}", status_tok(code, &msg, &det, &md)));
        }
    }

    // ---- long values that do not decode, a multi-byte character across every power-of-two-ish offset (seed C04f)
    for len in [15usize, 16, 31, 32, 33, 63, 64, 65, 127, 128, 129, 255, 256, 511, 512, 1023, 1024, 4096, 8192] {
        for off in 0..4 {
            for ch in 0..6 {
                if !thorough && (off + ch + len) % 3 != 0 {
                    continue;
                }
                let code = [b"2".to_vec(), b"0".to_vec(), b"16".to_vec()][(off + ch) % 3].clone();
                out.push(format!("dec {}", entries_tok(&[kv("grpc-status", &code), kv("grpc-message", &long_bad_value(len, off, ch, true))])));
                out.push(format!("dec {}", entries_tok(&[kv("grpc-status", &code), kv("grpc-status-details-bin", &long_bad_value(len, off, ch, false))])));
                out.push(format!(
                    "infer 200 1 {}",
                    entries_tok(&[kv("grpc-status", &code), kv("grpc-message", &long_bad_value(len, off, ch, true)), kv("grpc-status-details-bin", &long_bad_value(len, off + 1, ch + 1, false))])
                ));
            }
        }
    }
    // ---- malformed / arbitrary peer header maps
    let n = if thorough { 200000 } else { 4000 };
    for _ in 0..n {
        let mut es: Vec<(Vec<u8>, Vec<u8>)> = Vec::new();
        let k = rng.range(0, 5);
        for _ in 0..k {
            match rng.below(6) {
                0 | 1 => es.push(kv("grpc-status", &gen_code_value(rng))),
                2 => es.push(kv("grpc-message", &gen_wire_message(rng))),
                3 => es.push(kv("grpc-status-details-bin", &gen_wire_details(rng))),
                _ => es.push((gen_name(rng), gen_value(rng))),
            }
        }
        if rng.chance(3, 4) && !es.iter().any(|e| e.0 == b"grpc-status") {
            let pos = rng.below(es.len() as u64 + 1) as usize;
            es.insert(pos, kv("grpc-status", &gen_code_value(rng)));
        }
        out.push(format!("dec {}", entries_tok(&es)));
    }
    // end-of-body classification with trailers
    let n = if thorough { 60000 } else { 1500 };
    for _ in 0..n {
        let http = match rng.below(4) {
            0 => 200,
            1 => *rng.pick(&[400u64, 401, 403, 404, 429, 500, 502, 503, 504]),
            _ => rng.range(100, 599),
        };
        let nf = rng.range(0, 2);
        let mut s = format!("infer {} {}", http, nf);
        for _ in 0..nf {
            let mut es = gen_entries(rng, 3);
            if rng.chance(2, 3) {
                es.push(kv("grpc-status", &gen_code_value(rng)));
            }
            if rng.chance(1, 3) {
                es.push(kv("grpc-message", &gen_wire_message(rng)));
            }
            if rng.chance(1, 4) {
                es.push(kv("grpc-status-details-bin", &gen_wire_details(rng)));
            }
            s.push(' ');
            s.push_str(&entries_tok(&es));
        }
        out.push(s);
    }
    // … and with DATA in the body
    let n = if thorough { 40000 } else { 1500 };
    for _ in 0..n {
        let http = match rng.below(8) {
            0 => 200,
            1 | 2 | 3 => *rng.pick(&[400u64, 401, 403, 404, 429, 500, 502, 503, 504]),
            _ => rng.range(100, 599),
        };
        let mut evs: Vec<String> = Vec::new();
        let k = rng.range(0, 5);
        for _ in 0..k {
            match rng.below(8) {
                0 => evs.push("P".into()),
                1 => evs.push("D x".into()),
                2 => {
                    let shapes = body_shapes();
                    for c in rng.pick(&shapes) {
                        evs.push(format!("D {}", hex(c)));
                    }
                }
                3 | 4 => {
                    let l = rng.range(0, 12) as usize;
                    let mut f = vec![*rng.pick(&[0u8, 0, 0, 1, 2]), 0, 0, 0, l as u8];
                    let have = if rng.chance(3, 4) { l } else { rng.below(l as u64 + 1) as usize };
                    f.extend(rng.bytes(have));
                    let cut = rng.below(f.len() as u64 + 1) as usize;
                    if rng.chance(1, 2) {
                        evs.push(format!("D {}", hex(&f)));
                    } else {
                        evs.push(format!("D {}", hex(&f[..cut])));
                        evs.push(format!("D {}", hex(&f[cut..])));
                    }
                }
                _ => {
                    let l = rng.range(1, 30) as usize;
                    evs.push(format!("D {}", hex(&rng.bytes(l))));
                }
            }
        }
        if rng.chance(1, 2) {
            let mut es = gen_entries(rng, 3);
            if rng.chance(1, 2) {
                es.push(kv("grpc-status", &gen_code_value(rng)));
            }
            if rng.chance(1, 3) {
                es.push(kv("grpc-message", &gen_wire_message(rng)));
            }
            if rng.chance(1, 5) {
                es.push(kv("grpc-status-details-bin", &gen_wire_details(rng)));
            }
            evs.push(format!("T {}", entries_tok(&es)));
            if rng.chance(1, 6) {
                // whatever follows the first trailers frame is never read
                evs.push(format!("D {}", hex(b"late")));
                evs.push(format!("T {}", entries_tok(&[kv("grpc-status", b"3")])));
            }
        }
        out.push(format!("inferb {} {} {}", http, evs.len(), evs.join(" ")).trim_end().to_string());
    }
    // ---- dimensions added by the proactive audit (c04_x.rs)
    x::generate(tier, rng, &mut out);
    out
}
