mod c01;
mod c02;
mod c03;
mod c04;
mod c05;
mod c06;
mod c07;
mod c08;
mod c09;
mod c10;
mod c11;
mod c12;
mod c13;
mod c14;
mod c15;
mod c16;
mod c17;
mod c18;
mod c19;
mod c20;
mod common;
mod framing;

use common::*;

#[global_allocator]
static GLOBAL: ObservingAlloc = ObservingAlloc;
use std::io::Write;

fn generate(prop: &str, tier: &str, rng: &mut Rng) -> Vec<String> {
    match prop {
        "C01" => c01::generate(tier, rng),
        "C02" => c02::generate(tier, rng),
        "C03" => c03::generate(tier, rng),
        "C04" => c04::generate(tier, rng),
        "C05" => c05::generate(tier, rng),
        "C06" => c06::generate(tier, rng),
        "C07" => c07::generate(tier, rng),
        "C08" => c08::generate(tier, rng),
        "C09" => c09::generate(tier, rng),
        "C10" => c10::generate(tier, rng),
        "C11" => c11::generate(tier, rng),
        "C12" => c12::generate(tier, rng),
        "C13" => c13::generate(tier, rng),
        "C14" => c14::generate(tier, rng),
        "C15" => c15::generate(tier, rng),
        "C16" => c16::generate(tier, rng),
        "C17" => c17::generate(tier, rng),
        "C18" => c18::generate(tier, rng),
        "C19" => c19::generate(tier, rng),
        "C20" => c20::generate(tier, rng),
        _ => panic!("unknown property {prop}"),
    }
}

fn execute(prop: &str, case: &str) -> String {
    match prop {
        "C01" => guarded(|| c01::execute(case)),
        "C02" => guarded(|| c02::execute(case)),
        "C03" => guarded(|| c03::execute(case)),
        "C04" => guarded(|| c04::execute(case)),
        "C05" => guarded(|| c05::execute(case)),
        "C06" => guarded(|| c06::execute(case)),
        "C07" => guarded(|| c07::execute(case)),
        "C08" => guarded(|| c08::execute(case)),
        "C09" => guarded(|| c09::execute(case)),
        "C10" => guarded(|| c10::execute(case)),
        "C11" => guarded(|| c11::execute(case)),
        "C12" => guarded(|| c12::execute(case)),
        "C13" => guarded(|| c13::execute(case)),
        "C14" => guarded(|| c14::execute(case)),
        "C15" => guarded(|| c15::execute(case)),
        "C16" => guarded(|| c16::execute(case)),
        "C17" => guarded(|| c17::execute(case)),
        "C18" => guarded(|| c18::execute(case)),
        "C19" => guarded(|| c19::execute(case)),
        "C20" => guarded(|| c20::execute(case)),
        _ => "unknown-property".into(),
    }
}

/// harness run <Cxx> <tier> <seed> <outfile> [<casesfile>]
/// Writes `case\tobserved` per line. With a cases file, runs exactly those cases (replay).
fn main() {
    let args: Vec<String> = std::env::args().collect();
    if args.len() == 6 && args[1] == "gen" {
        // harness gen <Cxx> <tier> <seed> <outfile>: only write the generated case lines
        let mut rng = Rng::new(args[4].parse().expect("seed"));
        let cases = generate(&args[2], &args[3], &mut rng);
        std::fs::write(&args[5], cases.join("\n") + "\n").unwrap();
        return;
    }
    if args.len() < 6 || args[1] != "run" {
        eprintln!("usage: harness run <Cxx> <tier> <seed> <outfile> [<casesfile>] | harness gen <Cxx> <tier> <seed> <outfile>");
        std::process::exit(2);
    }
    silence_panics();
    let prop = args[2].clone();
    let tier = args[3].clone();
    let seed: u64 = args[4].parse().expect("seed");
    let cases: Vec<String> = if args.len() > 6 {
        std::fs::read_to_string(&args[6])
            .expect("cases file")
            .lines()
            .map(|l| l.split('\t').next().unwrap().to_string())
            .filter(|l| !l.is_empty())
            .collect()
    } else {
        let mut rng = Rng::new(seed);
        generate(&prop, &tier, &mut rng)
    };
    // shard over threads; order of output = order of cases
    let nthreads = std::thread::available_parallelism().map(|n| n.get()).unwrap_or(4).min(16);
    let chunk = (cases.len() + nthreads - 1) / nthreads.max(1);
    let mut results: Vec<String> = Vec::with_capacity(cases.len());
    if chunk == 0 {
        std::fs::write(&args[5], "").unwrap();
        return;
    }
    std::thread::scope(|sc| {
        let handles: Vec<_> = cases
            .chunks(chunk)
            .map(|part| {
                let prop = prop.clone();
                sc.spawn(move || part.iter().map(|c| execute(&prop, c)).collect::<Vec<_>>())
            })
            .collect();
        for h in handles {
            results.extend(h.join().unwrap());
        }
    });
    let mut f = std::io::BufWriter::new(std::fs::File::create(&args[5]).unwrap());
    for (c, r) in cases.iter().zip(results.iter()) {
        writeln!(f, "{}\t{}", c, r).unwrap();
    }
}
