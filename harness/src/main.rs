mod c09;
mod common;

use common::*;
use std::io::Write;

fn generate(prop: &str, tier: &str, rng: &mut Rng) -> Vec<String> {
    match prop {
        "C09" => c09::generate(tier, rng),
        _ => panic!("unknown property {prop}"),
    }
}

fn execute(prop: &str, case: &str) -> String {
    match prop {
        "C09" => guarded(|| c09::execute(case)),
        _ => "unknown-property".into(),
    }
}

/// harness run <Cxx> <tier> <seed> <outfile> [<casesfile>]
/// Writes `case\tobserved` per line. With a cases file, runs exactly those cases (replay).
fn main() {
    let args: Vec<String> = std::env::args().collect();
    if args.len() < 6 || args[1] != "run" {
        eprintln!("usage: harness run <Cxx> <tier> <seed> <outfile> [<casesfile>]");
        std::process::exit(2);
    }
    silence_panics();
    let prop = args[2].clone();
    let tier = args[3].clone();
    let seed: u64 = args[4].parse().expect("seed");
    let cases: Vec<String> = if args.len() > 6 {
        std::fs::read_to_string(&args[6])
            .expect("cases file")
            .lines()
            .map(|l| l.split('\t').next().unwrap().to_string())
            .filter(|l| !l.is_empty())
            .collect()
    } else {
        let mut rng = Rng::new(seed);
        generate(&prop, &tier, &mut rng)
    };
    // shard over threads; order of output = order of cases
    let nthreads = std::thread::available_parallelism().map(|n| n.get()).unwrap_or(4).min(16);
    let chunk = (cases.len() + nthreads - 1) / nthreads.max(1);
    let mut results: Vec<String> = Vec::with_capacity(cases.len());
    if chunk == 0 {
        std::fs::write(&args[5], "").unwrap();
        return;
    }
    std::thread::scope(|sc| {
        let handles: Vec<_> = cases
            .chunks(chunk)
            .map(|part| {
                let prop = prop.clone();
                sc.spawn(move || part.iter().map(|c| execute(&prop, c)).collect::<Vec<_>>())
            })
            .collect();
        for h in handles {
            results.extend(h.join().unwrap());
        }
    });
    let mut f = std::io::BufWriter::new(std::fs::File::create(&args[5]).unwrap());
    for (c, r) in cases.iter().zip(results.iter()) {
        writeln!(f, "{}\t{}", c, r).unwrap();
    }
}
