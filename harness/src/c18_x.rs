//! C18, audit aC18: dimensions the `seq` / `park` / `conc` cases of c18.rs did not drive.
//!
//! `life st<k> <items>` — handle lifecycle, independent pairs, stack variants.  TWO
//! `health_reporter()` pairs live in one process.  Per pair there are three reporter variables and
//! three client variables (0 = the value, 1 = a clone of it, 2 = empty at the start).  An item is
//! `p<pair>` followed by one op: the `seq` vocabulary (its handle number now names a variable),
//! `svx r k` / `nsvx r k` (`set_serving::<S>()` / `set_not_serving::<S>()` for a user-defined
//! `NamedService` `S`), and the handle operations `rd r` (drop reporter variable `r`), `rc r q`
//! (`reporters[r] = reporters[q].clone()`), `kd c`, `kc c q` (the same for clients).  A health
//! operation through an empty variable cannot be made (`noh`); `next` / `drop` need no handle.
//! All reporter handles of a pair may be gone (the statuses must stay), all clients of a pair may
//! be gone (its `HealthServer` and `HealthService` are dropped then; streams that are still open
//! own their receivers and must go on reporting).  Only the LAST handle of a pair is never dropped
//! (`noh`): with it the table itself goes away, which is outside the property's vocabulary.
//! `st<k>` = what sits between the generated client and the generated server, and how both are
//! configured (every client is built on a CLONE of the configured server value):
//!   st0 plain; st1 `tonic::service::Routes::new(server)` (the axum router of transport::Server);
//!   st2 `InterceptedService` with a pass-through interceptor; st3 gzip both ways on server and
//!   client (`send_compressed` + `accept_compressed`); st4 message-size limits on both sides.
//! Observed line: `L <skeleton> | <pair 0> | <pair 1>`: skeleton = per item `.` (a health operation
//! happened), `ok` / `noh`; a pair's part is exactly the line `seq` would give for the health
//! operations that happened on that pair (answers, then the report key).
//!
//! Further generators here emit ordinary `seq` cases for input classes of scale and naming:
//! many watchers on one name, many names, bursts of 15…513 updates between two polls of a stream
//! (counter widths), near-miss pairs of names (white space, case, NUL, leading `/` or `.`,
//! Unicode normalisation forms, `*`).
use super::*;
use tonic::codec::CompressionEncoding;

struct OtherA;
impl tonic::server::NamedService for OtherA {
    const NAME: &'static str = "helloworld.Greeter";
}
struct OtherB;
impl tonic::server::NamedService for OtherB {
    /// differs from `HealthServer`'s name by case only
    const NAME: &'static str = "grpc.health.v1.health";
}

#[derive(Clone, Debug)]
enum LOp {
    H(Op),
    ServingX(usize, u8),
    NotServingX(usize, u8),
    RDrop(usize),
    RClone(usize, usize),
    KDrop(usize),
    KClone(usize, usize),
}

const NVARS: usize = 3;
const NPAIRS: usize = 2;
const NSTACKS: u64 = 5;

fn lop_tokens(op: &LOp) -> String {
    match op {
        LOp::H(op) => op_tokens(op),
        LOp::ServingX(r, k) => format!("svx {} {}", r, k),
        LOp::NotServingX(r, k) => format!("nsvx {} {}", r, k),
        LOp::RDrop(r) => format!("rd {}", r),
        LOp::RClone(r, q) => format!("rc {} {}", r, q),
        LOp::KDrop(c) => format!("kd {}", c),
        LOp::KClone(c, q) => format!("kc {} {}", c, q),
    }
}

fn life_line(stack: u64, items: &[(usize, LOp)]) -> String {
    let body: Vec<String> = items.iter().map(|(p, op)| format!("p{} {}", p, lop_tokens(op))).collect();
    format!("life st{} {}", stack, body.join(" "))
}

fn parse_life(t: &[&str]) -> Option<Vec<(usize, LOp)>> {
    let mut out = Vec::new();
    let mut i = 0;
    let var = |s: &str| s.parse::<usize>().ok().filter(|v| *v < NVARS);
    while i < t.len() {
        let p = t[i].strip_prefix('p')?.parse::<usize>().ok().filter(|p| *p < NPAIRS)?;
        i += 1;
        let arity = match *t.get(i)? {
            "s" => 4,
            "svx" | "nsvx" | "rc" | "kc" | "c" | "k" | "w" => 3,
            "sv" | "nsv" | "n" | "d" | "rd" | "kd" => 2,
            _ => return None,
        };
        if i + arity > t.len() {
            return None;
        }
        let w = &t[i..i + arity];
        let op = match w[0] {
            "svx" => LOp::ServingX(var(w[1])?, w[2].parse::<u8>().ok().filter(|k| *k < 2)?),
            "nsvx" => LOp::NotServingX(var(w[1])?, w[2].parse::<u8>().ok().filter(|k| *k < 2)?),
            "rd" => LOp::RDrop(var(w[1])?),
            "rc" => LOp::RClone(var(w[1])?, var(w[2])?),
            "kd" => LOp::KDrop(var(w[1])?),
            "kc" => LOp::KClone(var(w[1])?, var(w[2])?),
            _ => {
                let ops = parse_ops(w)?;
                let [op] = <[Op; 1]>::try_from(ops).ok()?;
                match &op {
                    Op::Set(r, ..) | Op::Serving(r) | Op::NotServing(r) | Op::Clear(r, _) | Op::Check(r, _) | Op::Watch(r, _) => {
                        var(&r.to_string())?;
                    }
                    Op::Next(_) | Op::Drop(_) => {}
                }
                LOp::H(op)
            }
        };
        out.push((p, op));
        i += arity;
    }
    Some(out)
}

type StdError = Box<dyn std::error::Error + Send + Sync + 'static>;

struct Side<S> {
    reporters: [Option<HealthReporter>; NVARS],
    clients: [Option<HealthClient<S>>; NVARS],
    watchers: Vec<Option<Stream>>,
    out: Vec<String>,
    polls: Vec<(usize, String)>,
}

impl<S> Side<S> {
    fn live(&self) -> usize {
        self.reporters.iter().filter(|x| x.is_some()).count() + self.clients.iter().filter(|x| x.is_some()).count()
    }
}

fn done(r: Result<(), &'static str>) -> String {
    match r {
        Ok(()) => "ok".to_string(),
        Err(e) => e.to_string(),
    }
}

fn run_life<T, S>(mut sides: Vec<Side<S>>, items: &[(usize, LOp)]) -> String
where
    T: Health,
    S: tonic::client::GrpcService<tonic::body::Body> + Clone,
    S::Error: Into<StdError>,
    S::ResponseBody: http_body::Body<Data = bytes::Bytes> + Send + 'static,
    <S::ResponseBody as http_body::Body>::Error: Into<StdError> + Send,
{
    let mut skel: Vec<&'static str> = vec!["L"];
    for (p, op) in items {
        let side = &mut sides[*p];
        // Some(answer) = a health operation happened; None = nothing to call it on
        let eff: Option<String> = match op {
            LOp::RDrop(r) => {
                // the last handle of a pair is never dropped (see `gone` in Model/HealthLife.lean)
                let last = side.live() == 1;
                skel.push(if !last && side.reporters[*r].take().is_some() { "ok" } else { "noh" });
                continue;
            }
            LOp::RClone(r, q) => {
                let v = side.reporters[*q].clone();
                skel.push(if v.is_some() { "ok" } else { "noh" });
                if v.is_some() {
                    side.reporters[*r] = v;
                }
                continue;
            }
            LOp::KDrop(c) => {
                let last = side.live() == 1;
                skel.push(if !last && side.clients[*c].take().is_some() { "ok" } else { "noh" });
                continue;
            }
            LOp::KClone(c, q) => {
                let v = side.clients[*q].clone();
                skel.push(if v.is_some() { "ok" } else { "noh" });
                if v.is_some() {
                    side.clients[*c] = v;
                }
                continue;
            }
            LOp::ServingX(r, k) => side.reporters[*r].as_ref().map(|rep| {
                done(if *k == 0 { complete(rep.set_serving::<OtherA>()) } else { complete(rep.set_serving::<OtherB>()) })
            }),
            LOp::NotServingX(r, k) => side.reporters[*r].as_ref().map(|rep| {
                done(if *k == 0 { complete(rep.set_not_serving::<OtherA>()) } else { complete(rep.set_not_serving::<OtherB>()) })
            }),
            LOp::H(Op::Set(r, n, s)) => {
                side.reporters[*r].as_ref().map(|rep| done(complete(rep.set_service_status(n.as_str(), status_of(*s)))))
            }
            LOp::H(Op::Serving(r)) => side.reporters[*r].as_ref().map(|rep| done(complete(rep.set_serving::<HealthServer<T>>()))),
            LOp::H(Op::NotServing(r)) => {
                side.reporters[*r].as_ref().map(|rep| done(complete(rep.set_not_serving::<HealthServer<T>>())))
            }
            LOp::H(Op::Clear(r, n)) => side.reporters[*r].as_mut().map(|rep| done(complete(rep.clear_service_status(n.as_str())))),
            LOp::H(Op::Check(c, n)) => side.clients[*c].as_mut().map(|cl| {
                match complete(cl.check(HealthCheckRequest { service: n.clone() })) {
                    Ok(Ok(resp)) => wire_status_tok("st", resp.into_inner().status),
                    Ok(Err(st)) => err_tok(&st),
                    Err(e) => e.to_string(),
                }
            }),
            LOp::H(Op::Watch(c, n)) => match side.clients[*c].as_mut() {
                None => None,
                Some(cl) => Some(match complete(cl.watch(HealthCheckRequest { service: n.clone() })) {
                    Ok(Ok(resp)) => {
                        side.watchers.push(Some(resp.into_inner()));
                        "sub".to_string()
                    }
                    Ok(Err(st)) => {
                        side.watchers.push(None);
                        err_tok(&st)
                    }
                    Err(e) => {
                        side.watchers.push(None);
                        e.to_string()
                    }
                }),
            },
            LOp::H(Op::Next(w)) => Some(match side.watchers.get_mut(*w) {
                Some(Some(stream)) => {
                    let tok = next_tok(stream);
                    side.polls.push((*w, tok.clone()));
                    tok
                }
                _ => "now".to_string(),
            }),
            LOp::H(Op::Drop(w)) => Some(match side.watchers.get_mut(*w) {
                Some(slot @ Some(_)) => {
                    *slot = None;
                    "ok".to_string()
                }
                _ => "now".to_string(),
            }),
        };
        match eff {
            Some(tok) => {
                side.out.push(tok);
                skel.push(".");
            }
            None => skel.push("noh"),
        }
    }
    let mut parts = vec![skel.join(" ")];
    for side in &sides {
        let key = report_key(side.watchers.len(), &side.polls);
        parts.push(if side.out.is_empty() { key } else { format!("{} {}", side.out.join(" "), key) });
    }
    parts.join(" | ")
}

fn side_of<S: Clone>(reporter: HealthReporter, c0: HealthClient<S>, c1: HealthClient<S>) -> Side<S> {
    Side {
        reporters: [Some(reporter.clone()), Some(reporter), None],
        clients: [Some(c0), Some(c1), None],
        watchers: Vec::new(),
        out: Vec::new(),
        polls: Vec::new(),
    }
}

fn pass(req: tonic::Request<()>) -> Result<tonic::Request<()>, tonic::Status> {
    Ok(req)
}

/// Builds the two pairs behind stack `k` and runs the items.  `T` is named through `probe`.
fn life_on<T: Health>(stack: u64, make: impl Fn() -> (HealthReporter, HealthServer<T>), items: &[(usize, LOp)]) -> String {
    match stack {
        0 => {
            let sides = (0..NPAIRS)
                .map(|_| {
                    let (r, s) = make();
                    side_of(r, HealthClient::new(s.clone()), HealthClient::new(s))
                })
                .collect();
            run_life::<T, _>(sides, items)
        }
        1 => {
            let sides = (0..NPAIRS)
                .map(|_| {
                    let (r, s) = make();
                    let routes = tonic::service::Routes::new(s);
                    side_of(r, HealthClient::new(routes.clone()), HealthClient::new(routes))
                })
                .collect();
            run_life::<T, _>(sides, items)
        }
        2 => {
            let sides = (0..NPAIRS)
                .map(|_| {
                    let (r, s) = make();
                    let f: fn(tonic::Request<()>) -> Result<tonic::Request<()>, tonic::Status> = pass;
                    let svc = tonic::service::interceptor::InterceptedService::new(s, f);
                    side_of(r, HealthClient::new(svc.clone()), HealthClient::new(svc))
                })
                .collect();
            run_life::<T, _>(sides, items)
        }
        3 => {
            let sides = (0..NPAIRS)
                .map(|_| {
                    let (r, s) = make();
                    let s = s.send_compressed(CompressionEncoding::Gzip).accept_compressed(CompressionEncoding::Gzip);
                    let mk = |s: HealthServer<T>| {
                        HealthClient::new(s).send_compressed(CompressionEncoding::Gzip).accept_compressed(CompressionEncoding::Gzip)
                    };
                    side_of(r, mk(s.clone()), mk(s))
                })
                .collect();
            run_life::<T, _>(sides, items)
        }
        _ => {
            let sides = (0..NPAIRS)
                .map(|_| {
                    let (r, s) = make();
                    let s = s.max_decoding_message_size(4096).max_encoding_message_size(64);
                    let mk = |s: HealthServer<T>| HealthClient::new(s).max_decoding_message_size(64).max_encoding_message_size(4096);
                    side_of(r, mk(s.clone()), mk(s))
                })
                .collect();
            run_life::<T, _>(sides, items)
        }
    }
}

pub(super) fn execute_life(t: &[&str]) -> String {
    let Some(stack) = t.first().and_then(|s| s.strip_prefix("st")).and_then(|s| s.parse::<u64>().ok()).filter(|k| *k < NSTACKS) else {
        return "bad-case".into();
    };
    match parse_life(&t[1..]) {
        Some(items) if !items.is_empty() => life_on(stack, health_reporter, &items),
        _ => "bad-case".into(),
    }
}

// ---------------------------------------------------------------------------------------------
// generators

fn h(p: usize, op: Op) -> (usize, LOp) {
    (p, LOp::H(op))
}

fn life_corpus(out: &mut Vec<String>) {
    let a = "a".to_string();
    let e = "".to_string();
    let corpus: Vec<Vec<(usize, LOp)>> = vec![
        // every reporter handle dropped: the statuses stay, Check and the open stream go on answering
        vec![
            h(0, Op::Set(0, a.clone(), 2)),
            h(0, Op::Watch(0, a.clone())),
            h(0, Op::Next(0)),
            (0, LOp::RDrop(0)),
            h(0, Op::Check(0, a.clone())),
            h(0, Op::Next(0)),
            (0, LOp::RDrop(1)),
            h(0, Op::Check(0, a.clone())),
            h(0, Op::Check(1, e.clone())),
            h(0, Op::Next(0)),
            h(0, Op::Watch(1, a.clone())),
            h(0, Op::Next(1)),
            h(0, Op::Set(1, a.clone(), 1)),
            (0, LOp::RClone(2, 0)),
            (0, LOp::RDrop(0)),
        ],
        // a clone is dropped, the other handle goes on updating; a clone of a clone
        vec![
            h(0, Op::Set(1, a.clone(), 1)),
            (0, LOp::RDrop(1)),
            h(0, Op::Check(0, a.clone())),
            h(0, Op::Set(0, a.clone(), 2)),
            (0, LOp::RClone(2, 0)),
            (0, LOp::RDrop(0)),
            h(0, Op::Check(0, a.clone())),
            h(0, Op::Clear(2, a.clone())),
            h(0, Op::Check(1, a.clone())),
            (0, LOp::RClone(1, 2)),
            (0, LOp::RDrop(2)),
            h(0, Op::Set(1, e.clone(), 2)),
            h(0, Op::Check(1, e.clone())),
        ],
        // the client a stream came from is dropped, then all clients (and with them the server)
        vec![
            h(0, Op::Set(0, a.clone(), 1)),
            h(0, Op::Watch(0, a.clone())),
            (0, LOp::KDrop(0)),
            h(0, Op::Next(0)),
            h(0, Op::Set(0, a.clone(), 2)),
            h(0, Op::Next(0)),
            (0, LOp::KClone(2, 1)),
            (0, LOp::KDrop(1)),
            h(0, Op::Check(2, a.clone())),
            (0, LOp::KDrop(2)),
            h(0, Op::Set(0, a.clone(), 0)),
            h(0, Op::Next(0)),
            h(0, Op::Next(0)),
            h(0, Op::Check(2, a.clone())),
            h(0, Op::Clear(1, a.clone())),
            h(0, Op::Next(0)),
            h(0, Op::Next(0)),
        ],
        // two pairs share nothing, not even the overall-health name
        vec![
            h(0, Op::Set(0, a.clone(), 2)),
            h(1, Op::Check(0, a.clone())),
            h(1, Op::Watch(0, a.clone())),
            h(0, Op::Clear(0, e.clone())),
            h(1, Op::Check(0, e.clone())),
            h(0, Op::Check(0, e.clone())),
            h(1, Op::Watch(1, e.clone())),
            h(1, Op::Next(1)),
            h(0, Op::Set(1, e.clone(), 0)),
            h(1, Op::Next(1)),
            h(1, Op::Set(0, a.clone(), 1)),
            h(0, Op::Check(1, a.clone())),
            h(1, Op::Check(1, a.clone())),
            h(0, Op::Watch(0, a.clone())),
            h(1, Op::Clear(0, a.clone())),
            h(0, Op::Next(0)),
            h(0, Op::Next(0)),
            (1, LOp::RDrop(0)),
            (1, LOp::RDrop(1)),
            h(0, Op::Set(0, a.clone(), 1)),
            h(0, Op::Next(0)),
        ],
        // set_serving for other NamedService types: their own NAME, nobody else's
        vec![
            (0, LOp::ServingX(0, 0)),
            h(0, Op::Check(0, "helloworld.Greeter".to_string())),
            h(0, Op::Check(0, SVC_NAME.to_string())),
            (0, LOp::NotServingX(1, 1)),
            h(0, Op::Check(0, "grpc.health.v1.health".to_string())),
            h(0, Op::Check(0, SVC_NAME.to_string())),
            h(0, Op::Serving(0)),
            h(0, Op::Check(1, "grpc.health.v1.health".to_string())),
            h(0, Op::Check(1, SVC_NAME.to_string())),
            h(0, Op::Watch(0, "helloworld.Greeter".to_string())),
            (0, LOp::NotServingX(0, 0)),
            h(0, Op::Next(0)),
            (0, LOp::ServingX(0, 0)),
            (0, LOp::ServingX(0, 0)),
            h(0, Op::Next(0)),
            h(0, Op::Next(0)),
        ],
    ];
    for c in &corpus {
        for stack in 0..NSTACKS {
            out.push(life_line(stack, c));
        }
    }
}

fn gen_life(rng: &mut Rng, count: usize, out: &mut Vec<String>) {
    const XNAMES: [&str; 2] = ["helloworld.Greeter", "grpc.health.v1.health"];
    for i in 0..count {
        let stack = (i as u64) % NSTACKS;
        let two = rng.chance(2, 3);
        let len = rng.range(4, 36) as usize;
        let mut nwatch = [0usize; NPAIRS];
        let mut items: Vec<(usize, LOp)> = Vec::new();
        let name = |rng: &mut Rng| -> String {
            match rng.below(20) {
                0..=9 => "a".to_string(),
                10..=15 => "".to_string(),
                16 => rng.pick(&XNAMES).to_string(),
                17 => SVC_NAME.to_string(),
                _ => rng.pick(&NAMES).to_string(),
            }
        };
        for p in 0..NPAIRS {
            if (p == 0 || two) && rng.chance(4, 5) {
                items.push(h(p, Op::Set(0, "a".to_string(), rng.below(3) as u8)));
            }
        }
        // generator-side bookkeeping, only to bias choices (which variables probably hold a value)
        let mut rl = [[true, true, false]; NPAIRS];
        let mut kl = [[true, true, false]; NPAIRS];
        for _ in 0..len {
            let p = if two && rng.chance(2, 5) { 1 } else { 0 };
            // a variable that holds a value, mostly
            let v = |rng: &mut Rng, live: &[bool; NVARS]| {
                let l: Vec<usize> = (0..NVARS).filter(|i| live[*i]).collect();
                if !l.is_empty() && rng.chance(7, 8) {
                    *rng.pick(&l)
                } else {
                    rng.below(NVARS as u64) as usize
                }
            };
            let slot = |rng: &mut Rng, n: usize| if rng.chance(1, 12) { n } else { rng.below(n.max(1) as u64) as usize };
            let (r, c) = (v(rng, &rl[p]), v(rng, &kl[p]));
            let op = match rng.below(40) {
                0..=7 => LOp::H(Op::Set(r, name(rng), rng.below(3) as u8)),
                8 => LOp::H(if rng.chance(1, 2) { Op::Serving(r) } else { Op::NotServing(r) }),
                9 => {
                    if rng.chance(1, 2) {
                        LOp::ServingX(r, rng.below(2) as u8)
                    } else {
                        LOp::NotServingX(r, rng.below(2) as u8)
                    }
                }
                10..=11 => LOp::H(Op::Clear(r, name(rng))),
                12..=17 => LOp::H(Op::Check(c, name(rng))),
                18..=22 => LOp::H(Op::Watch(c, name(rng))),
                23..=32 if nwatch[p] == 0 => LOp::H(Op::Watch(c, name(rng))),
                23..=31 => LOp::H(Op::Next(slot(rng, nwatch[p]))),
                32 => LOp::H(Op::Drop(slot(rng, nwatch[p]))),
                33..=34 => LOp::RDrop(r),
                35..=37 => LOp::RClone(rng.below(NVARS as u64) as usize, r),
                38 if rng.chance(1, 2) => LOp::KDrop(c),
                _ => LOp::KClone(rng.below(NVARS as u64) as usize, c),
            };
            match &op {
                LOp::H(Op::Watch(c, _)) if kl[p][*c] => nwatch[p] += 1,
                LOp::RDrop(r) => rl[p][*r] = false,
                LOp::RClone(r, q) if rl[p][*q] => rl[p][*r] = true,
                LOp::KDrop(c) => kl[p][*c] = false,
                LOp::KClone(c, q) if kl[p][*q] => kl[p][*c] = true,
                _ => {}
            }
            items.push((p, op));
        }
        // drain: every stream twice, then Check of the usual names through every client variable
        for p in 0..NPAIRS {
            if p == 1 && !two {
                continue;
            }
            for w in 0..nwatch[p] {
                items.push(h(p, Op::Next(w)));
                items.push(h(p, Op::Next(w)));
            }
            for c in 0..NVARS {
                items.push(h(p, Op::Check(c, if c == 1 { "".to_string() } else { "a".to_string() })));
            }
        }
        out.push(life_line(stack, &items));
    }
}

/// Many streams on one name: all are accepted, all report, all end.
fn gen_many_watchers(rng: &mut Rng, thorough: bool, out: &mut Vec<String>) {
    let sizes: &[usize] = if thorough { &[9, 17, 33, 65, 130, 260, 1030] } else { &[17, 33, 65, 130, 260, 520] };
    for &n in sizes {
        let name = if rng.chance(1, 2) { "a".to_string() } else { "".to_string() };
        let mut ops = vec![Op::Set(0, name.clone(), rng.below(3) as u8)];
        for i in 0..n {
            ops.push(Op::Watch(i % 2, name.clone()));
            if rng.chance(1, 3) {
                ops.push(Op::Next(i));
            }
        }
        ops.push(Op::Set(1, name.clone(), rng.below(3) as u8));
        for i in 0..n {
            ops.push(Op::Next(i));
        }
        ops.push(Op::Set(0, name.clone(), rng.below(3) as u8));
        ops.push(Op::Clear(0, name.clone()));
        for i in 0..n {
            ops.push(Op::Next(i));
            ops.push(Op::Next(i));
        }
        ops.push(Op::Check(0, name.clone()));
        out.push(format!("seq {}", ops_tokens(&ops)));
    }
}

/// Many registered names: each keeps its own status.
fn gen_many_names(rng: &mut Rng, thorough: bool, out: &mut Vec<String>) {
    let sizes: &[usize] = if thorough { &[9, 17, 33, 65, 130, 300, 1030] } else { &[17, 65, 300] };
    for &n in sizes {
        let names: Vec<String> = (0..n).map(|i| format!("pkg{}.Svc{}", i % 7, i)).collect();
        let mut ops = Vec::new();
        for nm in &names {
            ops.push(Op::Set(0, nm.clone(), rng.below(3) as u8));
        }
        ops.push(Op::Watch(0, names[0].clone()));
        ops.push(Op::Watch(1, names[n - 1].clone()));
        for nm in &names {
            ops.push(Op::Check(1, nm.clone()));
        }
        for (i, nm) in names.iter().enumerate() {
            match i % 3 {
                0 => ops.push(Op::Clear(1, nm.clone())),
                1 => ops.push(Op::Set(1, nm.clone(), rng.below(3) as u8)),
                _ => {}
            }
        }
        for nm in &names {
            ops.push(Op::Check(0, nm.clone()));
        }
        ops.push(Op::Check(0, "".to_string()));
        for w in 0..2 {
            ops.push(Op::Next(w));
            ops.push(Op::Next(w));
        }
        out.push(format!("seq {}", ops_tokens(&ops)));
    }
}

/// Bursts of `k` updates between two polls of a stream, `k` around powers of two (a version or
/// sequence counter narrower than tokio's would wrap), the burst ending on a status different
/// from / equal to the one delivered last; the same with a clear after the burst.
fn gen_bursts(rng: &mut Rng, thorough: bool, out: &mut Vec<String>) {
    let mut ks: Vec<usize> = vec![15, 16, 17, 31, 32, 33, 63, 64, 65, 127, 128, 129, 255, 256, 257];
    if thorough {
        ks.extend([254, 258, 511, 512, 513, 1023, 1024, 1025]);
    }
    for &k in &ks {
        for variant in 0..4 {
            let name = if variant % 2 == 0 { "a".to_string() } else { "".to_string() };
            let start = rng.below(3) as u8;
            let mut ops = vec![Op::Set(0, name.clone(), start), Op::Watch(0, name.clone()), Op::Watch(1, name.clone()), Op::Next(0)];
            // statuses cycle through all three, so the burst ends on start + k (mod 3)
            for j in 1..=k {
                ops.push(Op::Set(j % 2, name.clone(), ((start as usize + j) % 3) as u8));
            }
            if variant >= 2 {
                ops.push(Op::Clear(0, name.clone()));
            }
            ops.extend([Op::Next(0), Op::Next(0), Op::Next(1), Op::Next(1), Op::Check(0, name.clone())]);
            // a second burst of the same length from where the stream stands now
            if variant < 2 {
                for j in 1..=k {
                    ops.push(Op::Set(0, name.clone(), ((start as usize + k + j) % 3) as u8));
                }
                ops.extend([Op::Next(0), Op::Next(0), Op::Next(1), Op::Check(1, name.clone())]);
            }
            out.push(format!("seq {}", ops_tokens(&ops)));
        }
    }
}

/// Names a lookup that is not exact equality of the UTF-8 strings would confuse.
const NEAR: [&str; 24] = [
    "a",
    "a ",
    " a",
    "A",
    "a\0",
    "/a",
    ".a",
    "a.",
    "a*",
    "*",
    "",
    " ",
    "\t",
    "\u{feff}",
    "\u{e9}",
    "e\u{301}",
    "\u{c9}",
    "grpc.health.v1.Health",
    "grpc.health.v1.health",
    "Health",
    "/grpc.health.v1.Health",
    ".grpc.health.v1.Health",
    "grpc.health.v1.Health/Check",
    "grpc.health.v1",
];

fn gen_near_names(out: &mut Vec<String>) {
    for x in NEAR {
        for y in NEAR {
            if x == y {
                continue;
            }
            let (x, y) = (x.to_string(), y.to_string());
            let ops = vec![
                Op::Set(0, x.clone(), 2),
                Op::Check(0, y.clone()),
                Op::Watch(0, y.clone()),
                Op::Watch(1, x.clone()),
                Op::Next(0),
                Op::Next(1),
                Op::Set(1, y.clone(), 0),
                Op::Check(0, x.clone()),
                Op::Next(1),
                Op::Clear(0, y.clone()),
                Op::Check(1, x.clone()),
                Op::Check(1, y.clone()),
                Op::Next(1),
                Op::Next(0),
            ];
            out.push(format!("seq {}", ops_tokens(&ops)));
        }
    }
}

pub(super) fn generate(tier: &str, rng: &mut Rng, out: &mut Vec<String>) {
    let thorough = tier == "thorough";
    life_corpus(out);
    gen_life(rng, if thorough { 40000 } else { 4000 }, out);
    gen_many_watchers(rng, thorough, out);
    gen_many_names(rng, thorough, out);
    gen_bursts(rng, thorough, out);
    gen_near_names(out);
}
