//! C05 — dimensions that must be INVISIBLE to the negotiation (audit round aC05).
//!
//! A case line `x.<knob>:<v>,<knob>:<v>… <inner case>` runs the inner `srv.` / `cli.` / `pair.` /
//! `gen.` case of c05.rs with the named knobs turned; the Lean driver drops the first token and
//! predicts / judges the inner case exactly as before: none of these knobs may change which
//! encoding is negotiated, announced, used, refused or advertised.
//!
//! knobs (0 = as in the plain case)
//!   ms  message-size limits configured next to the compression settings (all far above any message)
//!         1 builder methods after the compression calls   2 builder methods before them
//!         3 server: `apply_max_message_size_config(Some, Some)` after `apply_compression_config`
//!            (the generated-server route); client: only `max_decoding_message_size`
//!         4 server: `apply_max_message_size_config(None, None)`; client: only `max_encoding_message_size`
//!   bs  the codec's `BufferSettings` (encoder and decoder): 1 (1,1)  2 (0,0)  3 (16,usize::MAX)
//!         4 (1 MiB, 1)  5 (8192, 0)
//!   cut how the RECEIVED body (server: request, client: response) is cut into DATA frames
//!         1 every byte (bodies ≤ 4 KiB)  2 after every flag byte  3 after every 5-byte prefix
//!         4 in the middle of every payload  5 inside every length field  6 all of 2,3,4
//!   xh  foreign headers on the received head (bit mask)
//!         server request:  1 `accept-encoding: gzip, deflate, zstd`   2 `content-encoding: gzip`
//!                          4 no `te`   8 `content-type: application/grpc+proto`   16 HTTP/1.1
//!                          32 request trailers carrying `grpc-encoding` / `grpc-accept-encoding`
//!         client response: 1 `accept-encoding` + `grpc-accept-encoding: identity`
//!                          2 `content-encoding: gzip`   8 `content-type: application/grpc+proto`
//!                          32 the trailers carry `grpc-encoding: zstd` / `grpc-accept-encoding`
//!   pd  the handler's response stream (server) / the caller's request stream (client) returns
//!         `Pending` (with a wake-up) before every item and before its end
//!   og  client: 1 `with_origin("http://h")`  2 `with_origin("http://h/prefix")`
//!         3 `with_origin("http://h/?q=1")`
//!   cl  client: 1 the call is made on a clone of a clone whose originals are dropped first
//!         2 a clone is taken and used for an unrelated call first, then the original is used
//!   wr  client history with PEER FEEDBACK: before the call, the same (fully configured) client
//!         makes a call that the peer answers with
//!         1 UNIMPLEMENTED + `grpc-accept-encoding: identity`   2 OK + `grpc-accept-encoding: identity`
//!         3 OK + `grpc-accept-encoding: gzip,deflate,zstd` + `grpc-encoding: zstd`
//!         4 an HTTP 415 without any grpc header
//!       server history (`srv.`): the same `Grpc` value has first served a call that
//!         1 was refused (unsupported grpc-encoding)   2 offered nothing and sent identity
//!         3 failed in the handler
//!   web server (`srv.`): the call arrives as a grpc-web call (binary) through `tonic_web::GrpcWebLayer` in front of the
//!         same `server::Grpc`: 1 over HTTP/1.1   2 over HTTP/2.  The layer translates the request and the response;
//!         what the server negotiates hangs on the `grpc-encoding` / `grpc-accept-encoding` the CALLER sent - a
//!         browser client that offers nothing gets identity (seed C05g: the layer inventing an offer)
//!   ic  `gen.` only: 1 client built by `with_interceptor`, server wrapped in `InterceptedService`
//!         (pass-through interceptors)   2 the interceptors also add a metadata entry
use bytes::Bytes;
use std::cell::Cell;
use std::collections::VecDeque;
use std::pin::Pin;
use std::task::{Context, Poll};
use tonic::codec::BufferSettings;
use tonic::Status;

#[derive(Clone, Copy, Default, Debug)]
pub struct Knobs {
    pub ms: u32,
    pub bs: u32,
    pub cut: u32,
    pub xh: u32,
    pub pd: u32,
    pub og: u32,
    pub cl: u32,
    pub wr: u32,
    pub ic: u32,
    pub web: u32,
}

thread_local! {
    static KNOBS: Cell<Knobs> = const { Cell::new(Knobs { ms: 0, bs: 0, cut: 0, xh: 0, pd: 0, og: 0, cl: 0, wr: 0, ic: 0, web: 0 }) };
}

thread_local! {
    static HTTP: Cell<u16> = const { Cell::new(200) };
}

/// HTTP status of the scripted response of a `clih.` case
pub fn http_status() -> u16 {
    HTTP.with(|h| h.get())
}

pub fn set_http_status(s: u16) {
    HTTP.with(|h| h.set(s));
}

pub fn knobs() -> Knobs {
    KNOBS.with(|k| k.get())
}

pub fn set(k: Knobs) {
    KNOBS.with(|c| c.set(k));
}

/// `x.ms:1,cut:2` → knobs
pub fn parse(tok: &str) -> Option<Knobs> {
    let mut k = Knobs::default();
    let body = tok.strip_prefix("x.")?;
    for part in body.split(',').filter(|p| !p.is_empty()) {
        let (name, v) = part.split_once(':')?;
        let v: u32 = v.parse().ok()?;
        match name {
            "ms" => k.ms = v,
            "bs" => k.bs = v,
            "cut" => k.cut = v,
            "xh" => k.xh = v,
            "pd" => k.pd = v,
            "og" => k.og = v,
            "cl" => k.cl = v,
            "wr" => k.wr = v,
            "ic" => k.ic = v,
            "web" => k.web = v,
            _ => return None,
        }
    }
    Some(k)
}

pub const LIMIT: usize = 1 << 22;

pub fn buffer_settings() -> BufferSettings {
    match knobs().bs {
        1 => BufferSettings::new(1, 1),
        2 => BufferSettings::new(0, 0),
        3 => BufferSettings::new(16, usize::MAX),
        4 => BufferSettings::new(1 << 20, 1),
        5 => BufferSettings::new(8192, 0),
        _ => BufferSettings::default(),
    }
}

/// cut a body made of length-prefixed frames into chunks
pub fn split(mode: u32, body: &[u8]) -> Vec<Bytes> {
    if body.is_empty() {
        return vec![];
    }
    let mut cuts: Vec<usize> = Vec::new();
    let mode = if mode == 1 && body.len() > 4096 { 6 } else { mode };
    if mode == 1 {
        cuts.extend(1..body.len());
    } else if mode >= 2 {
        let mut i = 0usize;
        while i + 5 <= body.len() {
            let len = u32::from_be_bytes([body[i + 1], body[i + 2], body[i + 3], body[i + 4]]) as usize;
            if mode == 2 || mode == 6 {
                cuts.push(i + 1);
            }
            if mode == 3 || mode == 6 {
                cuts.push(i + 5);
            }
            if mode == 4 || mode == 6 {
                cuts.push(i + 5 + len / 2);
            }
            if mode == 5 {
                cuts.push(i + 3);
            }
            i = i.saturating_add(5).saturating_add(len);
        }
    }
    cuts.retain(|c| *c > 0 && *c < body.len());
    cuts.sort_unstable();
    cuts.dedup();
    let mut out = Vec::new();
    let mut at = 0;
    for c in cuts {
        out.push(Bytes::copy_from_slice(&body[at..c]));
        at = c;
    }
    out.push(Bytes::copy_from_slice(&body[at..]));
    out
}

/// a request body delivered in the given chunks, optionally followed by trailers; honest hints
pub struct ChunkBody {
    pub chunks: VecDeque<Bytes>,
    pub trailers: Option<http::HeaderMap>,
}

impl http_body::Body for ChunkBody {
    type Data = Bytes;
    type Error = Status;
    fn poll_frame(mut self: Pin<&mut Self>, _: &mut Context<'_>) -> Poll<Option<Result<http_body::Frame<Bytes>, Status>>> {
        if let Some(c) = self.chunks.pop_front() {
            return Poll::Ready(Some(Ok(http_body::Frame::data(c))));
        }
        if let Some(t) = self.trailers.take() {
            return Poll::Ready(Some(Ok(http_body::Frame::trailers(t))));
        }
        Poll::Ready(None)
    }
    fn is_end_stream(&self) -> bool {
        self.chunks.is_empty() && self.trailers.is_none()
    }
    fn size_hint(&self) -> http_body::SizeHint {
        let n: usize = self.chunks.iter().map(|c| c.len()).sum();
        http_body::SizeHint::with_exact(n as u64)
    }
}

/// a message stream over a fixed list; with `pend` it returns `Pending` (and wakes itself) once
/// before every item and before its end
pub struct Items<T> {
    items: VecDeque<T>,
    pend: bool,
    armed: bool,
}

impl<T> Unpin for Items<T> {}

pub fn items<T>(v: Vec<T>) -> Items<T> {
    Items { items: v.into(), pend: knobs().pd != 0, armed: false }
}

impl<T> tokio_stream::Stream for Items<T> {
    type Item = T;
    fn poll_next(mut self: Pin<&mut Self>, cx: &mut Context<'_>) -> Poll<Option<T>> {
        if self.pend && !self.armed {
            self.armed = true;
            cx.waker().wake_by_ref();
            return Poll::Pending;
        }
        self.armed = false;
        Poll::Ready(self.items.pop_front())
    }
    fn size_hint(&self) -> (usize, Option<usize>) {
        (self.items.len(), Some(self.items.len()))
    }
}

pub fn origin() -> Option<http::Uri> {
    match knobs().og {
        1 => Some(http::Uri::from_static("http://h")),
        2 => Some(http::Uri::from_static("http://h/prefix")),
        3 => Some(http::Uri::from_static("http://h/?q=1")),
        _ => None,
    }
}

/// a fresh client over `t`, constructed the way the `og` knob says
pub fn new_client<T>(t: T) -> tonic::client::Grpc<T> {
    match origin() {
        Some(u) => tonic::client::Grpc::with_origin(t, u),
        None => tonic::client::Grpc::new(t),
    }
}

/// the `ms` knob on a client; `before` = the call site precedes the compression calls
pub fn client_limits<T>(g: tonic::client::Grpc<T>, before: bool) -> tonic::client::Grpc<T> {
    match (knobs().ms, before) {
        (1, false) | (2, true) => g.max_decoding_message_size(LIMIT).max_encoding_message_size(LIMIT),
        (3, false) => g.max_decoding_message_size(LIMIT),
        (4, false) => g.max_encoding_message_size(LIMIT),
        _ => g,
    }
}

/// the `ms` knob on a server
pub fn server_limits<C: tonic::codec::Codec>(g: tonic::server::Grpc<C>, before: bool) -> tonic::server::Grpc<C> {
    match (knobs().ms, before) {
        (1, false) | (2, true) => g.max_decoding_message_size(LIMIT).max_encoding_message_size(LIMIT),
        (3, false) => g.apply_max_message_size_config(Some(LIMIT), Some(LIMIT)),
        (4, false) => g.apply_max_message_size_config(None, None),
        _ => g,
    }
}

// ---------------------------------------------------------------- generation

use super::{cli_line, cli_random, srv_random, SrvCase, SHAPES};
use crate::common::{hex, Rng};

fn knob_tok(parts: &[(&str, u32)]) -> String {
    let v: Vec<String> = parts.iter().filter(|(_, v)| *v != 0).map(|(n, v)| format!("{n}:{v}")).collect();
    format!("x.{}", v.join(","))
}

/// a message of `n` bytes that starts with 0x00 (no compressor's magic number) and is only mildly
/// compressible
pub fn big_message(n: usize, rng: &mut Rng) -> Vec<u8> {
    let mut m = vec![0u8; n];
    for (i, b) in m.iter_mut().enumerate().skip(1) {
        *b = if i % 4 == 0 { rng.next() as u8 } else { b'a' + (i % 23) as u8 };
    }
    m
}

fn srv_bases() -> Vec<SrvCase> {
    let mut v = Vec::new();
    // compressed request (two messages), compressible response
    let mut c = SrvCase::plain("u", "g", "g");
    c.enc = vec![b"gzip".to_vec()];
    c.accv = vec![b"gzip".to_vec()];
    c.frames = vec![(1, 'g', b"\0first first first".to_vec()), (1, 'g', b"\0second second".to_vec())];
    c.n = 2;
    v.push(c);
    // a flagged message without a negotiated encoding, after a good one
    let mut c = SrvCase::plain("u", "gdz", "g");
    c.accv = vec![b"gzip".to_vec()];
    c.frames = vec![(0, 'r', b"\0first".to_vec()), (1, 'g', b"\0second second".to_vec())];
    v.push(c);
    // a flagged first message without a negotiated encoding
    let mut c = SrvCase::plain("u", "gdz", "g");
    c.enc = vec![b"identity".to_vec()];
    c.frames = vec![(1, 'z', b"\0only only only".to_vec())];
    v.push(c);
    // an encoding the server does not accept
    let mut c = SrvCase::plain("u", "g", "gdz");
    c.enc = vec![b"zstd".to_vec()];
    c.accv = vec![b"zstd".to_vec()];
    c.frames = vec![(1, 'z', b"\0first first first".to_vec())];
    v.push(c);
    // nothing offered, everything configured
    let mut c = SrvCase::plain("u", "-", "gdz");
    c.n = 2;
    v.push(c);
    // an offer the server can only partly serve, three response messages, mixed request
    let mut c = SrvCase::plain("u", "d", "zd");
    c.enc = vec![b"deflate".to_vec()];
    c.accv = vec![b"gzip , deflate, zstd".to_vec()];
    c.frames = vec![(0, 'r', b"\0plain".to_vec()), (1, 'd', b"\0packed packed packed".to_vec())];
    c.n = 3;
    v.push(c);
    v
}

fn cli_bases(shape: &str) -> Vec<String> {
    let mut v = Vec::new();
    // compressed both ways
    let fr = vec![(1u8, 'g', b"\0resp resp resp".to_vec()), (1u8, 'g', b"\0more more".to_vec())];
    v.push(cli_line(shape, "g", "gz", &[], &[], 2, b"\0request request request", &[b"gzip".to_vec()], None, &fr, Some(0)));
    // a flagged message without a negotiated encoding, after a good one
    let fr = vec![(0u8, 'r', b"\0a".to_vec()), (1u8, 'g', b"\0bb bb bb".to_vec())];
    v.push(cli_line(shape, "d", "gdz", &[], &[], 1, b"\0q", &[], None, &fr, Some(0)));
    // an encoding the client does not accept
    let fr = vec![(1u8, 'd', b"\0resp resp resp".to_vec())];
    v.push(cli_line(shape, "-", "g", &[], &[], 1, b"\0q", &[b"deflate".to_vec()], None, &fr, Some(0)));
    v.push(cli_line(shape, "g", "g", &[], &[], 1, b"\0q", &[b"deflate".to_vec()], Some(0), &[], None));
    // sends zstd, accepts nothing, plain answer; and a peer error
    let fr = vec![(0u8, 'r', b"\0resp".to_vec())];
    v.push(cli_line(shape, "z", "-", &[], &[], 3, b"\0request request request", &[], None, &fr, Some(0)));
    v.push(cli_line(shape, "gz", "dg", &[], &[], 1, b"\0request", &[b"identity".to_vec()], None, &fr, Some(7)));
    v
}

fn random_knobs(rng: &mut Rng, side: u8) -> String {
    // side: 0 server, 1 client, 2 pair, 3 gen
    let mut parts: Vec<(&str, u32)> = Vec::new();
    let n = rng.range(1, 4);
    for _ in 0..n {
        let (name, v): (&str, u32) = match (side, rng.below(9)) {
            (_, 0) => ("ms", rng.range(1, 5) as u32),
            (0 | 1 | 2, 1) => ("bs", rng.range(1, 6) as u32),
            (0 | 1, 2) => ("cut", rng.range(1, 7) as u32),
            (0, 3) => ("xh", rng.range(1, 64) as u32),
            (1, 3) => ("xh", *rng.pick(&[1u32, 2, 8, 32, 3, 9, 34, 43])),
            (_, 4) => ("pd", 1),
            (1 | 2, 5) => ("og", rng.range(1, 4) as u32),
            (1, 6) => ("cl", rng.range(1, 3) as u32),
            (0, 7) => ("wr", rng.range(1, 4) as u32),
            (0, 8) => ("web", rng.range(1, 3) as u32),
            (1, 7) => ("wr", rng.range(1, 5) as u32),
            (3, _) => ("ic", rng.range(1, 3) as u32),
            _ => ("ms", rng.range(1, 5) as u32),
        };
        if !parts.iter().any(|(n, _)| *n == name) {
            parts.push((name, v));
        }
    }
    knob_tok(&parts)
}

pub fn generate(tier: &str, rng: &mut Rng, out: &mut Vec<String>) {
    let thorough = tier == "thorough";

    // ---- every knob value on its own × the informative base cases × shapes (× routes)
    let srv_knobs: Vec<(&str, u32)> = [("ms", 1..=4), ("bs", 1..=5), ("cut", 1..=6), ("pd", 1..=1), ("wr", 1..=3), ("web", 1..=2)]
        .into_iter()
        .flat_map(|(n, r)| r.map(move |v| (n, v)))
        .chain([1u32, 2, 4, 8, 16, 32, 63].into_iter().map(|v| ("xh", v)))
        .collect();
    for (name, v) in &srv_knobs {
        for base in srv_bases() {
            for shape in SHAPES {
                for route in ["d", "c"] {
                    let mut c = base.clone();
                    c.shape = shape;
                    c.route = route;
                    out.push(format!("{} {}", knob_tok(&[(name, *v)]), c.line()));
                }
            }
        }
    }
    let cli_knobs: Vec<(&str, u32)> = [("ms", 1..=4), ("bs", 1..=5), ("cut", 1..=6), ("pd", 1..=1), ("og", 1..=3), ("cl", 1..=2), ("wr", 1..=4)]
        .into_iter()
        .flat_map(|(n, r)| r.map(move |v| (n, v)))
        .chain([1u32, 2, 8, 32, 43].into_iter().map(|v| ("xh", v)))
        .collect();
    for (name, v) in &cli_knobs {
        for shape in ["u", "ss", "cs", "bi", "U", "BI", "wu", "Wbi"] {
            for line in cli_bases(shape) {
                out.push(format!("{} {}", knob_tok(&[(name, *v)]), line));
            }
        }
    }
    // generated client / server behind interceptors, with limits, with pending request streams
    for j in [0usize, 3, 4, 5] {
        for (csnd, cacc, sacc, ssnd) in [("g", "g", "g", "g"), ("z", "dz", "gz", "zd"), ("d", "-", "-", "g"), ("-", "gdz", "d", "zg"), ("g", "zd", "gdz", "-")] {
            for kt in ["x.ic:1", "x.ic:2", "x.ic:1,ms:1", "x.ms:1", "x.pd:1", "x.bs:1"] {
                out.push(format!("{} gen.{} {} {} {} {} {}", kt, j, csnd, cacc, sacc, ssnd, (j + cacc.len()) % 4));
            }
        }
    }

    // ---- tonic's own stacks around the generated code (see `run_stk`)
    for j in [0usize, 3, 4, 5] {
        for (csnd, cacc, sacc, ssnd) in
            [("g", "g", "g", "g"), ("z", "dz", "gz", "zd"), ("d", "-", "-", "g"), ("-", "gdz", "d", "zg"), ("g", "zd", "gdz", "-"), ("-", "-", "gdz", "gdz"), ("d", "zg", "d", "g"), ("z", "g", "zd", "dz")]
        {
            for opts in [0u32, 1, 2, 4, 8, 16, 32, 63] {
                out.push(format!("stk.{} {} {} {} {} {} {}", j, csnd, cacc, sacc, ssnd, (j + cacc.len()) % 4, opts));
            }
        }
    }
    let nstk = if thorough { 6000 } else { 150 };
    for _ in 0..nstk {
        let sub = super::ordered_subsets();
        let csnd = rng.pick(&["-", "g", "d", "z", "gz"]).to_string();
        out.push(format!(
            "stk.{} {} {} {} {} {} {}",
            rng.pick(&[0usize, 3, 4, 5]),
            csnd,
            rng.pick(&sub),
            rng.pick(&sub),
            rng.pick(&sub),
            rng.below(4),
            rng.below(64)
        ));
    }

    // ---- LARGE messages (plain cases and with odd buffer settings): around the codec buffer size
    // (8 KiB), around the encoder's yield threshold (32 KiB), beyond 64 KiB
    let sizes: &[usize] = if thorough { &[1024, 4096, 8187, 8192, 8193, 32763, 32768, 40000, 70000] } else { &[1024, 8193, 40000] };
    let mut rot = 0usize;
    for &sz in sizes {
        for e in ['g', 'd', 'z'] {
            let name: &str = match e {
                'g' => "gzip",
                'd' => "deflate",
                _ => "zstd",
            };
            let big = big_message(sz, rng);
            for (prefix, dis) in [("", false), ("", true), ("x.bs:1 ", false), ("x.bs:3 ", false), ("x.cut:6 ", false)] {
                if sz > 10000 && prefix == "x.bs:1 " {
                    continue;
                }
                // server: large compressed request, large response compressed with the chosen encoding
                let mut c = SrvCase::plain(SHAPES[rot % 4], "gdz", &e.to_string());
                rot += 1;
                c.enc = vec![name.as_bytes().to_vec()];
                c.accv = vec![format!("identity, {name}").into_bytes()];
                c.frames = vec![(1, e, big.clone())];
                c.rmsg = big.clone();
                c.n = 2;
                c.dis = dis;
                out.push(format!("{}{}", prefix, c.line()));
                // … and a large identity request under a negotiated encoding
                c.frames = vec![(0, 'r', big.clone()), (1, e, b"\0small".to_vec())];
                c.shape = if rot % 2 == 0 { "cs" } else { "bi" };
                out.push(format!("{}{}", prefix, c.line()));
                // client: large request compressed as configured, large compressed response
                let fr = vec![(1u8, e, big.clone()), (0u8, 'r', big.clone())];
                let shape = ["bi", "ss", "BI", "u"][rot % 4];
                out.push(format!("{}{}", prefix, cli_line(shape, &e.to_string(), "gdz", &[], &[], 2, &big, &[name.as_bytes().to_vec()], None, &fr, Some(0))));
                out.push(format!("{}{}", prefix, cli_line(shape, "-", &e.to_string(), &[], &[], 1, &big, &[], None, &fr[1..], Some(0))));
            }
            // a real client against a real server
            out.push(format!(
                "pair.{} {} {} {} {} {} K 2 H reply 2 0 Q {} R {}",
                SHAPES[rot % 4],
                ["d", "c"][rot % 2],
                e,
                "gdz",
                "zdg",
                e,
                hex(&big),
                hex(&big)
            ));
        }
    }

    // ---- the response's HTTP status as a dimension of the client cases: every status of the
    // list × response encodings (acceptable, not enabled, unknown) × status placement × shapes
    let statuses: &[u32] = &[200, 204, 302, 400, 401, 403, 404, 415, 429, 500, 502, 503, 504];
    let mut rot = 0usize;
    for &st in statuses {
        for (acc, ev) in [("g", "deflate"), ("-", "gzip"), ("gz", "br"), ("g", "gzip"), ("dz", "identity"), ("z", ""), ("-", "")] {
            for (hs, ts) in [(None, None), (None, Some(0)), (None, Some(9)), (Some(0), None), (Some(5), None), (None, Some(12))] {
                let shapes = ["u", "ss", "cs", "bi", "U", "wbi"];
                let shape = shapes[rot % shapes.len()];
                rot += 1;
                let enc: Vec<Vec<u8>> = if ev.is_empty() { vec![] } else { vec![ev.as_bytes().to_vec()] };
                let fr = match rot % 3 {
                    0 => vec![],
                    1 => vec![(0u8, 'r', b"\0resp".to_vec())],
                    _ => vec![(1u8, if ev == "gzip" { 'g' } else { 'r' }, b"\0resp resp resp".to_vec())],
                };
                let line = cli_line(shape, ["-", "g", "z"][rot % 3], acc, &[], &[], 1, b"\0q", &enc, hs, &fr, ts);
                out.push(format!("clih.{}", line.strip_prefix("cli.").unwrap().replacen(' ', &format!(" {st} "), 1)));
            }
        }
    }
    let nh = if thorough { 20000 } else { 1500 };
    let mut made = 0;
    while made < nh {
        let line = cli_random(rng);
        if !line.contains(" UE 0 UA 0 ") {
            continue;
        }
        made += 1;
        let st = if rng.chance(1, 6) { rng.range(100, 600) as u32 } else { *rng.pick(statuses) };
        let inner = format!("clih.{}", line.strip_prefix("cli.").unwrap().replacen(' ', &format!(" {st} "), 1));
        if rng.chance(1, 4) {
            out.push(format!("{} {}", random_knobs(rng, 1), inner));
        } else {
            out.push(inner);
        }
    }

    // ---- random inner cases under random knob combinations
    let (ns, nc, np) = if thorough { (40000, 30000, 12000) } else { (2500, 2000, 800) };
    for _ in 0..ns {
        let mut c = srv_random(rng);
        c.md = vec![];
        out.push(format!("{} {}", random_knobs(rng, 0), c.line()));
    }
    let mut made = 0;
    while made < nc {
        let line = cli_random(rng);
        if !line.contains(" UE 0 UA 0 ") {
            continue;
        }
        made += 1;
        out.push(format!("{} {}", random_knobs(rng, 1), line));
    }
    let routes = ["d", "c", "D", "C"];
    for _ in 0..np {
        let route = *rng.pick(&routes);
        let pops = route.eq_ignore_ascii_case("c");
        let csnd: String = match rng.below(4) {
            0 => "-".into(),
            _ => rng.pick(&['g', 'd', 'z']).to_string(),
        };
        let handler = match rng.below(10) {
            0 => format!("fail {} 0", rng.range(1, 16)),
            1 | 2 => format!("reply {} 1", rng.below(4)),
            _ => format!("reply {} 0", rng.below(4)),
        };
        let shape = if rng.chance(1, 5) { *rng.pick(&["U", "SS", "CS", "BI"]) } else { *rng.pick(&SHAPES) };
        out.push(format!(
            "{} pair.{} {} {} {} {} {} K {} H {} Q {} R {}",
            random_knobs(rng, 2),
            shape,
            route,
            csnd,
            super::calls(rng, false),
            super::calls(rng, pops),
            super::calls(rng, pops),
            rng.below(4),
            handler,
            hex(&super::message(rng)),
            hex(&super::message(rng))
        ));
    }
}

// ---------------------------------------------------------------- tonic's own stacks
//
//   stk.<j> <cli snd calls> <cli acc calls> <srv acc calls> <srv snd calls> <n> <opts>
// The `gen.` experiment with tonic's own stacks on both sides: the generated client sits on a real
// `transport::Channel` (hyper / h2 over an in-memory pipe; Endpoint middleware per `opts`), the
// generated server is hosted by `transport::Server` (its Routes and middleware stack per `opts`),
// and the recording service is a tower layer of that server.  Observation and expectation are
// those of `gen.`: none of these layers may add, drop or rewrite the negotiation headers or touch
// the frames.
//   opts (bit mask): 1 `Server::timeout`   2 `concurrency_limit_per_connection`
//                    4 Endpoint `timeout` + `user_agent` + `origin`   8 Endpoint `concurrency_limit`
//                    16 the service is added through `Routes` (`add_routes`)
//                    32 pass-through interceptors on both sides

struct Pipe(tokio::io::DuplexStream);
impl tonic::transport::server::Connected for Pipe {
    type ConnectInfo = ();
    fn connect_info(&self) {}
}
impl tokio::io::AsyncRead for Pipe {
    fn poll_read(mut self: Pin<&mut Self>, cx: &mut Context<'_>, buf: &mut tokio::io::ReadBuf<'_>) -> Poll<std::io::Result<()>> {
        Pin::new(&mut self.0).poll_read(cx, buf)
    }
}
impl tokio::io::AsyncWrite for Pipe {
    fn poll_write(mut self: Pin<&mut Self>, cx: &mut Context<'_>, buf: &[u8]) -> Poll<std::io::Result<usize>> {
        Pin::new(&mut self.0).poll_write(cx, buf)
    }
    fn poll_flush(mut self: Pin<&mut Self>, cx: &mut Context<'_>) -> Poll<std::io::Result<()>> {
        Pin::new(&mut self.0).poll_flush(cx)
    }
    fn poll_shutdown(mut self: Pin<&mut Self>, cx: &mut Context<'_>) -> Poll<std::io::Result<()>> {
        Pin::new(&mut self.0).poll_shutdown(cx)
    }
}

pub fn run_stk(j: &str, c: &mut super::Cur<'_>) -> Option<String> {
    use super::{enc_of, GenWire, RecTransport, RT};
    use crate::c10::pool::{self, Handler};
    use std::sync::{Arc, Mutex};
    use std::time::Duration;
    use tonic::Request;
    let j: usize = j.parse().ok()?;
    let csnd = c.next()?.to_string();
    let cacc = c.next()?.to_string();
    let sacc = c.next()?;
    let ssnd = c.next()?;
    let n = c.num()?;
    let opts = c.num()? as u32;
    let mut srv = pool::p0::s_server::SServer::new(Handler::default());
    for ch in sacc.chars().filter(|c| *c != '-') {
        srv = srv.accept_compressed(enc_of(ch)?);
    }
    for ch in ssnd.chars().filter(|c| *c != '-') {
        srv = srv.send_compressed(enc_of(ch)?);
    }
    for ch in csnd.chars().chain(cacc.chars()).filter(|c| *c != '-') {
        enc_of(ch)?;
    }
    let wire = Arc::new(Mutex::new(GenWire::default()));
    let arg = "x".repeat(n);
    fn pass(r: Request<()>) -> Result<Request<()>, Status> {
        Ok(r)
    }
    let out = RT.with(|rt| {
        rt.block_on(async {
            let (cio, sio) = tokio::io::duplex(1 << 16);
            let w2 = wire.clone();
            let mut builder = tonic::transport::Server::builder();
            if opts & 1 != 0 {
                builder = builder.timeout(Duration::from_secs(60));
            }
            if opts & 2 != 0 {
                builder = builder.concurrency_limit_per_connection(4);
            }
            let mut builder = builder.layer(tower::layer::layer_fn(move |s| RecTransport { inner: s, wire: w2.clone() }));
            let router = match (opts & 16 != 0, opts & 32 != 0) {
                (false, false) => builder.add_service(srv),
                (false, true) => builder.add_service(tonic::service::interceptor::InterceptedService::new(srv, pass as fn(Request<()>) -> Result<Request<()>, Status>)),
                (true, false) => builder.add_routes(tonic::service::Routes::new(srv)),
                (true, true) => builder.add_routes(tonic::service::Routes::new(tonic::service::interceptor::InterceptedService::new(srv, pass as fn(Request<()>) -> Result<Request<()>, Status>))),
            };
            let incoming = {
                use tokio_stream::StreamExt;
                tokio_stream::iter(vec![Ok::<_, std::io::Error>(Pipe(sio))]).chain(tokio_stream::pending())
            };
            let (stop_tx, stop_rx) = tokio::sync::oneshot::channel::<()>();
            let server = tokio::spawn(async move {
                let _ = router
                    .serve_with_incoming_shutdown(incoming, async move {
                        let _ = stop_rx.await;
                    })
                    .await;
            });
            let mut ep = tonic::transport::Endpoint::from_static("http://[::]:50051");
            if opts & 4 != 0 {
                ep = ep.timeout(Duration::from_secs(60)).user_agent("aC05").unwrap().origin(http::Uri::from_static("http://origin.test"));
            }
            if opts & 8 != 0 {
                ep = ep.concurrency_limit(2);
            }
            let mut cio = Some(cio);
            let channel = match ep
                .connect_with_connector(tower::service_fn(move |_: http::Uri| {
                    let c = cio.take();
                    async move { c.map(hyper_util::rt::TokioIo::new).ok_or_else(|| std::io::Error::other("used")) }
                }))
                .await
            {
                Ok(ch) => ch,
                Err(_) => return "connect-failed".to_string(),
            };
            macro_rules! drive {
                ($cli:expr) => {{
                    let mut cli = $cli;
                    for ch in csnd.chars().filter(|c| *c != '-') {
                        cli = cli.send_compressed(enc_of(ch).unwrap());
                    }
                    for ch in cacc.chars().filter(|c| *c != '-') {
                        cli = cli.accept_compressed(enc_of(ch).unwrap());
                    }
                    let fut = async {
                        let r: Result<usize, Status> = match j {
                            0 => cli.m0(Request::new(arg.clone())).await.map(|_| 1),
                            3 => match cli.m3(Request::new(arg.clone())).await {
                                Ok(s) => pool::drain(s.into_inner()).await.map(|v| v.len()),
                                Err(e) => Err(e),
                            },
                            4 => cli.m4(Request::new(items(vec![arg.clone(), arg.clone()]))).await.map(|_| 1),
                            _ => match cli.m5(Request::new(items(vec![arg.clone(), arg.clone()]))).await {
                                Ok(s) => pool::drain(s.into_inner()).await.map(|v| v.len()),
                                Err(e) => Err(e),
                            },
                        };
                        match r {
                            Ok(_) => "ok".to_string(),
                            Err(st) => format!("err{}", st.code() as i32),
                        }
                    };
                    match tokio::time::timeout(Duration::from_secs(20), fut).await {
                        Ok(o) => o,
                        Err(_) => "hang".to_string(),
                    }
                }};
            }
            let out = if opts & 32 != 0 {
                drive!(pool::p0::s_client::SClient::with_interceptor(channel, pass as fn(Request<()>) -> Result<Request<()>, Status>))
            } else {
                drive!(pool::p0::s_client::SClient::new(channel))
            };
            let _ = stop_tx.send(());
            let _ = tokio::time::timeout(Duration::from_secs(5), server).await;
            out
        })
    });
    let w = wire.lock().unwrap();
    Some(format!("qe={} qa={} qf={} re={} rf={} out={}", w.qe, w.qa, w.qf, w.re, w.rf, out))
}
