//! C01 — message streams survive encode/decode unchanged under any chunking.
//!
//! Case kinds: `enc` / `penc` / `dec` / `pdec` (framing.rs), and — proactive dimension audit aC01, see
//! the header of c01_x.rs — `xenc` (the encoder behind another part of the `EncodeBuf` API, behind
//! `tonic::body::Body`, built by `client::Grpc` / `server::Grpc`), `rdec` (the decoder double reading
//! its `DecodeBuf` through another part of the `Buf` API), `xdec` (valid streams through unusual body
//! implementations, `message()` / `trailers()` consumers and tonic's own layers), `rt` (the composition).
use crate::common::*;
use crate::framing::*;

#[path = "c01_x.rs"]
mod x;

pub fn generate(tier: &str, rng: &mut Rng) -> Vec<String> {
    let thorough = tier == "thorough";
    let mut out = Vec::new();
    // corpus: 3-message gzip stream cut inside the second prefix; empty messages; yield threshold edge
    out.push(
        EncCase { server: true, comp: Some(tonic::codec::CompressionEncoding::Gzip), disable: false, yield_thr: 0, buf_size: 8192, max: None,
                  evs: vec!["i010203".into(), "p".into(), "i".into(), "i09".into()], items: vec![vec![1, 2, 3], vec![], vec![9]], extra_polls: 1 }.line(),
    );
    out.push("dec req none none 8192 8 Z 0 EV d000000 d0003010203 p d00 d00000000 d000000000109".to_string());
    // rev1 §1 witnesses: BufferSettings::new(0, _) with any compression used to divide by zero in
    // `compress` / `decompress` (fixed: "a zero buffer_size no longer divides by zero when (de)compressing")
    for e in [tonic::codec::CompressionEncoding::Gzip, tonic::codec::CompressionEncoding::Deflate, tonic::codec::CompressionEncoding::Zstd] {
        for server in [true, false] {
            out.push(
                EncCase { server, comp: Some(e), disable: false, yield_thr: 32768, buf_size: 0, max: None,
                          evs: vec!["i010203".into()], items: vec![vec![1, 2, 3]], extra_polls: 1 }.line(),
            );
        }
        let stream = frame(1, &oracle_compress(e, &[10, 11, 12]));
        let evs = vec![format!("d{}", hexr(&stream))];
        out.push(DecCase { dir: "req".into(), enc: Some(e), max: None, buf_size: 0, evs, stream, extra_polls: 2 }.line());
    }
    out.push("enc s none i 32768 0 none 5 Z 0 EV i010203".to_string());
    out.push("dec req none none 0 6 Z 0 EV d0000000003010203".to_string());
    let n = if thorough { 30000 } else { 2500 };
    for _ in 0..n {
        out.push(gen_enc_case(rng, false, false).line());
    }
    for _ in 0..n {
        let mut c = gen_dec_valid(rng, false);
        // clean end: request direction, or 200 with OK/absent grpc-status
        if !(c.dir == "req" || c.dir == "resp200" || c.dir == "empty") {
            c.dir = "resp200".into();
        }
        if let Some(last) = c.evs.last_mut() {
            if last.starts_with('t') && last != "t0" && last != "tnone" {
                *last = "t0".into();
            }
        }
        if c.dir == "empty" {
            // Streaming::new_empty has no encoding: only identity frames make a valid stream
            c.dir = "req".into();
        }
        out.push(c.line());
    }
    // many tiny messages buffered at once (seed C07g)
    for _ in 0..(if thorough { 200 } else { 16 }) {
        out.push(gen_dec_many(rng, false).line());
    }
    // compressible messages, the limit between their compressed and uncompressed size (seed C01g)
    for i in 0..(if thorough { 300 } else { 12 }) {
        let e = [tonic::codec::CompressionEncoding::Gzip, tonic::codec::CompressionEncoding::Deflate, tonic::codec::CompressionEncoding::Zstd][i % 3];
        let mut c = gen_dec_compressible(rng, e, i < 3 && (thorough || i == 0));
        if c.max.is_some() {
            // C01 is about VALID streams: the limit admits every frame on the wire (and is still far below the
            // uncompressed size of the compressible messages)
            let mut b = &c.stream[..];
            let mut longest = 0usize;
            while b.len() >= 5 {
                let l = u32::from_be_bytes([b[1], b[2], b[3], b[4]]) as usize;
                longest = longest.max(l);
                b = &b[(5 + l).min(b.len())..];
            }
            c.max = Some(longest);
        }
        out.push(c.line());
    }
    // one frame above 64 KiB with more frames behind it in the same chunk (seed C07f)
    for _ in 0..(if thorough { 400 } else { 40 }) {
        out.push(gen_dec_big(rng, false).line());
    }
    // messages around and above the default yield threshold (32 KiB)
    for (i, len) in [32762usize, 32763, 32764, 40000, 70000].iter().enumerate() {
        let m: Vec<u8> = (0..*len).map(|k| (k % 251) as u8).collect();
        let small = vec![1u8, 2, 3];
        let comp = ENCS[i % 4];
        let c = EncCase { server: i % 2 == 0, comp, disable: false, yield_thr: 32 * 1024, buf_size: 8 * 1024, max: None,
                  evs: vec![format!("i{}", hexr(&small)), format!("i{}", hexr(&m)), "p".into(), format!("i{}", hexr(&small))],
                  items: vec![small.clone(), m.clone(), small.clone()], extra_polls: 1 };
        out.push(c.line());
        let mut bytes = frame(0, &small);
        let start2 = bytes.len();
        bytes.extend(frame(0, &m));
        let chunks = chunkings(rng, &bytes, &[0, start2], 3);
        let evs = events_from_chunks(rng, chunks, true);
        out.push(DecCase { dir: "req".into(), enc: None, max: None, buf_size: 8192, evs, stream: bytes, extra_polls: 1 }.line());
    }
    // rev1 S5: message lengths whose second / first length byte is non-zero (2^16±, 2^24±; an accepted
    // length with a non-zero top byte needs a decoding limit above 16 MiB), between two small messages
    // (every 16 MiB case costs the Lean driver a few seconds: quick has one on each side, thorough all)
    let m24: usize = 1 << 24;
    let (big_enc, big_dec): (Vec<usize>, Vec<usize>) = if thorough {
        (vec![65535, 65536, 65537, m24 - 1, m24, m24 + 1, m24 + 65536, 3 << 23], vec![65535, 65536, 65537, m24 - 1, m24, m24 + 1, m24 + 65536])
    } else {
        (vec![65535, 65536, m24 + 1], vec![65535, 65536, m24])
    };
    for (i, len) in big_enc.iter().enumerate() {
        let m = vec![7u8; *len];
        let small = vec![1u8, 2, 3];
        out.push(
            EncCase { server: i % 2 == 0, comp: None, disable: false, yield_thr: 32 * 1024, buf_size: *rng.pick(&BUF_SIZES), max: None,
                      evs: vec![format!("i{}", hexr(&small)), format!("i{}", hexr(&m)), "p".into(), format!("i{}", hexr(&small))],
                      items: vec![], extra_polls: 1 }.line(),
        );
    }
    for (i, len) in big_dec.iter().enumerate() {
        let m = vec![7u8; *len];
        let small = vec![1u8, 2, 3];
        let mut bytes = frame(0, &small);
        let start2 = bytes.len();
        bytes.extend(frame(0, &m));
        let start3 = bytes.len();
        bytes.extend(frame(0, &small));
        // (quick: a single cut inside the big payload — every further chunk makes the Lean model copy its buffer once more)
        let chunks = if thorough || *len < m24 {
            chunkings(rng, &bytes, &[0, start2, start3], 3)
        } else {
            let cut = start2 + 5 + rng.below(*len as u64) as usize;
            vec![bytes[..cut].to_vec(), bytes[cut..].to_vec()]
        };
        let evs = events_from_chunks(rng, chunks, true);
        out.push(DecCase { dir: if i % 2 == 0 { "req".into() } else { "resp200".into() }, enc: None, max: Some(1 << 25), buf_size: *rng.pick(&BUF_SIZES), evs, stream: bytes, extra_polls: 1 }.line());
    }
    // compressed messages of more than 64 KiB raw (the decompression buffer has to grow several times)
    let raw_sizes: Vec<usize> = if thorough { vec![65537, 70000, 100000, 200000, 1 << 20] } else { vec![70000] };
    for len in raw_sizes {
        for e in [tonic::codec::CompressionEncoding::Gzip, tonic::codec::CompressionEncoding::Deflate, tonic::codec::CompressionEncoding::Zstd] {
            let m: Vec<u8> = (0..len).map(|k| ((k * k / 7) % 251) as u8).collect();
            let small = vec![9u8];
            out.push(
                EncCase { server: len % 2 == 0, comp: Some(e), disable: false, yield_thr: 32 * 1024, buf_size: *rng.pick(&BUF_SIZES), max: None,
                          evs: vec![format!("i{}", hexr(&small)), format!("i{}", hexr(&m))],
                          items: vec![small.clone(), m.clone()], extra_polls: 1 }.line(),
            );
            let mut bytes = frame(1, &oracle_compress(e, &small));
            let start2 = bytes.len();
            bytes.extend(frame(1, &oracle_compress(e, &m)));
            let chunks = chunkings(rng, &bytes, &[0, start2], 3);
            let evs = events_from_chunks(rng, chunks, true);
            out.push(DecCase { dir: "req".into(), enc: Some(e), max: None, buf_size: *rng.pick(&BUF_SIZES), evs, stream: bytes, extra_polls: 1 }.line());
        }
    }
    // the same through the real ProstCodec (messages are serialized google.protobuf.Any values)
    for _ in 0..n / 3 {
        let mut c = gen_enc_case(rng, false, false);
        let mut items = Vec::new();
        for ev in c.evs.iter_mut() {
            if ev.starts_with('i') {
                let m = gen_any_msg(rng, 200);
                *ev = format!("i{}", hexr(&m));
                items.push(m);
            }
        }
        c.items = items;
        out.push(format!("p{}", c.line()));
    }
    for _ in 0..n / 3 {
        let enc = *rng.pick(&ENCS);
        let (bytes, starts, _) = gen_valid_stream_with(rng, enc, 200, true);
        let style = rng.below(4);
        let style = if bytes.len() > 600 && style == 1 { 3 } else { style };
        let chunks = chunkings(rng, &bytes, &starts, style);
        let mut evs = events_from_chunks(rng, chunks, true);
        if rng.chance(1, 2) {
            evs.push("t0".into());
        }
        let dir = if rng.chance(1, 2) { "req" } else { "resp200" };
        out.push(DecCase { dir: dir.into(), enc, max: None, buf_size: *rng.pick(&BUF_SIZES), evs, stream: bytes, extra_polls: 2 }.pline());
    }
    // valid protobuf no encoder would write (unknown fields of every wire type, groups, repeated and
    // reordered fields, non-minimal varints): decoded to the message prost itself reads from it
    for _ in 0..n / 6 {
        let enc = *rng.pick(&ENCS);
        let k = 1 + rng.below(3) as usize;
        let mut bytes = Vec::new();
        let mut starts = Vec::new();
        for _ in 0..k {
            let m = if rng.chance(2, 3) { gen_pb_unusual_valid(rng) } else { gen_any_msg(rng, 30) };
            starts.push(bytes.len());
            match enc {
                Some(e) if rng.chance(1, 2) => bytes.extend(frame(1, &oracle_compress(e, &m))),
                _ => bytes.extend(frame(0, &m)),
            }
        }
        let style = rng.below(4);
        let chunks = chunkings(rng, &bytes, &starts, style);
        let evs = events_from_chunks(rng, chunks, true);
        out.push(DecCase { dir: "req".into(), enc, max: None, buf_size: *rng.pick(&BUF_SIZES), evs, stream: bytes, extra_polls: 2 }.pline());
    }
    if thorough {
        // small-scope exhaustive: every chunking (all 2^(n-1) cut sets) of short streams
        for msgs in [vec![vec![]], vec![vec![7u8]], vec![vec![1u8, 2], vec![]], vec![vec![], vec![5u8, 6, 7]]] {
            let mut bytes = Vec::new();
            for m in &msgs {
                bytes.extend(frame(0, m));
            }
            let n = bytes.len();
            for mask in 0u32..(1 << (n - 1)) {
                let mut evs = Vec::new();
                let mut prev = 0;
                for i in 1..n {
                    if mask & (1 << (i - 1)) != 0 {
                        evs.push(format!("d{}", hexr(&bytes[prev..i])));
                        prev = i;
                    }
                }
                evs.push(format!("d{}", hexr(&bytes[prev..])));
                out.push(DecCase { dir: "req".into(), enc: None, max: None, buf_size: 16, evs, stream: bytes.clone(), extra_polls: 1 }.line());
            }
        }
    }
    // ---- dimensions added by the proactive audit (c01_x.rs)
    out.extend(x::generate(tier, rng));
    out
}

pub fn execute(case: &str) -> String {
    match case.split(' ').next() {
        Some("xenc") | Some("rdec") | Some("xdec") | Some("rt") => x::execute(case),
        _ => crate::framing::execute(case),
    }
}
