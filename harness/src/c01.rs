//! C01 — message streams survive encode/decode unchanged under any chunking.
use crate::common::*;
use crate::framing::*;

pub fn generate(tier: &str, rng: &mut Rng) -> Vec<String> {
    let thorough = tier == "thorough";
    let mut out = Vec::new();
    // corpus: 3-message gzip stream cut inside the second prefix; empty messages; yield threshold edge
    out.push(
        EncCase { server: true, comp: Some(tonic::codec::CompressionEncoding::Gzip), disable: false, yield_thr: 0, buf_size: 8192, max: None,
                  evs: vec!["i010203".into(), "p".into(), "i".into(), "i09".into()], items: vec![vec![1, 2, 3], vec![], vec![9]], extra_polls: 1 }.line(),
    );
    out.push("dec req none none 8192 8 Z 0 EV d000000 d0003010203 p d00 d00000000 d000000000109".to_string());
    let n = if thorough { 30000 } else { 2500 };
    for _ in 0..n {
        out.push(gen_enc_case(rng, false, false).line());
    }
    for _ in 0..n {
        let mut c = gen_dec_valid(rng, false);
        // clean end: request direction, or 200 with OK/absent grpc-status
        if !(c.dir == "req" || c.dir == "resp200" || c.dir == "empty") {
            c.dir = "resp200".into();
        }
        if let Some(last) = c.evs.last_mut() {
            if last.starts_with('t') && last != "t0" && last != "tnone" {
                *last = "t0".into();
            }
        }
        if c.dir == "empty" {
            // Streaming::new_empty has no encoding: only identity frames make a valid stream
            c.dir = "req".into();
        }
        out.push(c.line());
    }
    if thorough {
        // small-scope exhaustive: every chunking (all 2^(n-1) cut sets) of short streams
        for msgs in [vec![vec![]], vec![vec![7u8]], vec![vec![1u8, 2], vec![]], vec![vec![], vec![5u8, 6, 7]]] {
            let mut bytes = Vec::new();
            for m in &msgs {
                bytes.extend(frame(0, m));
            }
            let n = bytes.len();
            for mask in 0u32..(1 << (n - 1)) {
                let mut evs = Vec::new();
                let mut prev = 0;
                for i in 1..n {
                    if mask & (1 << (i - 1)) != 0 {
                        evs.push(format!("d{}", &hex(&bytes[prev..i])[1..]));
                        prev = i;
                    }
                }
                evs.push(format!("d{}", &hex(&bytes[prev..])[1..]));
                out.push(DecCase { dir: "req".into(), enc: None, max: None, buf_size: 16, evs, stream: bytes.clone(), extra_polls: 1 }.line());
            }
        }
    }
    out
}

pub fn execute(case: &str) -> String {
    crate::framing::execute(case)
}
