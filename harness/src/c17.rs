//! C17 — grpc-web client layer (`tonic_web::GrpcWebClientService`), driven through its public API
//! with a scripted inner HTTP service.
//!
//! Case kinds:
//!   cl <ev>*     the inner service answers with a body made of these events; observe the frames
//!                of the body the client layer returns and the polls of the inner body after it ended
//!   asis <ev>*   same execution; the Lean driver compares with the model of the UNPATCHED code
//!                (only generated with VERIF_C17_ASIS=1, to re-establish DESIGN §5.8 on the old tree)
//!   creq <ev>*   request wrapping: what the inner service receives for a gRPC request body
//!   st <u|s> <ev>*   tonic's real `client::Grpc` (unary / server-streaming, raw byte codec) over
//!                `GrpcWebClientService`; the inner service answers 200, no headers, body = events.
//!                Observed: what the CALLER gets —
//!                u: `ok <message> <metadata map>` | `err <status>`
//!                s: `msgs <n> <message>* end ok <trailers map|none>` | `msgs <n> <message>* end err <status>`
//!                status = `<code> <message> <details> <metadata map>` (c04 form); a status made by
//!                the layer itself (tonic-web's own INTERNAL texts) is printed as `layer`
//!   `cl` and `st` take an optional RESPONSE HEAD in front of the events:
//!                `rp <status> <h09|h10|h11|h2|h3> <n> (<name> <value>){n}` — the HTTP status, version and
//!                headers (content-type among them) of the response the inner service answers with;
//!                without it: 200, HTTP/1.1, no headers.  A `cl` case with a head is observed as
//!                `rp <status> <ver> <n> (name value)*` (the head the CALLER of the layer gets; headers
//!                stably sorted by name) followed by the frames.
//! events as in c16. Observed frames: `d <hex>` | `t <n> (name value)*` (sorted by name, value
//! order kept) | final `eos` / `err` / `busy`; then `ae <n>` = polls of the inner body after its end.
use crate::c16::{all_chunkings, big_payload, big_trailers, block_on, chunkings, frame, frames_bytes, gen_frames, gen_trailers, gen_trailers_valid, header_map, parse_evs, prefix_marks, render_evs, with_pendings, Ev, ScriptBody, BIG_SIZES};
use crate::common::*;
use bytes::Bytes;
use http::{HeaderMap, Request, Response, Version};
use http_body::Body;
use std::future::Future;
use std::panic::{catch_unwind, AssertUnwindSafe};
use std::pin::Pin;
use std::sync::{Arc, Mutex};
use std::task::{Context, Poll};
use tower_service::Service;

#[path = "c17_x.rs"]
mod x;

fn render_sorted(t: &HeaderMap, out: &mut Vec<String>) {
    let mut ps: Vec<(Vec<u8>, Vec<u8>)> = t.iter().map(|(k, v)| (k.as_str().as_bytes().to_vec(), v.as_bytes().to_vec())).collect();
    ps.sort_by(|a, b| a.0.cmp(&b.0)); // stable: per-name value order kept
    out.push("t".into());
    out.push(ps.len().to_string());
    for (k, v) in ps {
        out.push(hex(&k));
        out.push(hex(&v));
    }
}

/// Poll until `None` or the first error, recording every frame as it arrives (so that a
/// busy loop, which ends in a panic of the scripted body, still shows what came before).
async fn drain_into<B>(body: B, out: Arc<Mutex<Vec<String>>>)
where
    B: Body<Data = Bytes>,
{
    let mut body = Box::pin(body);
    loop {
        let fr = std::future::poll_fn(|cx| body.as_mut().poll_frame(cx)).await;
        let mut o = out.lock().unwrap();
        match fr {
            None => {
                o.push("eos".to_string());
                break;
            }
            Some(Err(_)) => {
                o.push("err".to_string());
                break;
            }
            Some(Ok(frame)) => match frame.into_data() {
                Ok(d) => {
                    o.push("d".into());
                    o.push(hex(&d));
                }
                Err(frame) => match frame.into_trailers() {
                    Ok(t) => render_sorted(&t, &mut o),
                    Err(_) => o.push("other".into()),
                },
            },
        }
        if o.len() > 100_000 {
            o.push("runaway".into());
            break;
        }
    }
}

/// inner HTTP service of the client: records the request, answers with the scripted body
struct InnerHttp {
    resp: Option<ScriptBody>,
    head: Option<RespHead>,
    seen: Arc<Mutex<Vec<String>>>,
}

/// status, version and headers of the scripted HTTP response
#[derive(Clone, Debug)]
pub struct RespHead {
    pub status: u16,
    pub version: Version,
    pub headers: Vec<(Vec<u8>, Vec<u8>)>,
}

fn ver_of(tok: &str) -> Option<Version> {
    Some(match tok {
        "h09" => Version::HTTP_09,
        "h10" => Version::HTTP_10,
        "h11" => Version::HTTP_11,
        "h2" => Version::HTTP_2,
        "h3" => Version::HTTP_3,
        _ => return None,
    })
}

fn ver_tok(v: Version) -> &'static str {
    match v {
        Version::HTTP_09 => "h09",
        Version::HTTP_10 => "h10",
        Version::HTTP_11 => "h11",
        Version::HTTP_2 => "h2",
        Version::HTTP_3 => "h3",
        _ => "h?",
    }
}

/// `rp <status> <ver> <n> (<name> <value>){n}` in front of the events; `Some((None, toks))` when
/// there is no head, `None` when it is malformed
fn parse_head<'a>(toks: &'a [&'a str]) -> Option<(Option<RespHead>, &'a [&'a str])> {
    match toks {
        ["rp", st, ver, n, rest @ ..] => {
            let status: u16 = st.parse().ok()?;
            http::StatusCode::from_u16(status).ok()?;
            let version = ver_of(ver)?;
            let n: usize = n.parse().ok()?;
            if rest.len() < 2 * n {
                return None;
            }
            let mut headers = Vec::new();
            for i in 0..n {
                headers.push((unhex(rest[2 * i])?, unhex(rest[2 * i + 1])?));
            }
            header_map(&headers)?;
            Some((Some(RespHead { status, version, headers }), &rest[2 * n..]))
        }
        ["rp", ..] => None,
        _ => Some((None, toks)),
    }
}

fn render_head(h: &RespHead) -> String {
    let mut out = vec!["rp".to_string(), h.status.to_string(), ver_tok(h.version).to_string(), h.headers.len().to_string()];
    for (k, v) in &h.headers {
        out.push(hex(k));
        out.push(hex(v));
    }
    out.join(" ")
}

impl<B> Service<Request<B>> for InnerHttp
where
    B: Body<Data = Bytes> + Send + 'static,
{
    type Response = Response<ScriptBody>;
    type Error = std::convert::Infallible;
    type Future = Pin<Box<dyn Future<Output = Result<Self::Response, Self::Error>> + Send>>;
    fn poll_ready(&mut self, _: &mut Context<'_>) -> Poll<Result<(), Self::Error>> {
        Poll::Ready(Ok(()))
    }
    fn call(&mut self, req: Request<B>) -> Self::Future {
        let resp = self.resp.take().expect("one call");
        let head = self.head.take();
        let seen = self.seen.clone();
        Box::pin(async move {
            let (parts, body) = req.into_parts();
            {
                let mut s = seen.lock().unwrap();
                s.push(format!("{:?}", parts.version).replace('/', "").replace('.', ""));
                s.push(match parts.headers.get("content-type") {
                    Some(v) => hex(v.as_bytes()),
                    None => "none".into(),
                });
            }
            drain_into(body, seen).await;
            let mut resp = Response::new(resp);
            if let Some(h) = head {
                *resp.status_mut() = http::StatusCode::from_u16(h.status).expect("checked");
                *resp.version_mut() = h.version;
                *resp.headers_mut() = header_map(&h.headers).expect("checked");
            }
            Ok(resp)
        })
    }
}

fn run_client(head: Option<RespHead>, resp_evs: Vec<Ev>, req_evs: Vec<Ev>) -> (Vec<String>, Vec<String>, usize, bool) {
    let with_head = head.is_some();
    let body = ScriptBody::new(resp_evs);
    let after_end = body.after_end.clone();
    let seen = Arc::new(Mutex::new(Vec::new()));
    let frames = Arc::new(Mutex::new(Vec::new()));
    let inner = InnerHttp { resp: Some(body), head, seen: seen.clone() };
    let mut svc = tonic_web::GrpcWebClientService::new(inner);
    let mut req = Request::new(ScriptBody::new(req_evs));
    *req.version_mut() = Version::HTTP_2;
    req.headers_mut().insert("content-type", http::HeaderValue::from_static("application/grpc"));
    let f2 = frames.clone();
    let r = catch_unwind(AssertUnwindSafe(move || {
        let res = block_on(svc.call(req)).expect("response future").unwrap();
        let (parts, body) = res.into_parts();
        if with_head {
            // the head as the caller of the layer gets it
            let mut o = f2.lock().unwrap();
            o.push("rp".into());
            o.push(parts.status.as_u16().to_string());
            o.push(ver_tok(parts.version).into());
            o.push(crate::c16::render_headers_sorted(&parts.headers));
        }
        block_on(drain_into(body, f2)).is_some()
    }));
    let panicked = r.is_err();
    let hung = matches!(r, Ok(false));
    let mut fr = frames.lock().unwrap().clone();
    let ae = *after_end.lock().unwrap();
    if panicked {
        fr.push(if ae > 1000 { "busy".into() } else { "panic".into() });
    } else if hung {
        fr.push("hang".into());
    }
    let s = seen.lock().unwrap().clone();
    (fr, s, ae.min(1001), panicked)
}

pub fn execute(case: &str) -> String {
    let t: Vec<&str> = case.split(' ').filter(|s| !s.is_empty()).collect();
    if let Some(s) = x::execute(&t) {
        return s;
    }
    match t.as_slice() {
        ["cl", evs @ ..] | ["asis", evs @ ..] => {
            let Some((head, evs)) = parse_head(evs) else { return "bad-case".into() };
            let Some(evs) = parse_evs(evs) else { return "bad-case".into() };
            let (fr, _, ae, _) = run_client(head, evs, vec![]);
            format!("{} ae {}", fr.join(" "), ae)
        }
        ["creq", evs @ ..] => {
            let Some(evs) = parse_evs(evs) else { return "bad-case".into() };
            let (_, seen, _, _) = run_client(None, vec![], evs);
            seen.join(" ")
        }
        ["st", kind @ ("u" | "s"), evs @ ..] => {
            let Some((head, evs)) = parse_head(evs) else { return "bad-case".into() };
            let Some(evs) = parse_evs(evs) else { return "bad-case".into() };
            run_status(kind, head, evs)
        }
        _ => "bad-case".into(),
    }
}

/// texts of the statuses `GrpcWebCall` makes itself (call.rs); they all are INTERNAL
const LAYER_TEXTS: [&str; 4] = ["tonic-web: ", "trailers ", "Unable to parse Header", "Invalid header bit "];

fn render_caller_status(st: &tonic::Status) -> String {
    if st.code() == tonic::Code::Internal && LAYER_TEXTS.iter().any(|p| st.message().starts_with(p)) {
        "layer".into()
    } else {
        crate::c04::render_status(st)
    }
}

/// bytes in, bytes out
#[derive(Clone, Default)]
struct RawCodec;
struct RawEnc;
struct RawDec;
impl tonic::codec::Encoder for RawEnc {
    type Item = Vec<u8>;
    type Error = tonic::Status;
    fn encode(&mut self, item: Vec<u8>, dst: &mut tonic::codec::EncodeBuf<'_>) -> Result<(), tonic::Status> {
        use bytes::BufMut;
        dst.put_slice(&item);
        Ok(())
    }
}
impl tonic::codec::Decoder for RawDec {
    type Item = Vec<u8>;
    type Error = tonic::Status;
    fn decode(&mut self, src: &mut tonic::codec::DecodeBuf<'_>) -> Result<Option<Vec<u8>>, tonic::Status> {
        use bytes::Buf;
        let n = src.remaining();
        Ok(Some(src.copy_to_bytes(n).to_vec()))
    }
}
impl tonic::codec::Codec for RawCodec {
    type Encode = Vec<u8>;
    type Decode = Vec<u8>;
    type Encoder = RawEnc;
    type Decoder = RawDec;
    fn encoder(&mut self) -> RawEnc {
        RawEnc
    }
    fn decoder(&mut self) -> RawDec {
        RawDec
    }
}

/// The caller's view: `tonic::client::Grpc` over the client layer over a scripted HTTP service.
fn run_status(kind: &str, head: Option<RespHead>, resp_evs: Vec<Ev>) -> String {
    let body = ScriptBody::new(resp_evs);
    let seen = Arc::new(Mutex::new(Vec::new()));
    let inner = InnerHttp { resp: Some(body), head, seen };
    let svc = tonic_web::GrpcWebClientService::new(inner);
    let mut grpc = tonic::client::Grpc::with_origin(svc, http::Uri::from_static("http://verif.test"));
    let path = http::uri::PathAndQuery::from_static("/verif.Svc/Call");
    let unary = kind == "u";
    let r = catch_unwind(AssertUnwindSafe(move || {
        block_on(async move {
            let _ = grpc.ready().await;
            if unary {
                match grpc.unary(tonic::Request::new(vec![1u8, 2, 3]), path, RawCodec).await {
                    Ok(resp) => format!("ok {} {}", hex(resp.get_ref()), crate::c04::render_map(&resp.metadata().clone().into_headers())),
                    Err(st) => format!("err {}", render_caller_status(&st)),
                }
            } else {
                match grpc.server_streaming(tonic::Request::new(vec![1u8, 2, 3]), path, RawCodec).await {
                    Err(st) => format!("msgs 0 end err {}", render_caller_status(&st)),
                    Ok(resp) => {
                        let mut s = resp.into_inner();
                        let mut msgs: Vec<String> = Vec::new();
                        loop {
                            match s.message().await {
                                Ok(Some(m)) => msgs.push(hex(&m)),
                                Ok(None) => {
                                    let tr = match s.trailers().await {
                                        Ok(Some(t)) => crate::c04::render_map(&t.into_headers()),
                                        Ok(None) => "none".into(),
                                        Err(st) => format!("trailers-err {}", render_caller_status(&st)),
                                    };
                                    break format!("msgs {} {} end ok {}", msgs.len(), msgs.join(" "), tr);
                                }
                                Err(st) => break format!("msgs {} {} end err {}", msgs.len(), msgs.join(" "), render_caller_status(&st)),
                            }
                            if msgs.len() > 10_000 {
                                break "runaway".into();
                            }
                        }
                    }
                }
            }
        })
    }));
    match r {
        Ok(Some(s)) => s.split(' ').filter(|t| !t.is_empty()).collect::<Vec<_>>().join(" "),
        Ok(None) => "hang".into(),
        Err(_) => "panic".into(),
    }
}

// ---------------------------------------------------------------------------------------------

fn trailers_frame(block: &[u8]) -> Vec<u8> {
    frame(0x80, block)
}

fn block_of(tr: &[(Vec<u8>, Vec<u8>)], sep: &[u8]) -> Vec<u8> {
    let mut b = Vec::new();
    for (k, v) in tr {
        b.extend_from_slice(k);
        b.extend_from_slice(sep);
        b.extend_from_slice(v);
        b.extend_from_slice(b"\r\n");
    }
    b
}

/// trailers a gRPC server ends a call with: a status (codes 0..16, unknown and malformed ones),
/// optionally a message (with ':', percent-escapes — valid, truncated, giving invalid UTF-8),
/// optionally details (base64, padded / unpadded / invalid), custom metadata with repeated names
fn gen_status_trailers(rng: &mut Rng) -> Vec<(Vec<u8>, Vec<u8>)> {
    const CODES: [&[u8]; 12] = [b"0", b"0", b"1", b"2", b"5", b"13", b"14", b"16", b"17", b"99", b"", b"013"];
    const MSGS: [&[u8]; 12] = [b"plain", b"a:b", b"not%20found: a%3Ab", b"100%", b"%zz", b"caf%C3%A9", b"%ff%fe", b"with space", b"", b"x:y:z:", b"%E2%98%83 snow", b"tail%2"];
    const DETS: [&[u8]; 6] = [b"AQID", b"AQI=", b"AQ", b"!!!!", b"", b"CgVoZWxsbw"];
    let mut tr: Vec<(Vec<u8>, Vec<u8>)> = Vec::new();
    if rng.chance(9, 10) {
        tr.push((b"grpc-status".to_vec(), rng.pick(&CODES).to_vec()));
    }
    if rng.chance(1, 2) {
        tr.push((b"grpc-message".to_vec(), rng.pick(&MSGS).to_vec()));
    }
    if rng.chance(1, 3) {
        tr.push((b"grpc-status-details-bin".to_vec(), rng.pick(&DETS).to_vec()));
    }
    for _ in 0..rng.below(4) {
        let k = *rng.pick(&["x-a", "x-a", "x-b", "x-trace-bin", "content-type", "grpc-encoding"]);
        let v: &[u8] = *rng.pick(&[&b"1"[..], b"2", b"AAEC", b"a:b", b"v w", b""]);
        tr.push((k.as_bytes().to_vec(), v.to_vec()));
    }
    if rng.chance(1, 12) {
        tr.push((b"grpc-status".to_vec(), b"7".to_vec())); // a second status value: the first one counts
    }
    // any order
    for i in (1..tr.len()).rev() {
        let j = rng.below(i as u64 + 1) as usize;
        tr.swap(i, j);
    }
    tr
}

fn case_of(kind: &str, evs: &[Ev]) -> String {
    let e = render_evs(evs);
    if e.is_empty() {
        kind.to_string()
    } else {
        format!("{} {}", kind, e)
    }
}

fn data_evs(chunks: &[Vec<u8>]) -> Vec<Ev> {
    chunks.iter().map(|c| Ev::Data(c.clone())).collect()
}

/// response content-types: absent is drawn separately.  The four literals tonic-web knows, other
/// message formats, parameters, letter case, the text (base64) family, and things that are not
/// grpc-web at all.
const BIN_CTS: [&[u8]; 14] = [
    b"application/grpc-web",
    b"application/grpc-web+proto",
    b"application/grpc-web+json",
    b"application/grpc-web+thrift",
    b"application/grpc-web+proto; charset=utf-8",
    b"application/grpc-web;charset=utf-8",
    b"application/grpc-web ; q=1",
    b"Application/GRPC-Web+Proto",
    b"APPLICATION/GRPC-WEB",
    b"application/Grpc-Web+JSON; Charset=UTF-8",
    b"application/grpc-web+",
    b"application/grpc-web+x.y-z",
    b" application/grpc-web+proto",
    b"application/grpc-web+proto ",
];
const TEXT_CTS: [&[u8]; 7] = [
    b"application/grpc-web-text",
    b"application/grpc-web-text+proto",
    b"application/grpc-web-text+json",
    b"application/grpc-web-text; charset=utf-8",
    b"application/grpc-web-text+proto;charset=utf-8",
    b"Application/Grpc-Web-Text",
    b"APPLICATION/GRPC-WEB-TEXT+PROTO",
];
const OTHER_CTS: [&[u8]; 14] = [
    b"application/grpc",
    b"application/grpc+proto",
    b"application/grpc+json",
    b"text/html",
    b"text/html; charset=utf-8",
    b"application/json",
    b"application/grpc-webx",
    b"application/grpc-web-textual",
    b"application/grpc-web/proto",
    b"xapplication/grpc-web",
    b"",
    b"garbage",
    b"\xff\xfeapplication/grpc-web",
    b";application/grpc-web",
];

fn ct_header(v: &[u8]) -> (Vec<u8>, Vec<u8>) {
    (b"content-type".to_vec(), v.to_vec())
}

/// 0 = binary family (or absent), 1 = text family, 2 = not grpc-web
fn gen_content_type(rng: &mut Rng, family: u64) -> Option<Vec<u8>> {
    match family {
        0 => {
            if rng.chance(1, 6) {
                None
            } else {
                Some(rng.pick(&BIN_CTS).to_vec())
            }
        }
        1 => Some(rng.pick(&TEXT_CTS).to_vec()),
        _ => Some(rng.pick(&OTHER_CTS).to_vec()),
    }
}

/// a response head.  `caller`: for `st` cases — only headers tonic's client does not interpret
/// itself (no grpc-status / grpc-encoding in the HEADERS).
fn gen_head(rng: &mut Rng, family: u64, caller: bool) -> RespHead {
    const ST_CL: [u16; 16] = [200, 200, 200, 200, 200, 200, 200, 201, 204, 206, 302, 400, 404, 500, 503, 999];
    const ST_CALLER: [u16; 16] = [200, 200, 200, 200, 200, 200, 200, 200, 204, 302, 400, 401, 403, 404, 429, 503];
    let status = if caller { *rng.pick(&ST_CALLER) } else { *rng.pick(&ST_CL) };
    let version = *rng.pick(&[Version::HTTP_11, Version::HTTP_11, Version::HTTP_2, Version::HTTP_2, Version::HTTP_10, Version::HTTP_3, Version::HTTP_09]);
    let mut headers: Vec<(Vec<u8>, Vec<u8>)> = Vec::new();
    let extra: &[(&str, &[u8])] = if caller {
        &[("x-resp", b"1"), ("x-resp", b"2"), ("x-a", b"from-header"), ("server", b"envoy"), ("x-trace-bin", b"AAEC"), ("date", b"Thu, 01 Jan 1970 00:00:00 GMT")]
    } else {
        &[("x-resp", b"1"), ("x-resp", b"2"), ("x-a", b"from-header"), ("server", b"envoy"), ("grpc-status", b"7"), ("grpc-message", b"in%20headers"), ("grpc-encoding", b"gzip"), ("content-length", b"12"), ("transfer-encoding", b"chunked"), ("accept", b"application/grpc-web-text"), ("access-control-expose-headers", b"grpc-status,grpc-message"), ("te", b"trailers")]
    };
    for _ in 0..rng.below(3) {
        let (k, v) = *rng.pick(extra);
        headers.push((k.as_bytes().to_vec(), v.to_vec()));
    }
    if let Some(ct) = gen_content_type(rng, family) {
        let at = rng.below(headers.len() as u64 + 1) as usize;
        headers.insert(at, ct_header(&ct));
        if rng.chance(1, 12) {
            // a second content-type value: the first one counts
            let fam2 = rng.below(3);
            if let Some(ct2) = gen_content_type(rng, fam2) {
                headers.push(ct_header(&ct2));
            }
        }
    }
    for _ in 0..rng.below(2) {
        let (k, v) = *rng.pick(extra);
        headers.push((k.as_bytes().to_vec(), v.to_vec()));
    }
    RespHead { status, version, headers }
}

fn case_with_head(kind: &str, head: &RespHead, evs: &[Ev]) -> String {
    case_of(&format!("{} {}", kind, render_head(head)), evs)
}

fn head_ct(ct: Option<&[u8]>) -> RespHead {
    RespHead { status: 200, version: Version::HTTP_11, headers: ct.map(|c| vec![ct_header(c)]).unwrap_or_default() }
}

/// The response head as a dimension (DESIGN §9.10): every content-type of the tables × grpc-web
/// bodies (binary; base64 for the text family), then random heads × bodies × chunkings, for the
/// layer alone (`cl`) and under `client::Grpc` (`st`).
fn gen_head_cases(thorough: bool, rng: &mut Rng, out: &mut Vec<String>) {
    let msg = frame(0, &[9, 9]);
    let tf7 = trailers_frame(b"grpc-status:7\r\ngrpc-message:denied: a%3Ab\r\nx-a:1\r\nx-a:2\r\n");
    let body: Vec<u8> = [msg.clone(), tf7.clone()].concat();
    let only_trailers = tf7.clone();
    // ---- corpus: one line per content-type value ------------------------------------------------
    let mut all: Vec<Option<&[u8]>> = vec![None];
    all.extend(BIN_CTS.iter().map(|c| Some(*c)));
    all.extend(TEXT_CTS.iter().map(|c| Some(*c)));
    all.extend(OTHER_CTS.iter().map(|c| Some(*c)));
    for ct in &all {
        let h = head_ct(*ct);
        // the binary body: whole, and cut inside the trailers frame
        out.push(case_with_head("cl", &h, &[Ev::Data(body.clone())]));
        out.push(case_with_head("cl", &h, &[Ev::Data(body[..9].to_vec()), Ev::Data(body[9..].to_vec())]));
        out.push(case_with_head("cl", &h, &[Ev::Data(only_trailers.clone())]));
        out.push(case_with_head("st s", &h, &[Ev::Data(body.clone())]));
        out.push(case_with_head("st u", &h, &[Ev::Data(body.clone())]));
        // the same body in its text form (what a server answering `…-text` would send)
        let text = crate::c16::b64(&body);
        out.push(case_with_head("cl", &h, &[Ev::Data(text.clone())]));
        out.push(case_with_head("cl", &h, &[Ev::Data(text[..6].to_vec()), Ev::Data(text[6..].to_vec())]));
        out.push(case_with_head("st s", &h, &[Ev::Data(text.clone())]));
        // cut off
        out.push(case_with_head("cl", &h, &[Ev::Data(body[..body.len() - 3].to_vec())]));
        out.push(case_with_head("cl", &h, &[]));
    }
    // every status / version once, with and without a content-type
    for st in [100u16, 101, 199, 200, 201, 204, 206, 301, 304, 400, 401, 403, 404, 418, 429, 500, 502, 503, 504, 599, 999] {
        for ct in [None, Some(&b"application/grpc-web+proto"[..]), Some(&b"text/html"[..])] {
            let mut h = head_ct(ct);
            h.status = st;
            h.headers.push((b"x-resp".to_vec(), b"1".to_vec()));
            out.push(case_with_head("cl", &h, &[Ev::Data(body.clone())]));
            if st >= 200 {
                out.push(case_with_head("st s", &h, &[Ev::Data(body.clone())]));
                out.push(case_with_head("st u", &h, &[Ev::Data(body.clone())]));
                out.push(case_with_head("st u", &h, &[Ev::Data(frame(0, &[5]))]));
            }
        }
    }
    for v in [Version::HTTP_09, Version::HTTP_10, Version::HTTP_11, Version::HTTP_2, Version::HTTP_3] {
        let mut h = head_ct(Some(b"application/grpc-web+proto"));
        h.version = v;
        out.push(case_with_head("cl", &h, &[Ev::Data(body.clone())]));
        out.push(case_with_head("st u", &h, &[Ev::Data(body.clone())]));
    }
    // ---- structured: random heads × bodies × chunkings -----------------------------------------
    let n = if thorough { 4000 } else { 350 };
    for _ in 0..n {
        let family = *rng.pick(&[0u64, 0, 0, 0, 1, 2]);
        let caller = rng.chance(1, 3);
        let head = gen_head(rng, family, caller);
        let fs: Vec<(u8, Vec<u8>)> = if caller {
            (0..rng.below(3)).map(|_| (0u8, { let l = *rng.pick(&[0usize, 1, 2, 5, 9, 300]); rng.bytes(l) })).collect()
        } else {
            gen_frames(rng, 3, false)
        };
        let tr = if caller { gen_status_trailers(rng) } else { gen_trailers(rng) };
        if header_map(&tr).is_none() {
            continue;
        }
        let sep: &[u8] = if rng.chance(1, 4) { b": " } else { b":" };
        let mut bytes = frames_bytes(&fs);
        let mlen = bytes.len();
        if rng.chance(9, 10) {
            bytes.extend_from_slice(&trailers_frame(&block_of(&tr, sep)));
        }
        match rng.below(10) {
            0 => {
                let c = rng.below(bytes.len() as u64 + 1) as usize;
                bytes.truncate(c);
            }
            1 => {
                if !bytes.is_empty() {
                    let i = rng.below(bytes.len() as u64) as usize;
                    bytes[i] ^= 1 << rng.below(8);
                }
            }
            _ => {}
        }
        // a text-family response mostly carries the base64 form (whole, or flushed in padded pieces)
        let mut marks = prefix_marks(&fs);
        for d in 0..=6 {
            marks.push(mlen + d);
        }
        if family == 1 && rng.chance(3, 4) {
            bytes = if rng.chance(1, 2) || bytes.len() < 2 {
                crate::c16::b64(&bytes)
            } else {
                let c = rng.range(1, bytes.len() as u64 - 1) as usize;
                [crate::c16::b64(&bytes[..c]), crate::c16::b64(&bytes[c..])].concat()
            };
            marks = vec![4, 5, 8];
            if rng.chance(1, 8) && !bytes.is_empty() {
                let i = rng.below(bytes.len() as u64) as usize;
                bytes[i] = *rng.pick(b"=*A\x00\x80");
            }
        }
        let cks = chunkings(&bytes, &marks, rng, 2);
        let ck = cks[rng.below(cks.len() as u64) as usize].clone();
        let mut evs = with_pendings(&ck, rng, 4);
        match rng.below(30) {
            0 => evs.push(Ev::Err),
            1 => evs.push(Ev::Trailers(vec![(b"grpc-status".to_vec(), b"5".to_vec())])),
            _ => {}
        }
        let kind = if caller { if rng.chance(1, 2) { "st u" } else { "st s" } } else { "cl" };
        out.push(case_with_head(kind, &head, &evs));
    }
}

pub fn generate(tier: &str, rng: &mut Rng) -> Vec<String> {
    let thorough = tier == "thorough";
    let kind = if std::env::var("VERIF_C17_ASIS").is_ok() { "asis" } else { "cl" };
    let mut out: Vec<String> = Vec::new();
    let st0 = b"grpc-status:0\r\n".to_vec();
    let tf0 = trailers_frame(&st0);
    let msg = frame(0, &[9, 9]);

    // ---- corpus: the five failures of DESIGN §5.8 (witnesses of the `_fails` theorems) --------
    // (a) message and trailers frame in one chunk
    out.push(case_of(kind, &[Ev::Data([msg.clone(), tf0.clone()].concat())]));
    // (b) trailers frame split across chunks (inside the header; inside the block)
    out.push(case_of(kind, &[Ev::Data(msg.clone()), Ev::Data(tf0[..3].to_vec()), Ev::Data(tf0[3..].to_vec())]));
    out.push(case_of(kind, &[Ev::Data(msg.clone()), Ev::Data(tf0[..9].to_vec()), Ev::Data(tf0[9..].to_vec())]));
    out.push(case_of(kind, &[Ev::Data(tf0[..9].to_vec()), Ev::Data(tf0[9..].to_vec())]));
    // (c) value containing ':' ; repeated name
    out.push(case_of(kind, &[Ev::Data(trailers_frame(b"grpc-status:0\r\ngrpc-message:a:b\r\n"))]));
    out.push(case_of(kind, &[Ev::Data(trailers_frame(b"x:1\r\nx:2\r\ngrpc-status:0\r\n"))]));
    out.push(case_of(kind, &[Ev::Data(trailers_frame(b"grpc-message:a:b\r\n"))]));
    out.push(case_of(kind, &[Ev::Data(trailers_frame(b"x:1\r\nx:2\r\n"))]));
    // (d) body cut inside a frame header
    out.push(case_of(kind, &[Ev::Data(vec![0, 0, 0])]));
    out.push(case_of(kind, &[Ev::Data(vec![0, 0]), Ev::Data([&msg[2..], &tf0[..]].concat())]));
    // (e) body cut inside a payload
    out.push(case_of(kind, &[Ev::Data(vec![0, 0, 0, 0, 2, 9])]));
    // plain good ones
    out.push(case_of(kind, &[Ev::Data(msg.clone()), Ev::Data(tf0.clone())]));
    out.push(case_of(kind, &[Ev::Data(tf0.clone())]));
    out.push(case_of(kind, &[]));
    out.push(case_of(kind, &[Ev::Data(msg.clone())]));
    out.push(case_of(kind, &[Ev::Data(msg.clone()), Ev::Trailers(vec![(b"grpc-status".to_vec(), b"0".to_vec())])]));
    out.push(case_of(kind, &[Ev::Data(trailers_frame(b"grpc-status: 0\r\ngrpc-message: \r\n"))]));
    out.push(case_of(kind, &[Ev::Data(trailers_frame(b"Grpc-Status:0\r\n"))]));
    out.push(case_of(kind, &[Ev::Data(trailers_frame(b"grpc-status:0"))])); // unterminated line
    out.push(case_of(kind, &[Ev::Data(trailers_frame(b"nocolon\r\n"))]));
    out.push(case_of(kind, &[Ev::Data(vec![7, 0, 0, 0, 0])])); // bad flag
    out.push(case_of(kind, &[Ev::Data(vec![0x81, 0, 0, 0, 0])]));
    out.push(case_of(kind, &[Ev::Data(msg.clone()), Ev::Err]));
    // malformed trailer blocks: a last line without CRLF (witness of `C17_unterminated_line_fails`:
    // before fix-C17-5 the status line was dropped and the stream ended cleanly), a bare CR inside
    // a value that starts with a space (the rest of the line used to be dropped), lone CRs
    for blk in [
        &b"grpc-status:13"[..],
        b"x:1\r\ngrpc-status:13",
        b"x:1\r\ngrpc-status: 13",
        b"x: v\rgrpc-status:13\r\n",
        b"grpc-status:0\r\nx: v\rgrpc-status:13\r\n",
        b"grpc-status:0\r\nx: v\rw\r\n",
        b"x:1\r\n\r",
        b"x:1\r\ngrpc-status:13\r",
        b"x:1\r\ngrpc-status:13\n",
        b"\r\n",
        b"x:1\r\n\r\n",
        b"grpc-status:13\n",
        b":v\r\n",
        b"x:1\r\nnocolon",
    ] {
        out.push(case_of(kind, &[Ev::Data(trailers_frame(blk))]));
        out.push(case_of(kind, &[Ev::Data([msg.clone(), trailers_frame(blk)].concat())]));
        if kind == "cl" {
            out.push(case_of("st s", &[Ev::Data([msg.clone(), trailers_frame(blk)].concat())]));
            out.push(case_of("st u", &[Ev::Data([msg.clone(), trailers_frame(blk)].concat())]));
        }
    }

    // ---- the response head: content-type (and status, version, other headers) -----------------
    if kind == "cl" {
        gen_head_cases(thorough, rng, &mut out);
    }

    // ---- sizes around 16 KiB / 32 KiB / 64 KiB and beyond (DESIGN §9.9 A1) -----------------------
    for (i, &sz) in BIG_SIZES.iter().enumerate() {
        let fs = vec![(rng.below(2) as u8, big_payload(rng, sz))];
        let mlen = 5 + sz;
        let mut bytes = frames_bytes(&fs);
        bytes.extend_from_slice(&tf0);
        // message and trailers frame in one chunk; the message alone first; a first chunk of exactly `sz`
        let mut cks: Vec<Vec<Vec<u8>>> = vec![vec![bytes.clone()]];
        if i % 2 == 0 || thorough {
            cks.push(vec![bytes[..sz].to_vec(), bytes[sz..].to_vec()]);
        }
        if i % 2 == 1 || thorough {
            cks.push(vec![bytes[..mlen].to_vec(), bytes[mlen..].to_vec()]);
        }
        if thorough {
            cks.extend(chunkings(&bytes, &[5, 16384, 32768, 65536, mlen + 3], rng, 2));
        }
        for ck in cks {
            out.push(case_of(kind, &with_pendings(&ck, rng, 3)));
        }
        if kind == "cl" {
            // request wrapping at the same sizes
            out.push(case_of("creq", &[Ev::Data(frames_bytes(&fs))]));
        }
    }
    // a BIG message whose body is cut off inside the payload (seed C17f: a "stream large messages" fast path that
    // hands out the buffered part of an incomplete frame and then no longer knows that a frame is open - the
    // truncated body ended cleanly instead of with "unexpected end of body"), also after a complete message, in
    // chunks of the sizes HTTP stacks use; and the same bodies complete, so the fast path itself is exercised
    for (i, &sz) in [8187usize, 8192, 8193, 9000, 20057, 70000].iter().enumerate() {
        let lead = if i % 2 == 0 { vec![] } else { frame(0, &[1, 2, 3]) };
        let big = frames_bytes(&[(0u8, vec![0x41u8; sz])]);
        let full = [lead.clone(), big.clone(), tf0.clone()].concat();
        let base = lead.len();
        for cut in [base + 5 + 1, base + 8191, base + 8192, base + 8193, base + 5 + 8192, base + 5 + sz / 2, base + 5 + sz - 1] {
            if cut >= base + 5 + sz {
                continue;
            }
            let body = &full[..cut];
            for step in [usize::MAX, 4096, 16384, 1000] {
                if !thorough && (cut + step / 1000 + i) % 2 == 1 {
                    continue;
                }
                let ck: Vec<Vec<u8>> = if step == usize::MAX { vec![body.to_vec()] } else { body.chunks(step).map(|c| c.to_vec()).collect() };
                out.push(case_of(kind, &with_pendings(&ck, rng, 5)));
            }
        }
        for step in [4096usize, 8192, 16384] {
            let ck: Vec<Vec<u8>> = full.chunks(step).map(|c| c.to_vec()).collect();
            out.push(case_of(kind, &with_pendings(&ck, rng, 5)));
        }
    }
    // messages ABOVE 4 MiB (seed C17g: the layer refusing what only the default of the caller's configurable
    // `max_decoding_message_size` would refuse): the grpc-web layer has no size limit of its own
    for (sz, step) in [(4 * 1024 * 1024 + 1usize, usize::MAX), (5 * 1024 * 1024, 16384)] {
        if !thorough && step != usize::MAX {
            continue;
        }
        let mut full = frame(0, &[1, 2, 3]);
        full.extend(frames_bytes(&[(0u8, vec![0x42u8; sz])]));
        full.extend_from_slice(&tf0);
        let ck: Vec<Vec<u8>> = if step == usize::MAX { vec![full.clone()] } else { full.chunks(step).map(|c| c.to_vec()).collect() };
        out.push(case_of(kind, &data_evs(&ck)));
    }
    // several frames, more than 64 KiB together, in one chunk with the trailers frame
    {
        let fs = vec![(0u8, big_payload(rng, 30000)), (1u8, big_payload(rng, 30001)), (0u8, big_payload(rng, 10000)), (0u8, vec![])];
        let tr = gen_trailers_valid(rng);
        let mut bytes = frames_bytes(&fs);
        bytes.extend_from_slice(&trailers_frame(&block_of(&tr, b":")));
        out.push(case_of(kind, &[Ev::Data(bytes.clone())]));
        for ck in chunkings(&bytes, &prefix_marks(&fs), rng, 3).into_iter().take(if thorough { 99 } else { 2 }) {
            out.push(case_of(kind, &with_pendings(&ck, rng, 3)));
        }
        if kind == "cl" {
            out.push(case_of("creq", &[Ev::Data(frames_bytes(&fs))]));
        }
    }
    // trailers frames of > 255 B, with one value of 70 000 B, of > 65 535 B
    for which in 0..3u64 {
        for sep in [&b":"[..], b": "] {
            let tr = big_trailers(rng, which);
            let fs = gen_frames(rng, 2, true);
            let mut bytes = frames_bytes(&fs);
            let mlen = bytes.len();
            bytes.extend_from_slice(&trailers_frame(&block_of(&tr, sep)));
            let mut cks: Vec<Vec<Vec<u8>>> = vec![vec![bytes.clone()]];
            let mid = mlen + 5 + (bytes.len() - mlen - 5) / 2;
            cks.push(vec![bytes[..mid].to_vec(), bytes[mid..].to_vec()]);
            if thorough {
                cks.extend(chunkings(&bytes, &[mlen + 1, mlen + 5, mlen + 5 + 255, mlen + 5 + 65535, mlen + 5 + 65536], rng, 2));
            }
            for ck in cks {
                out.push(case_of(kind, &with_pendings(&ck, rng, 3)));
            }
            if kind == "cl" && sep == b":" {
                let fs0: Vec<(u8, Vec<u8>)> = fs.iter().map(|(_, p)| (0u8, p.clone())).collect();
                let mut b0 = frames_bytes(&fs0);
                b0.extend_from_slice(&trailers_frame(&block_of(&tr, sep)));
                out.push(case_of("st s", &[Ev::Data(b0)]));
            }
        }
    }

    // ---- structured -------------------------------------------------------------------------
    let n = if thorough { 8000 } else { 700 };
    for _ in 0..n {
        let fs = gen_frames(rng, 3, true);
        let mut tr = gen_trailers(rng);
        if header_map(&tr).is_none() {
            continue;
        }
        if rng.chance(1, 6) {
            // mixed-case names as other servers send them
            for p in tr.iter_mut() {
                if rng.chance(1, 2) {
                    p.0 = p.0.to_ascii_uppercase();
                }
            }
        }
        let sep: &[u8] = if rng.chance(1, 4) { b": " } else { b":" };
        let mut bytes = frames_bytes(&fs);
        let mlen = bytes.len();
        let with_trailers = rng.chance(9, 10);
        if with_trailers {
            bytes.extend_from_slice(&trailers_frame(&block_of(&tr, sep)));
        }
        // marks: inside every message prefix, inside the trailers header, inside the block
        let mut marks = prefix_marks(&fs);
        if with_trailers {
            for d in 0..=7 {
                marks.push(mlen + d);
            }
            for _ in 0..3 {
                marks.push(mlen + 5 + rng.below((bytes.len() - mlen - 5) as u64 + 1) as usize);
            }
            marks.push(bytes.len() - 1);
            marks.push(bytes.len() - 2);
        }
        marks.sort();
        marks.dedup();
        for ck in chunkings(&bytes, &marks, rng, 3) {
            if !thorough && rng.chance(1, 2) {
                continue;
            }
            let dens = *rng.pick(&[0u64, 0, 3]);
            let mut evs = with_pendings(&ck, rng, dens);
            if rng.chance(1, 20) {
                evs.push(Ev::Pending);
            }
            out.push(case_of(kind, &evs));
        }
        // truncation: cut the body at a random point / at every point for small bodies
        let cuts: Vec<usize> = if bytes.len() <= 40 { (0..bytes.len()).collect() } else { (0..4).map(|_| rng.below(bytes.len() as u64) as usize).collect() };
        for c in cuts {
            if !thorough && rng.chance(2, 3) {
                continue;
            }
            let ck = chunkings(&bytes[..c], &[], rng, 1).pop().unwrap();
            out.push(case_of(kind, &with_pendings(&ck, rng, 6)));
        }
    }
    // ---- small-scope exhaustive: every chunking × every truncation of small bodies ------------
    let bodies: Vec<Vec<u8>> = vec![
        [frame(0, &[7]), trailers_frame(b"a:1\r\n")].concat(),
        trailers_frame(b"a:b:c\r\n"),
        [frame(1, &[]), frame(0, &[1, 2])].concat(),
    ];
    for b in &bodies {
        for cut in 0..=b.len() {
            if !thorough && (cut > 9 && cut != b.len()) {
                continue;
            }
            let pre = &b[..cut];
            if pre.len() <= (if thorough { 13 } else { 9 }) {
                for ck in all_chunkings(pre) {
                    out.push(case_of(kind, &data_evs(&ck)));
                }
            } else {
                for ck in chunkings(pre, &(1..pre.len()).collect::<Vec<_>>(), rng, 6) {
                    out.push(case_of(kind, &data_evs(&ck)));
                }
            }
        }
    }
    // ---- malformed --------------------------------------------------------------------------
    let n = if thorough { 6000 } else { 600 };
    for _ in 0..n {
        let fs = gen_frames(rng, 3, false);
        let tr = gen_trailers(rng);
        if header_map(&tr).is_none() {
            continue;
        }
        let mut block = block_of(&tr, b":");
        match rng.below(8) {
            0 => {
                if !block.is_empty() {
                    let i = rng.below(block.len() as u64) as usize;
                    block[i] = *rng.pick(b"\r\n: \x00\x7f@A(");
                }
            }
            1 => {
                let l = block.len();
                block.truncate(l.saturating_sub(rng.range(1, 3) as usize));
            }
            2 => block.extend_from_slice(b"\r\n"),
            3 => {
                let nb = rng.below(12) as usize;
                block = rng.bytes(nb);
            }
            _ => {}
        }
        let mut bytes = frames_bytes(&fs);
        bytes.extend_from_slice(&trailers_frame(&block));
        match rng.below(8) {
            0 => {
                // flip a flag byte
                let i = 0;
                if !bytes.is_empty() {
                    bytes[i] = *rng.pick(&[2u8, 0x81, 0x7f, 0xff, 0x40]);
                }
            }
            1 => bytes.extend_from_slice(&frame(0, &[1])), // message after trailers
            2 => bytes.extend_from_slice(&trailers_frame(b"x:late\r\n")), // two trailers frames
            3 => {
                let i = rng.below(bytes.len() as u64) as usize;
                bytes[i] ^= 1 << rng.below(8);
            }
            4 => bytes.extend_from_slice(&rng.bytes(3)),
            _ => {}
        }
        let ck = chunkings(&bytes, &[], rng, 1).pop().unwrap();
        let mut evs = with_pendings(&ck, rng, 5);
        match rng.below(10) {
            0 => {
                let at = rng.below(evs.len() as u64 + 1) as usize;
                evs.insert(at, Ev::Err);
            }
            1 => evs.push(Ev::Trailers(vec![(b"grpc-status".to_vec(), b"5".to_vec()), (b"y".to_vec(), b"http".to_vec())])),
            2 => {
                let at = rng.below(evs.len() as u64 + 1) as usize;
                evs.insert(at, Ev::Trailers(vec![(b"x".to_vec(), b"early".to_vec())]));
            }
            _ => {}
        }
        out.push(case_of(kind, &evs));
    }
    // all 256 bytes in a trailer name / value position
    for b in 0u16..=255 {
        let b = b as u8;
        out.push(case_of(kind, &[Ev::Data(trailers_frame(&[b"a", &[b][..], b"z:v\r\n"].concat()))]));
        out.push(case_of(kind, &[Ev::Data(trailers_frame(&[b"k:v", &[b][..], b"w\r\n"].concat()))]));
        out.push(case_of(kind, &[Ev::Data(trailers_frame(&[b"k:", &[b][..], b"w\r\n"].concat()))]));
        out.push(case_of(kind, &[Ev::Data(trailers_frame(&[b"k: v", &[b][..], b"w\r\n"].concat()))]));
        out.push(case_of(kind, &[Ev::Data(trailers_frame(&[b"k:v\r\nj:w", &[b][..]].concat()))])); // last line not terminated
    }

    // ---- the caller's view: client::Grpc over the layer (status from the in-body trailers) ------
    if kind == "cl" {
        let n = if thorough { 4000 } else { 400 };
        for _ in 0..n {
            let nf = rng.below(4);
            let fs: Vec<(u8, Vec<u8>)> = (0..nf).map(|_| (0u8, { let l = *rng.pick(&[0usize, 1, 2, 5, 9, 300]); rng.bytes(l) })).collect();
            let tr = gen_status_trailers(rng);
            if header_map(&tr).is_none() {
                continue;
            }
            let sep: &[u8] = if rng.chance(1, 4) { b": " } else { b":" };
            let mut bytes = frames_bytes(&fs);
            let mlen = bytes.len();
            let mut tr_wire = tr.clone();
            if rng.chance(1, 8) {
                for p in tr_wire.iter_mut() {
                    if rng.chance(1, 2) {
                        p.0 = p.0.to_ascii_uppercase();
                    }
                }
            }
            if rng.chance(14, 15) {
                bytes.extend_from_slice(&trailers_frame(&block_of(&tr_wire, sep)));
            }
            match rng.below(12) {
                0 => {
                    let c = rng.below(bytes.len() as u64 + 1) as usize;
                    bytes.truncate(c); // cut off anywhere
                }
                1 => bytes.extend_from_slice(&frame(0, &[1])), // message after the trailers
                _ => {}
            }
            let mut marks = prefix_marks(&fs);
            for d in 0..=6 {
                marks.push(mlen + d);
            }
            let cks = chunkings(&bytes, &marks, rng, 2);
            let ck = cks[rng.below(cks.len() as u64) as usize].clone();
            let mut evs = with_pendings(&ck, rng, 4);
            if rng.chance(1, 30) {
                evs.push(Ev::Err);
            }
            out.push(case_of(if rng.chance(1, 2) { "st u" } else { "st s" }, &evs));
        }
    }

    // ---- request wrapping -------------------------------------------------------------------
    if kind == "cl" {
        let n = if thorough { 500 } else { 60 };
        for _ in 0..n {
            let fs = gen_frames(rng, 3, false);
            let bytes = frames_bytes(&fs);
            let ck = chunkings(&bytes, &prefix_marks(&fs), rng, 1).pop().unwrap();
            let mut evs = with_pendings(&ck, rng, 4);
            match rng.below(6) {
                0 => evs.push(Ev::Err),
                1 => evs.push(Ev::Trailers(vec![(b"x".to_vec(), b"1".to_vec())])),
                _ => {}
            }
            out.push(case_of("creq", &evs));
        }
    }
    // ---- further dimensions (c17_x.rs): entry points, consumers, histories, hints ------------------
    if kind == "cl" {
        x::generate(thorough, rng, &mut out);
    }
    out
}
