//! C17 — grpc-web client layer (`tonic_web::GrpcWebClientService`), driven through its public API
//! with a scripted inner HTTP service.
//!
//! Case kinds:
//!   cl <ev>*     the inner service answers with a body made of these events; observe the frames
//!                of the body the client layer returns and the polls of the inner body after it ended
//!   asis <ev>*   same execution; the Lean driver compares with the model of the UNPATCHED code
//!                (only generated with VERIF_C17_ASIS=1, to re-establish DESIGN §5.8 on the old tree)
//!   creq <ev>*   request wrapping: what the inner service receives for a gRPC request body
//! events as in c16. Observed frames: `d <hex>` | `t <n> (name value)*` (sorted by name, value
//! order kept) | final `eos` / `err` / `busy`; then `ae <n>` = polls of the inner body after its end.
use crate::c16::{all_chunkings, block_on, chunkings, frame, frames_bytes, gen_frames, gen_trailers, header_map, parse_evs, prefix_marks, render_evs, with_pendings, Ev, ScriptBody};
use crate::common::*;
use bytes::Bytes;
use http::{HeaderMap, Request, Response, Version};
use http_body::Body;
use std::future::Future;
use std::panic::{catch_unwind, AssertUnwindSafe};
use std::pin::Pin;
use std::sync::{Arc, Mutex};
use std::task::{Context, Poll};
use tower_service::Service;

fn render_sorted(t: &HeaderMap, out: &mut Vec<String>) {
    let mut ps: Vec<(Vec<u8>, Vec<u8>)> = t.iter().map(|(k, v)| (k.as_str().as_bytes().to_vec(), v.as_bytes().to_vec())).collect();
    ps.sort_by(|a, b| a.0.cmp(&b.0)); // stable: per-name value order kept
    out.push("t".into());
    out.push(ps.len().to_string());
    for (k, v) in ps {
        out.push(hex(&k));
        out.push(hex(&v));
    }
}

/// Poll until `None` or the first error, recording every frame as it arrives (so that a
/// busy loop, which ends in a panic of the scripted body, still shows what came before).
async fn drain_into<B>(body: B, out: Arc<Mutex<Vec<String>>>)
where
    B: Body<Data = Bytes>,
{
    let mut body = Box::pin(body);
    loop {
        let fr = std::future::poll_fn(|cx| body.as_mut().poll_frame(cx)).await;
        let mut o = out.lock().unwrap();
        match fr {
            None => {
                o.push("eos".to_string());
                break;
            }
            Some(Err(_)) => {
                o.push("err".to_string());
                break;
            }
            Some(Ok(frame)) => match frame.into_data() {
                Ok(d) => {
                    o.push("d".into());
                    o.push(hex(&d));
                }
                Err(frame) => match frame.into_trailers() {
                    Ok(t) => render_sorted(&t, &mut o),
                    Err(_) => o.push("other".into()),
                },
            },
        }
        if o.len() > 100_000 {
            o.push("runaway".into());
            break;
        }
    }
}

/// inner HTTP service of the client: records the request, answers with the scripted body
struct InnerHttp {
    resp: Option<ScriptBody>,
    seen: Arc<Mutex<Vec<String>>>,
}

impl<B> Service<Request<B>> for InnerHttp
where
    B: Body<Data = Bytes> + Send + 'static,
{
    type Response = Response<ScriptBody>;
    type Error = std::convert::Infallible;
    type Future = Pin<Box<dyn Future<Output = Result<Self::Response, Self::Error>> + Send>>;
    fn poll_ready(&mut self, _: &mut Context<'_>) -> Poll<Result<(), Self::Error>> {
        Poll::Ready(Ok(()))
    }
    fn call(&mut self, req: Request<B>) -> Self::Future {
        let resp = self.resp.take().expect("one call");
        let seen = self.seen.clone();
        Box::pin(async move {
            let (parts, body) = req.into_parts();
            {
                let mut s = seen.lock().unwrap();
                s.push(format!("{:?}", parts.version).replace('/', "").replace('.', ""));
                s.push(match parts.headers.get("content-type") {
                    Some(v) => hex(v.as_bytes()),
                    None => "none".into(),
                });
            }
            drain_into(body, seen).await;
            Ok(Response::new(resp))
        })
    }
}

fn run_client(resp_evs: Vec<Ev>, req_evs: Vec<Ev>) -> (Vec<String>, Vec<String>, usize, bool) {
    let body = ScriptBody::new(resp_evs);
    let after_end = body.after_end.clone();
    let seen = Arc::new(Mutex::new(Vec::new()));
    let frames = Arc::new(Mutex::new(Vec::new()));
    let inner = InnerHttp { resp: Some(body), seen: seen.clone() };
    let mut svc = tonic_web::GrpcWebClientService::new(inner);
    let mut req = Request::new(ScriptBody::new(req_evs));
    *req.version_mut() = Version::HTTP_2;
    req.headers_mut().insert("content-type", http::HeaderValue::from_static("application/grpc"));
    let f2 = frames.clone();
    let r = catch_unwind(AssertUnwindSafe(move || {
        let res = block_on(svc.call(req)).expect("response future").unwrap();
        block_on(drain_into(res.into_body(), f2)).is_some()
    }));
    let panicked = r.is_err();
    let hung = matches!(r, Ok(false));
    let mut fr = frames.lock().unwrap().clone();
    let ae = *after_end.lock().unwrap();
    if panicked {
        fr.push(if ae > 1000 { "busy".into() } else { "panic".into() });
    } else if hung {
        fr.push("hang".into());
    }
    let s = seen.lock().unwrap().clone();
    (fr, s, ae.min(1001), panicked)
}

pub fn execute(case: &str) -> String {
    let t: Vec<&str> = case.split(' ').filter(|s| !s.is_empty()).collect();
    match t.as_slice() {
        ["cl", evs @ ..] | ["asis", evs @ ..] => {
            let Some(evs) = parse_evs(evs) else { return "bad-case".into() };
            let (fr, _, ae, _) = run_client(evs, vec![]);
            format!("{} ae {}", fr.join(" "), ae)
        }
        ["creq", evs @ ..] => {
            let Some(evs) = parse_evs(evs) else { return "bad-case".into() };
            let (_, seen, _, _) = run_client(vec![], evs);
            seen.join(" ")
        }
        _ => "bad-case".into(),
    }
}

// ---------------------------------------------------------------------------------------------

fn trailers_frame(block: &[u8]) -> Vec<u8> {
    frame(0x80, block)
}

fn block_of(tr: &[(Vec<u8>, Vec<u8>)], sep: &[u8]) -> Vec<u8> {
    let mut b = Vec::new();
    for (k, v) in tr {
        b.extend_from_slice(k);
        b.extend_from_slice(sep);
        b.extend_from_slice(v);
        b.extend_from_slice(b"\r\n");
    }
    b
}

fn case_of(kind: &str, evs: &[Ev]) -> String {
    let e = render_evs(evs);
    if e.is_empty() {
        kind.to_string()
    } else {
        format!("{} {}", kind, e)
    }
}

fn data_evs(chunks: &[Vec<u8>]) -> Vec<Ev> {
    chunks.iter().map(|c| Ev::Data(c.clone())).collect()
}

pub fn generate(tier: &str, rng: &mut Rng) -> Vec<String> {
    let thorough = tier == "thorough";
    let kind = if std::env::var("VERIF_C17_ASIS").is_ok() { "asis" } else { "cl" };
    let mut out: Vec<String> = Vec::new();
    let st0 = b"grpc-status:0\r\n".to_vec();
    let tf0 = trailers_frame(&st0);
    let msg = frame(0, &[9, 9]);

    // ---- corpus: the five failures of DESIGN §5.8 (witnesses of the `_fails` theorems) --------
    // (a) message and trailers frame in one chunk
    out.push(case_of(kind, &[Ev::Data([msg.clone(), tf0.clone()].concat())]));
    // (b) trailers frame split across chunks (inside the header; inside the block)
    out.push(case_of(kind, &[Ev::Data(msg.clone()), Ev::Data(tf0[..3].to_vec()), Ev::Data(tf0[3..].to_vec())]));
    out.push(case_of(kind, &[Ev::Data(msg.clone()), Ev::Data(tf0[..9].to_vec()), Ev::Data(tf0[9..].to_vec())]));
    out.push(case_of(kind, &[Ev::Data(tf0[..9].to_vec()), Ev::Data(tf0[9..].to_vec())]));
    // (c) value containing ':' ; repeated name
    out.push(case_of(kind, &[Ev::Data(trailers_frame(b"grpc-status:0\r\ngrpc-message:a:b\r\n"))]));
    out.push(case_of(kind, &[Ev::Data(trailers_frame(b"x:1\r\nx:2\r\ngrpc-status:0\r\n"))]));
    out.push(case_of(kind, &[Ev::Data(trailers_frame(b"grpc-message:a:b\r\n"))]));
    out.push(case_of(kind, &[Ev::Data(trailers_frame(b"x:1\r\nx:2\r\n"))]));
    // (d) body cut inside a frame header
    out.push(case_of(kind, &[Ev::Data(vec![0, 0, 0])]));
    out.push(case_of(kind, &[Ev::Data(vec![0, 0]), Ev::Data([&msg[2..], &tf0[..]].concat())]));
    // (e) body cut inside a payload
    out.push(case_of(kind, &[Ev::Data(vec![0, 0, 0, 0, 2, 9])]));
    // plain good ones
    out.push(case_of(kind, &[Ev::Data(msg.clone()), Ev::Data(tf0.clone())]));
    out.push(case_of(kind, &[Ev::Data(tf0.clone())]));
    out.push(case_of(kind, &[]));
    out.push(case_of(kind, &[Ev::Data(msg.clone())]));
    out.push(case_of(kind, &[Ev::Data(msg.clone()), Ev::Trailers(vec![(b"grpc-status".to_vec(), b"0".to_vec())])]));
    out.push(case_of(kind, &[Ev::Data(trailers_frame(b"grpc-status: 0\r\ngrpc-message: \r\n"))]));
    out.push(case_of(kind, &[Ev::Data(trailers_frame(b"Grpc-Status:0\r\n"))]));
    out.push(case_of(kind, &[Ev::Data(trailers_frame(b"grpc-status:0"))])); // unterminated line
    out.push(case_of(kind, &[Ev::Data(trailers_frame(b"nocolon\r\n"))]));
    out.push(case_of(kind, &[Ev::Data(vec![7, 0, 0, 0, 0])])); // bad flag
    out.push(case_of(kind, &[Ev::Data(vec![0x81, 0, 0, 0, 0])]));
    out.push(case_of(kind, &[Ev::Data(msg.clone()), Ev::Err]));

    // ---- structured -------------------------------------------------------------------------
    let n = if thorough { 8000 } else { 700 };
    for _ in 0..n {
        let fs = gen_frames(rng, 3, true);
        let mut tr = gen_trailers(rng);
        if header_map(&tr).is_none() {
            continue;
        }
        if rng.chance(1, 6) {
            // mixed-case names as other servers send them
            for p in tr.iter_mut() {
                if rng.chance(1, 2) {
                    p.0 = p.0.to_ascii_uppercase();
                }
            }
        }
        let sep: &[u8] = if rng.chance(1, 4) { b": " } else { b":" };
        let mut bytes = frames_bytes(&fs);
        let mlen = bytes.len();
        let with_trailers = rng.chance(9, 10);
        if with_trailers {
            bytes.extend_from_slice(&trailers_frame(&block_of(&tr, sep)));
        }
        // marks: inside every message prefix, inside the trailers header, inside the block
        let mut marks = prefix_marks(&fs);
        if with_trailers {
            for d in 0..=7 {
                marks.push(mlen + d);
            }
            for _ in 0..3 {
                marks.push(mlen + 5 + rng.below((bytes.len() - mlen - 5) as u64 + 1) as usize);
            }
            marks.push(bytes.len() - 1);
            marks.push(bytes.len() - 2);
        }
        marks.sort();
        marks.dedup();
        for ck in chunkings(&bytes, &marks, rng, 3) {
            if !thorough && rng.chance(1, 2) {
                continue;
            }
            let dens = *rng.pick(&[0u64, 0, 3]);
            let mut evs = with_pendings(&ck, rng, dens);
            if rng.chance(1, 20) {
                evs.push(Ev::Pending);
            }
            out.push(case_of(kind, &evs));
        }
        // truncation: cut the body at a random point / at every point for small bodies
        let cuts: Vec<usize> = if bytes.len() <= 40 { (0..bytes.len()).collect() } else { (0..4).map(|_| rng.below(bytes.len() as u64) as usize).collect() };
        for c in cuts {
            if !thorough && rng.chance(2, 3) {
                continue;
            }
            let ck = chunkings(&bytes[..c], &[], rng, 1).pop().unwrap();
            out.push(case_of(kind, &with_pendings(&ck, rng, 6)));
        }
    }
    // ---- small-scope exhaustive: every chunking × every truncation of small bodies ------------
    let bodies: Vec<Vec<u8>> = vec![
        [frame(0, &[7]), trailers_frame(b"a:1\r\n")].concat(),
        trailers_frame(b"a:b:c\r\n"),
        [frame(1, &[]), frame(0, &[1, 2])].concat(),
    ];
    for b in &bodies {
        for cut in 0..=b.len() {
            if !thorough && (cut > 9 && cut != b.len()) {
                continue;
            }
            let pre = &b[..cut];
            if pre.len() <= (if thorough { 13 } else { 9 }) {
                for ck in all_chunkings(pre) {
                    out.push(case_of(kind, &data_evs(&ck)));
                }
            } else {
                for ck in chunkings(pre, &(1..pre.len()).collect::<Vec<_>>(), rng, 6) {
                    out.push(case_of(kind, &data_evs(&ck)));
                }
            }
        }
    }
    // ---- malformed --------------------------------------------------------------------------
    let n = if thorough { 6000 } else { 600 };
    for _ in 0..n {
        let fs = gen_frames(rng, 3, false);
        let tr = gen_trailers(rng);
        if header_map(&tr).is_none() {
            continue;
        }
        let mut block = block_of(&tr, b":");
        match rng.below(8) {
            0 => {
                if !block.is_empty() {
                    let i = rng.below(block.len() as u64) as usize;
                    block[i] = *rng.pick(b"\r\n: \x00\x7f@A(");
                }
            }
            1 => {
                let l = block.len();
                block.truncate(l.saturating_sub(rng.range(1, 3) as usize));
            }
            2 => block.extend_from_slice(b"\r\n"),
            3 => {
                let nb = rng.below(12) as usize;
                block = rng.bytes(nb);
            }
            _ => {}
        }
        let mut bytes = frames_bytes(&fs);
        bytes.extend_from_slice(&trailers_frame(&block));
        match rng.below(8) {
            0 => {
                // flip a flag byte
                let i = 0;
                if !bytes.is_empty() {
                    bytes[i] = *rng.pick(&[2u8, 0x81, 0x7f, 0xff, 0x40]);
                }
            }
            1 => bytes.extend_from_slice(&frame(0, &[1])), // message after trailers
            2 => bytes.extend_from_slice(&trailers_frame(b"x:late\r\n")), // two trailers frames
            3 => {
                let i = rng.below(bytes.len() as u64) as usize;
                bytes[i] ^= 1 << rng.below(8);
            }
            4 => bytes.extend_from_slice(&rng.bytes(3)),
            _ => {}
        }
        let ck = chunkings(&bytes, &[], rng, 1).pop().unwrap();
        let mut evs = with_pendings(&ck, rng, 5);
        match rng.below(10) {
            0 => {
                let at = rng.below(evs.len() as u64 + 1) as usize;
                evs.insert(at, Ev::Err);
            }
            1 => evs.push(Ev::Trailers(vec![(b"grpc-status".to_vec(), b"5".to_vec()), (b"y".to_vec(), b"http".to_vec())])),
            2 => {
                let at = rng.below(evs.len() as u64 + 1) as usize;
                evs.insert(at, Ev::Trailers(vec![(b"x".to_vec(), b"early".to_vec())]));
            }
            _ => {}
        }
        out.push(case_of(kind, &evs));
    }
    // all 256 bytes in a trailer name / value position
    for b in 0u16..=255 {
        let b = b as u8;
        out.push(case_of(kind, &[Ev::Data(trailers_frame(&[b"a", &[b][..], b"z:v\r\n"].concat()))]));
        out.push(case_of(kind, &[Ev::Data(trailers_frame(&[b"k:v", &[b][..], b"w\r\n"].concat()))]));
        out.push(case_of(kind, &[Ev::Data(trailers_frame(&[b"k:", &[b][..], b"w\r\n"].concat()))]));
    }

    // ---- request wrapping -------------------------------------------------------------------
    if kind == "cl" {
        let n = if thorough { 500 } else { 60 };
        for _ in 0..n {
            let fs = gen_frames(rng, 3, false);
            let bytes = frames_bytes(&fs);
            let ck = chunkings(&bytes, &prefix_marks(&fs), rng, 1).pop().unwrap();
            let mut evs = with_pendings(&ck, rng, 4);
            match rng.below(6) {
                0 => evs.push(Ev::Err),
                1 => evs.push(Ev::Trailers(vec![(b"x".to_vec(), b"1".to_vec())])),
                _ => {}
            }
            out.push(case_of("creq", &evs));
        }
    }
    out
}
