//! C04 — dimensions added by the proactive audit (builder aC04; table in reviews/aC04-AUDIT.md).
//!
//! Case kinds (all judged by the driver against `Spec/Status`, predicted by `Model/Status`,
//! `Model/StatusClient` and the stream model `Model/Framing`):
//!
//!   cli <u|c|s|b> <m|t|n> <hint> <http> <H entries> <#ev> (D <hex> | P | T <entries>)*
//!        a real `tonic::client::Grpc` (unary / client_streaming / server_streaming / streaming)
//!        calls a scripted service that answers with HTTP status <http>, response headers H and
//!        a body of DATA chunks / Pendings / one trailers frame.  This is the path on which a
//!        client READS a status: `create_response` (grpc-status in the response HEADERS = a
//!        trailers-only response), `Streaming::new_response` / `new_empty`, the `?`s of
//!        `client_streaming`.  <api>: the stream is consumed with `message()` (m), with
//!        `trailers()` first (t) or as a `Stream` (n); it is polled once more after its end.
//!        <hint>: what the scripted body says through the optional `Body` methods — 0 nothing
//!        (defaults), 1 truthful `is_end_stream` + exact `size_hint`, 2 `size_hint` exact 0 while
//!        trailers are still to come (a `content-length: 0` response with trailers).
//!   wr <eb|su|sc|ss|sb> <k|-> <status>
//!        the WRITE side through the layers a server uses: `EncodeBody::new_server` whose source
//!        yields k messages and then `Err(status)` (eb: trailers = `Status::to_header_map`), and
//!        `server::Grpc::{unary, client_streaming, server_streaming, streaming}` whose handler
//!        fails at once (`-`: trailers-only response = `Status::into_http`) or after k messages;
//!        `re`: `service::RecoverError` around a service whose error has the status in its source
//!        chain; `ri`: a server-side interceptor (`InterceptedService`) that refuses the call.
//!        Observed: response headers, number of DATA bytes, trailers, and what
//!        `Status::from_header_map` reads back from the block that carries the status.
//!   mk <how> <status>
//!        the same status VALUE obtained in different ways (constructors, `metadata_mut`, `Clone`,
//!        `set_source`, `Status::from_error` / `try_from_error` on the boxed status and on errors
//!        that have it in their source chain, written twice, re-emitted after a round trip),
//!        then written and read back like `rt`: the way a status was made must be invisible.
use super::*;
use std::collections::VecDeque;
use std::future::Future;
use std::pin::Pin;
use std::sync::{Arc, Mutex};
use std::task::{Context, Poll};
use tonic::{Request, Response};

// ---------------------------------------------------------------------------------------------
// cli

struct XBody {
    evs: VecDeque<BEv>,
    hint: u8,
}

impl http_body::Body for XBody {
    type Data = Bytes;
    type Error = Status;
    fn poll_frame(mut self: Pin<&mut Self>, cx: &mut Context<'_>) -> Poll<Option<Result<Frame<Bytes>, Status>>> {
        match self.evs.pop_front() {
            None => Poll::Ready(None),
            Some(BEv::Pending) => {
                cx.waker().wake_by_ref();
                Poll::Pending
            }
            Some(BEv::Data(b)) => Poll::Ready(Some(Ok(Frame::data(Bytes::from(b))))),
            Some(BEv::Trailers(h)) => Poll::Ready(Some(Ok(Frame::trailers(h)))),
        }
    }
    fn is_end_stream(&self) -> bool {
        self.hint == 1 && self.evs.is_empty()
    }
    fn size_hint(&self) -> http_body::SizeHint {
        let n: u64 = self.evs.iter().map(|e| if let BEv::Data(d) = e { d.len() as u64 } else { 0 }).sum();
        match self.hint {
            1 => http_body::SizeHint::with_exact(n),
            2 if n == 0 => http_body::SizeHint::with_exact(0),
            _ => http_body::SizeHint::default(),
        }
    }
}

#[derive(Clone)]
struct Mock {
    http: http::StatusCode,
    headers: HeaderMap,
    evs: Arc<Mutex<Option<VecDeque<BEv>>>>,
    hint: u8,
}

impl tower::Service<http::Request<tonic::body::Body>> for Mock {
    type Response = http::Response<XBody>;
    type Error = Status;
    type Future = Pin<Box<dyn Future<Output = Result<Self::Response, Status>> + Send>>;
    fn poll_ready(&mut self, _cx: &mut Context<'_>) -> Poll<Result<(), Status>> {
        Poll::Ready(Ok(()))
    }
    fn call(&mut self, _req: http::Request<tonic::body::Body>) -> Self::Future {
        let evs = self.evs.lock().unwrap().take().unwrap_or_default();
        let mut resp = http::Response::new(XBody { evs, hint: self.hint });
        *resp.status_mut() = self.http;
        *resp.headers_mut() = self.headers.clone();
        Box::pin(async move { Ok(resp) })
    }
}

fn parse_evs<'a>(it: &mut impl Iterator<Item = &'a str>) -> Option<VecDeque<BEv>> {
    let nev: usize = it.next()?.parse().ok()?;
    let mut evs = VecDeque::new();
    for _ in 0..nev {
        match it.next()? {
            "D" => evs.push_back(BEv::Data(unhex(it.next()?)?)),
            "P" => evs.push_back(BEv::Pending),
            "T" => evs.push_back(BEv::Trailers(parse_entries(it)?)),
            _ => return None,
        }
    }
    Some(evs)
}

fn opt_md(t: Option<MetadataMap>) -> String {
    match t {
        None => "none".into(),
        Some(t) => format!("some {}", render_map(&t.into_headers())),
    }
}

async fn consume(mut s: Streaming<Vec<u8>>, api: &str, bound: usize) -> String {
    let mut out: Vec<String> = Vec::new();
    match api {
        "t" => {
            match s.trailers().await {
                Ok(t) => out.push(format!("tr-end {}", opt_md(t))),
                Err(e) => out.push(format!("tr-err {}", render_status(&e))),
            }
            out.push(match s.trailers().await {
                Ok(None) => "again:none".into(),
                Ok(Some(_)) => "again:some".into(),
                Err(_) => "again:err".into(),
            });
        }
        _ => {
            let mut ended = false;
            for _ in 0..bound {
                let item = if api == "n" {
                    use tokio_stream::StreamExt;
                    match s.next().await {
                        None => Ok(None),
                        Some(Ok(m)) => Ok(Some(m)),
                        Some(Err(e)) => Err(e),
                    }
                } else {
                    s.message().await
                };
                match item {
                    Ok(Some(m)) => out.push(format!("m {}", hex(&m))),
                    Ok(None) => {
                        out.push(match s.trailers().await {
                            Ok(t) => format!("end {}", opt_md(t)),
                            Err(e) => format!("end trailers-err {}", render_status(&e)),
                        });
                        ended = true;
                        break;
                    }
                    Err(st) => {
                        let after = match s.trailers().await {
                            Ok(None) => "t:none",
                            Ok(Some(_)) => "t:some",
                            Err(_) => "t:err",
                        };
                        out.push(format!("err {} {}", render_status(&st), after));
                        ended = true;
                        break;
                    }
                }
            }
            if !ended {
                out.push("no-end".into());
            }
            out.push(match s.message().await {
                Ok(None) => "again:none".into(),
                Ok(Some(_)) => "again:msg".into(),
                Err(_) => "again:err".into(),
            });
        }
    }
    out.join(" ")
}

fn cli_case<'a>(it: &mut impl Iterator<Item = &'a str>) -> String {
    let (meth, api) = match (it.next(), it.next()) {
        (Some(m), Some(a)) => (m.to_string(), a.to_string()),
        _ => return "bad-case".into(),
    };
    let hint: u8 = match it.next().and_then(|h| h.parse().ok()) {
        Some(h) => h,
        None => return "bad-case".into(),
    };
    let http = match it.next().and_then(|h| h.parse::<u16>().ok()).and_then(|h| http::StatusCode::from_u16(h).ok()) {
        Some(h) => h,
        None => return "bad-case".into(),
    };
    let headers = match parse_entries(it) {
        // `grpc-encoding` is judged before the status is looked at (C05's subject)
        Some(h) if !h.contains_key("grpc-encoding") => h,
        _ => return "bad-case".into(),
    };
    let evs = match parse_evs(it) {
        Some(e) => e,
        None => return "bad-case".into(),
    };
    let bound = evs.len() + evs.iter().map(|e| if let BEv::Data(d) = e { d.len() / 5 + 1 } else { 0 }).sum::<usize>() + 4;
    let mock = Mock { http, headers, evs: Arc::new(Mutex::new(Some(evs))), hint };
    let rt = paused_rt();
    rt.block_on(async move {
        let fut = async move {
            let mut grpc = tonic::client::Grpc::new(mock);
            if grpc.ready().await.is_err() {
                return "not-ready".to_string();
            }
            let path = http::uri::PathAndQuery::from_static("/verif.Svc/M");
            match meth.as_str() {
                "u" | "c" => {
                    let r = if meth == "u" {
                        grpc.unary(Request::new(vec![1u8, 2]), path, RawCodec).await
                    } else {
                        grpc.client_streaming(Request::new(tokio_stream::iter(vec![vec![1u8], vec![2u8, 3]])), path, RawCodec).await
                    };
                    match r {
                        Ok(resp) => {
                            let (md, m, _) = resp.into_parts();
                            format!("ok {} md {}", hex(&m), render_map(&md.into_headers()))
                        }
                        Err(st) => format!("err {}", render_status(&st)),
                    }
                }
                "s" | "b" => {
                    let r = if meth == "s" {
                        grpc.server_streaming(Request::new(vec![1u8, 2]), path, RawCodec).await
                    } else {
                        grpc.streaming(Request::new(tokio_stream::iter(vec![vec![1u8], vec![2u8, 3]])), path, RawCodec).await
                    };
                    match r {
                        Err(st) => format!("err {}", render_status(&st)),
                        Ok(resp) => {
                            let (md, s, _) = resp.into_parts();
                            format!("resp {} {}", render_map(&md.into_headers()), consume(s, &api, bound).await)
                        }
                    }
                }
                _ => "bad-case".to_string(),
            }
        };
        match tokio::time::timeout(std::time::Duration::from_secs(60), fut).await {
            Ok(s) => s,
            Err(_) => "hang".to_string(),
        }
    })
}

// ---------------------------------------------------------------------------------------------
// wr

type RespStream = Pin<Box<dyn tokio_stream::Stream<Item = Result<Vec<u8>, Status>> + Send>>;

fn failing_stream(k: usize, st: Status) -> RespStream {
    let mut items: Vec<Result<Vec<u8>, Status>> = (0..k).map(|i| Ok(vec![i as u8; i + 1])).collect();
    items.push(Err(st));
    Box::pin(tokio_stream::iter(items))
}

/// a handler that fails: at once (`k = None`) or after `k` response messages
struct Fail {
    st: Status,
    k: Option<usize>,
}

impl tonic::server::UnaryService<Vec<u8>> for Fail {
    type Response = Vec<u8>;
    type Future = Pin<Box<dyn Future<Output = Result<Response<Vec<u8>>, Status>> + Send>>;
    fn call(&mut self, _req: Request<Vec<u8>>) -> Self::Future {
        let st = self.st.clone();
        Box::pin(async move { Err(st) })
    }
}
impl tonic::server::ClientStreamingService<Vec<u8>> for Fail {
    type Response = Vec<u8>;
    type Future = Pin<Box<dyn Future<Output = Result<Response<Vec<u8>>, Status>> + Send>>;
    fn call(&mut self, _req: Request<Streaming<Vec<u8>>>) -> Self::Future {
        let st = self.st.clone();
        Box::pin(async move { Err(st) })
    }
}
impl tonic::server::ServerStreamingService<Vec<u8>> for Fail {
    type Response = Vec<u8>;
    type ResponseStream = RespStream;
    type Future = Pin<Box<dyn Future<Output = Result<Response<RespStream>, Status>> + Send>>;
    fn call(&mut self, _req: Request<Vec<u8>>) -> Self::Future {
        let (st, k) = (self.st.clone(), self.k);
        Box::pin(async move {
            match k {
                None => Err(st),
                Some(k) => Ok(Response::new(failing_stream(k, st))),
            }
        })
    }
}
impl tonic::server::StreamingService<Vec<u8>> for Fail {
    type Response = Vec<u8>;
    type ResponseStream = RespStream;
    type Future = Pin<Box<dyn Future<Output = Result<Response<RespStream>, Status>> + Send>>;
    fn call(&mut self, _req: Request<Streaming<Vec<u8>>>) -> Self::Future {
        let (st, k) = (self.st.clone(), self.k);
        Box::pin(async move {
            match k {
                None => Err(st),
                Some(k) => Ok(Response::new(failing_stream(k, st))),
            }
        })
    }
}

async fn drain<B>(body: B) -> (usize, Option<HeaderMap>, &'static str)
where
    B: http_body::Body<Data = Bytes, Error = Status>,
{
    use http_body_util::BodyExt;
    let mut body = std::pin::pin!(body);
    let (mut nd, mut tr, mut odd) = (0usize, None, "");
    for _ in 0..64 {
        match body.frame().await {
            None => return (nd, tr, odd),
            Some(Err(_)) => return (nd, tr, "body-error"),
            Some(Ok(f)) => {
                if tr.is_some() {
                    odd = "frame-after-trailers";
                }
                match f.into_data() {
                    Ok(d) => nd += d.len(),
                    Err(f) => {
                        if let Ok(t) = f.into_trailers() {
                            tr = Some(t);
                        }
                    }
                }
            }
        }
    }
    (nd, tr, "no-end")
}

fn wr_case<'a>(it: &mut impl Iterator<Item = &'a str>) -> String {
    let path = it.next().unwrap_or("").to_string();
    let k: Option<usize> = match it.next() {
        Some("-") => None,
        Some(k) => match k.parse() {
            Ok(k) => Some(k),
            Err(_) => return "bad-case".into(),
        },
        None => return "bad-case".into(),
    };
    let st = match parse_status(it) {
        Some(s) => s,
        None => return "bad-case".into(),
    };
    let rt = paused_rt();
    rt.block_on(async move {
        let fut = async move {
            let (headers, nd, tr, odd) = if path == "eb" {
                let body = tonic::codec::EncodeBody::new_server(RawEncoder, failing_stream(k.unwrap_or(0), st), None, Default::default(), None);
                let (nd, tr, odd) = drain(body).await;
                (HeaderMap::new(), nd, tr, odd)
            } else if path == "re" || path == "ri" {
                use tower::{Service, ServiceExt};
                let req = http::Request::new(tonic::body::Body::empty());
                let resp_headers = if path == "re" {
                    // `RecoverError` around a service that fails with the status as its error
                    let boxed = std::sync::Mutex::new(Some(st));
                    let inner = tower::service_fn(move |_req: http::Request<tonic::body::Body>| {
                        let st = boxed.lock().unwrap().take().expect("called once");
                        async move { Err::<http::Response<tonic::body::Body>, Box<dyn std::error::Error + Send + Sync>>(Box::new(Wrap(Box::new(st)))) }
                    });
                    let mut svc = tonic::service::RecoverError::new(inner);
                    match svc.ready().await {
                        Ok(svc) => match svc.call(req).await {
                            Ok(resp) => resp.into_parts().0.headers,
                            Err(_) => return "not-recovered".to_string(),
                        },
                        Err(_) => return "not-ready".to_string(),
                    }
                } else {
                    // a server-side interceptor that refuses the call with the status
                    let inner = tower::service_fn(|_req: http::Request<tonic::body::Body>| async move {
                        Ok::<http::Response<tonic::body::Body>, std::convert::Infallible>(http::Response::new(tonic::body::Body::empty()))
                    });
                    let mut veto = Some(st);
                    let mut svc = tonic::service::interceptor::InterceptedService::new(inner, move |_r: Request<()>| -> Result<Request<()>, Status> {
                        Err(veto.take().expect("called once"))
                    });
                    match svc.ready().await {
                        Ok(svc) => match svc.call(req).await {
                            Ok(resp) => resp.into_parts().0.headers,
                            Err(_) => return "not-answered".to_string(),
                        },
                        Err(_) => return "not-ready".to_string(),
                    }
                };
                (resp_headers, 0, None, "")
            } else {
                let mut grpc = tonic::server::Grpc::new(RawCodec);
                let mut req = http::Request::new(tonic::body::Body::new(http_body_util::Full::new(Bytes::from(vec![0u8, 0, 0, 0, 2, 1, 2]))));
                *req.method_mut() = http::Method::POST;
                let h = Fail { st, k };
                let resp = match path.as_str() {
                    "su" => grpc.unary(h, req).await,
                    "sc" => grpc.client_streaming(h, req).await,
                    "ss" => grpc.server_streaming(h, req).await,
                    "sb" => grpc.streaming(h, req).await,
                    _ => return "bad-case".to_string(),
                };
                let (parts, body) = resp.into_parts();
                let (nd, tr, odd) = drain(body).await;
                (parts.headers, nd, tr, odd)
            };
            let block = tr.as_ref().unwrap_or(&headers);
            let back = match guarded_opt(|| Status::from_header_map(block)) {
                None => "panic".to_string(),
                Some(None) => "none".to_string(),
                Some(Some(st)) => format!("st {}", render_status(&st)),
            };
            let trs = match &tr {
                None => "none".to_string(),
                Some(t) => format!("some {}", render_map(t)),
            };
            format!("hdr {} nb {} tr {} {}back {}", render_map(&headers), nd, trs, if odd.is_empty() { String::new() } else { format!("{} ", odd) }, back)
        };
        match tokio::time::timeout(std::time::Duration::from_secs(60), fut).await {
            Ok(s) => s,
            Err(_) => "hang".to_string(),
        }
    })
}

// ---------------------------------------------------------------------------------------------
// mk

#[derive(Debug)]
struct Wrap(Box<dyn std::error::Error + Send + Sync + 'static>);
impl std::fmt::Display for Wrap {
    fn fmt(&self, f: &mut std::fmt::Formatter<'_>) -> std::fmt::Result {
        write!(f, "wrapped")
    }
}
impl std::error::Error for Wrap {
    fn source(&self) -> Option<&(dyn std::error::Error + 'static)> {
        Some(&*self.0)
    }
}

fn named(code: i32, m: String) -> Status {
    match code {
        0 => Status::ok(m),
        1 => Status::cancelled(m),
        2 => Status::unknown(m),
        3 => Status::invalid_argument(m),
        4 => Status::deadline_exceeded(m),
        5 => Status::not_found(m),
        6 => Status::already_exists(m),
        7 => Status::permission_denied(m),
        8 => Status::resource_exhausted(m),
        9 => Status::failed_precondition(m),
        10 => Status::aborted(m),
        11 => Status::out_of_range(m),
        12 => Status::unimplemented(m),
        13 => Status::internal(m),
        14 => Status::unavailable(m),
        15 => Status::data_loss(m),
        _ => Status::unauthenticated(m),
    }
}

pub const MK_HOWS: u64 = 16;
/// ways that cannot carry details (`Status::new`, the named constructors, `with_metadata`)
pub fn mk_needs_no_details(how: u64) -> bool {
    matches!(how, 1 | 3 | 4)
}

fn mk_case<'a>(it: &mut impl Iterator<Item = &'a str>) -> String {
    let how: u64 = match it.next().and_then(|h| h.parse().ok()) {
        Some(h) => h,
        None => return "bad-case".into(),
    };
    let (c, m, d, md) = match (|| {
        let c: i32 = it.next()?.parse().ok()?;
        let m = String::from_utf8(unhex(it.next()?)?).ok()?;
        let d = unhex(it.next()?)?;
        let md = parse_entries(it)?;
        Some((c, m, d, md))
    })() {
        Some(x) if (0..=16).contains(&x.0) => x,
        _ => return "bad-case".into(),
    };
    if mk_needs_no_details(how) && !d.is_empty() {
        return "bad-case".into();
    }
    let base = || Status::with_details_and_metadata(Code::from_i32(c), m.clone(), Bytes::from(d.clone()), MetadataMap::from_headers(md.clone()));
    let append_all = |st: &mut Status| {
        for (k, v) in md.iter() {
            st.metadata_mut().as_mut().append(k.clone(), v.clone());
        }
    };
    let mut twice_differs = false;
    let st: Status = match how {
        0 => base(),
        1 => {
            let mut st = Status::new(Code::from_i32(c), m.clone());
            *st.metadata_mut() = MetadataMap::from_headers(md.clone());
            st
        }
        2 => {
            let mut st = Status::with_details(Code::from(c), m.clone(), Bytes::from(d.clone()));
            append_all(&mut st);
            st
        }
        3 => Status::with_metadata(Code::from_i32(c), m.as_str(), MetadataMap::from_headers(md.clone())),
        4 => {
            let mut st = named(c, m.clone());
            append_all(&mut st);
            st
        }
        5 => {
            let orig = base();
            let copy = orig.clone();
            drop(orig);
            copy
        }
        6 => {
            let mut st = base();
            st.set_source(Arc::new(std::io::Error::new(std::io::ErrorKind::BrokenPipe, "the source must not be written")));
            st
        }
        7 => Status::from_error(Box::new(base())),
        8 => Status::from_error(Box::new(Wrap(Box::new(base())))),
        9 => Status::from_error(Box::new(Wrap(Box::new(Wrap(Box::new(Wrap(Box::new(base())))))))),
        10 => match Status::try_from_error(Box::new(Wrap(Box::new(base())))) {
            Ok(st) => st,
            Err(_) => return "not-recognised".into(),
        },
        11 => match Status::try_from_error(Box::new(base())) {
            Ok(st) => st,
            Err(_) => return "not-recognised".into(),
        },
        12 => {
            // a status that has a status as its source: the outer one counts
            let mut st = base();
            st.set_source(Arc::new(Status::new(Code::DataLoss, "inner")));
            Status::from_error(Box::new(st))
        }
        13 => {
            // written twice, into two blocks: the same block both times
            let st = base();
            let (mut h1, mut h2) = (HeaderMap::new(), HeaderMap::new());
            let r1 = st.add_header(&mut h1).is_ok();
            let r2 = st.add_header(&mut h2).is_ok();
            twice_differs = r1 != r2 || render_map(&h1) != render_map(&h2);
            st
        }
        14 => {
            // re-emitted: written, read back, and the status read back is the one written below
            let mut h = HeaderMap::new();
            if base().add_header(&mut h).is_err() {
                return "enc-err".into();
            }
            match guarded_opt(|| Status::from_header_map(&h)) {
                Some(Some(st)) => st,
                Some(None) => return "first-read none".into(),
                None => return "first-read panic".into(),
            }
        }
        15 => {
            // through an `http::Response` and back out of its headers
            let resp = base().into_http::<()>();
            let mut h = resp.headers().clone();
            h.remove("content-type");
            match guarded_opt(|| Status::from_header_map(&h)) {
                Some(Some(st)) => st,
                Some(None) => return "first-read none".into(),
                None => return "first-read panic".into(),
            }
        }
        _ => return "bad-case".into(),
    };
    if twice_differs {
        return "second-write-differs".into();
    }
    let mut h = HeaderMap::new();
    if let Err(e) = st.add_header(&mut h) {
        return format!("enc-err {}", render_status(&e));
    }
    let back = match guarded_opt(|| Status::from_header_map(&h)) {
        None => "panic".to_string(),
        Some(None) => "none".to_string(),
        Some(Some(st)) => format!("st {}", render_status(&st)),
    };
    format!("wire {} back {}", render_map(&h), back)
}

pub fn execute<'a>(kind: &str, it: &mut impl Iterator<Item = &'a str>) -> Option<String> {
    match kind {
        "cli" => Some(cli_case(it)),
        "wr" => Some(wr_case(it)),
        "mk" => Some(mk_case(it)),
        _ => None,
    }
}

// ---------------------------------------------------------------------------------------------
// generation

fn fr(p: &[u8]) -> Vec<u8> {
    let mut f = vec![0u8];
    f.extend_from_slice(&(p.len() as u32).to_be_bytes());
    f.extend_from_slice(p);
    f
}

/// header / trailer blocks that carry a status in some shape
fn status_blocks() -> Vec<Vec<(Vec<u8>, Vec<u8>)>> {
    let ct = kv("content-type", b"application/grpc");
    vec![
        vec![ct.clone()],
        vec![ct.clone(), kv("x-a", b"1")],
        vec![ct.clone(), kv("grpc-status", b"0")],
        vec![ct.clone(), kv("grpc-status", b"0"), kv("grpc-message", b"fine"), kv("x-a", b"1")],
        vec![ct.clone(), kv("grpc-status", b"7"), kv("grpc-message", b"denied%21%20%C3%A9"), kv("grpc-status-details-bin", b"QUJD"), kv("x-a", b"1"), kv("x-a", b"2")],
        vec![ct.clone(), kv("grpc-status", b"5"), kv("grpc-status-details-bin", b"QUI=")],
        vec![ct.clone(), kv("grpc-status", b"16")],
        vec![kv("grpc-status", b"14"), kv("grpc-message", b"try%20later")],
        vec![ct.clone(), kv("grpc-status", b"99")],
        vec![ct.clone(), kv("grpc-status", b"+0")],
        vec![ct.clone(), kv("grpc-status", b"00")],
        vec![ct.clone(), kv("grpc-status", b"3"), kv("grpc-message", b"%FF")],
        vec![ct.clone(), kv("grpc-status", b"3"), kv("grpc-status-details-bin", b"!!!")],
        vec![ct.clone(), kv("grpc-status", b"0"), kv("grpc-message", b"%FF")],
        vec![ct.clone(), kv("grpc-message", b"no status here"), kv("grpc-status-details-bin", b"QUJD")],
        vec![ct.clone(), kv("grpc-status", b"9"), kv("grpc-status", b"0")],
        vec![ct, kv("grpc-status", b"0"), kv("grpc-status", b"9")],
    ]
}

fn cli_line(meth: &str, api: &str, hint: u64, http: u64, h: &[(Vec<u8>, Vec<u8>)], evs: &[String]) -> String {
    format!("cli {} {} {} {} {} {} {}", meth, api, hint, http, entries_tok(h), evs.len(), evs.join(" ")).trim_end().to_string()
}

/// a body of `k` well-formed messages as DATA events (chunked by `style`), then the trailers
fn body_evs(rng: &mut Rng, k: u64, style: u64, tr: Option<&[(Vec<u8>, Vec<u8>)]>) -> Vec<String> {
    let mut all: Vec<u8> = Vec::new();
    for i in 0..k {
        all.extend(fr(&vec![0x61 + i as u8; (i as usize * 3) % 5]));
    }
    let mut evs: Vec<String> = Vec::new();
    if !all.is_empty() {
        match style {
            0 => evs.push(format!("D {}", hex(&all))),
            1 => {
                let cut = rng.below(all.len() as u64 + 1) as usize;
                evs.push(format!("D {}", hex(&all[..cut])));
                evs.push("P".into());
                evs.push(format!("D {}", hex(&all[cut..])));
            }
            _ => {
                for b in &all {
                    evs.push(format!("D {}", hex(&[*b])));
                }
            }
        }
    } else if style == 1 {
        evs.push("P".into());
    }
    if let Some(t) = tr {
        evs.push(format!("T {}", entries_tok(t)));
    }
    evs
}

fn strip_encoding(es: Vec<(Vec<u8>, Vec<u8>)>) -> Vec<(Vec<u8>, Vec<u8>)> {
    es.into_iter().filter(|e| e.0 != b"grpc-encoding").collect()
}

pub fn generate(tier: &str, rng: &mut Rng, out: &mut Vec<String>) {
    let thorough = tier == "thorough";
    let blocks = status_blocks();
    const METHS: [&str; 4] = ["u", "c", "s", "b"];
    const APIS: [&str; 3] = ["m", "t", "n"];

    // ---- cli: corpus — a trailers-only error with everything in it; a proxy's 503 whose HEADERS
    // carry a grpc-status; OK in the headers; status only in the trailers; nothing anywhere
    for meth in METHS {
        out.push(cli_line(meth, "m", 1, 200, &blocks[4], &[]));
        out.push(cli_line(meth, "m", 0, 503, &blocks[4], &[]));
        out.push(cli_line(meth, "m", 0, 200, &blocks[2], &[]));
        out.push(cli_line(meth, "m", 0, 200, &blocks[0], &body_evs(rng, 1, 0, Some(&blocks[4][1..]))));
        out.push(cli_line(meth, "m", 2, 200, &blocks[0], &body_evs(rng, 0, 0, Some(&blocks[4][1..]))));
        out.push(cli_line(meth, "m", 1, 429, &blocks[0], &[]));
    }
    // every header block x every trailers block (or none) x call kind, HTTP 200 and a table row
    for (hi, h) in blocks.iter().enumerate() {
        for (ti, t) in std::iter::once(None).chain(blocks.iter().map(Some)).enumerate() {
            if !thorough && ti > 0 && (hi + ti) % 3 != 0 {
                continue;
            }
            for (mi, meth) in METHS.iter().enumerate() {
                let http = [200u64, 503, 404, 204][(hi + ti + mi) % 4];
                let k = ((hi + ti) % 3) as u64;
                let tr: Option<Vec<(Vec<u8>, Vec<u8>)>> = t.map(|t| t.iter().filter(|e| e.0 != b"content-type").cloned().collect());
                let evs = body_evs(rng, k, ((hi + mi) % 3) as u64, tr.as_deref());
                let hint = if evs.iter().any(|e| e.starts_with('D')) { ((hi + ti + mi) % 2) as u64 } else { ((hi + ti + mi) % 3) as u64 };
                out.push(cli_line(meth, APIS[(hi + ti + mi) % 3], hint, http, h, &evs));
            }
        }
    }
    // every HTTP status class through the real client, no grpc-status anywhere, every call kind and hint
    for (i, http) in [100u64, 101, 199, 201, 204, 299, 300, 302, 400, 401, 403, 404, 418, 429, 499, 500, 502, 503, 504, 599].iter().enumerate() {
        for (mi, meth) in METHS.iter().enumerate() {
            for hint in 0..3u64 {
                let tr = [None, Some(vec![kv("x-a", b"1")])][(i + mi) % 2].clone();
                out.push(cli_line(meth, APIS[(i + mi + hint as usize) % 3], hint, *http, &blocks[(i + mi) % 2], &body_evs(rng, 0, hint % 2, tr.as_deref())));
            }
        }
    }
    // random: what a peer may send in the headers / trailers of a response
    let n = if thorough { 40000 } else { 1200 };
    for _ in 0..n {
        let gen_block = |rng: &mut Rng, with_ct: bool| {
            let mut es = strip_encoding(gen_entries(rng, 3));
            if with_ct && rng.chance(5, 6) {
                es.insert(0, kv("content-type", b"application/grpc"));
            }
            if rng.chance(1, 2) {
                let pos = rng.below(es.len() as u64 + 1) as usize;
                es.insert(pos, kv("grpc-status", &gen_code_value(rng)));
            }
            if rng.chance(1, 3) {
                es.push(kv("grpc-message", &gen_wire_message(rng)));
            }
            if rng.chance(1, 4) {
                es.push(kv("grpc-status-details-bin", &gen_wire_details(rng)));
            }
            es
        };
        let h = gen_block(rng, true);
        let tr = if rng.chance(3, 4) { Some(gen_block(rng, false)) } else { None };
        let http = match rng.below(4) {
            0 | 1 => 200,
            2 => *rng.pick(&[400u64, 401, 403, 404, 429, 500, 502, 503, 504]),
            _ => rng.range(100, 599),
        };
        let k = rng.below(3);
        let style = rng.below(3);
        let evs = body_evs(rng, k, style, tr.as_deref());
        let hint = if evs.iter().any(|e| e.starts_with('D')) { rng.below(2) } else { rng.below(3) };
        let meth: &str = *rng.pick(&METHS[..]);
        let api: &str = *rng.pick(&APIS[..]);
        out.push(cli_line(meth, api, hint, http, &h, &evs));
    }

    // ---- wr: every code through every write path; then random statuses
    let paths: [(&str, Option<u64>); 11] =
        [("eb", Some(0)), ("eb", Some(2)), ("su", None), ("sc", None), ("ss", None), ("ss", Some(0)), ("ss", Some(2)), ("sb", None), ("sb", Some(1)), ("re", None), ("ri", None)];
    let ktok = |k: Option<u64>| k.map(|k| k.to_string()).unwrap_or_else(|| "-".into());
    for c in 0..=16u64 {
        for (p, k) in paths {
            out.push(format!("wr {} {} {}", p, ktok(k), status_tok(c, "é% m", &[0xf0, 0x0f, c as u8, 0xff], &[kv("x-a", b"1"), kv("x-a", b"2"), kv("x-b-bin", b"AAE")])));
        }
    }
    out.push(format!("wr eb 1 {}", status_tok(13, &big_text(32 * 1024 + 1, true), &vec![0x5a; 4097], &[kv("x-big", big_text(8 * 1024, false).as_bytes())])));
    out.push(format!("wr ss - {}", status_tok(13, &big_text(32 * 1024 + 1, true), &vec![0x5a; 4097], &[kv("x-big", big_text(8 * 1024, false).as_bytes())])));
    let n = if thorough { 30000 } else { 900 };
    for _ in 0..n {
        let (p, k) = *rng.pick(&paths);
        let k = k.map(|k| if rng.chance(1, 3) { rng.below(4) } else { k });
        out.push(format!("wr {} {} {}", p, ktok(k), status_tok(rng.below(17), &gen_message(rng), &gen_details(rng), &gen_entries(rng, 5))));
    }

    // ---- mk: every way x every code, then random statuses
    for how in 0..MK_HOWS {
        for c in 0..=16u64 {
            let det: &[u8] = if mk_needs_no_details(how) { b"" } else { &[0xde, 0xad, 0xbe, 0xef, 0x01] };
            out.push(format!("mk {} {}", how, status_tok(c, "why: é 100%", det, &[kv("x-a", b"1"), kv("x-b-bin", b"AAE"), kv("x-a", b"2")])));
        }
    }
    let n = if thorough { 30000 } else { 1000 };
    for _ in 0..n {
        let how = rng.below(MK_HOWS);
        let det = if mk_needs_no_details(how) { Vec::new() } else { gen_details(rng) };
        out.push(format!("mk {} {}", how, status_tok(rng.below(17), &gen_message(rng), &det, &gen_entries(rng, 5))));
    }
}
