//! C09, proactive dimension audit (aC09): dimensions that must be INVISIBLE to the deadline rule.
//!
//!   cx <mode> <shape> <knobs|-> <silent|routes> <own> <caller> <Endpoint::timeout ns|none> <latency ns|never>
//!     a real `Channel` against a peer that enforces nothing (as `cli`), built by another public
//!     constructor (`mode`: cwc = Endpoint::connect_with_connector, lazy = connect_with_connector_lazy,
//!     new = Channel::new, conn = Channel::connect), used through another RPC shape of
//!     `client::Grpc` (`shape`: u = unary, cs = client_streaming, ss = server_streaming, bi = streaming;
//!     streams are read to their end), with further client knobs (`knobs`: Endpoint c = concurrency_limit(1),
//!     r = rate_limit, b = buffer_size(1), o = origin, u = user_agent, k = connect_timeout, a = http2 keep-alive;
//!     Grpc z = accept_compressed, s = max message sizes, g = with_origin), the peer ending the call
//!     with a status of its own (`own`: ok | e<code>, message "own").
//!   sx <entry> <knobs|-> <own> <Server::timeout ns|none> (<header> <latency|never>)+ [/ (<header> <latency|never>)+]*
//!     ONE real `transport::Server`, one connection of a bare h2 client (as `srv`) per `/`-separated
//!     group, all accepted at the start in case order, then the requests one after the other.
//!     `entry`: svc = add_service, opt = add_optional_service, rts = add_routes, two = two services;
//!     `knobs`: d = serve_with_incoming_shutdown, r = trace_fn, g = max_connection_age (far),
//!     a = http2 keep-alive, c = concurrency_limit_per_connection(1), w = accept_http1(true),
//!     m = max_concurrent_streams(1), l = layer(Identity).
//!   runw <caller> <configured ns|none> <latency ns|never> <p ns>
//!     the `GrpcTimeout` hook under `RecoverError` as in `runl`; the response future is polled ONCE
//!     with another task's waker (a no-op waker) right after dispatch, then awaited by the harness
//!     task from `p` on: the timer must wake the task that polled LAST.
//!   cliw <silent|routes> <caller> <Endpoint::timeout ns|none> <latency ns|never> <p ns>
//!     the same on a real `Channel` (poll_ready, call; polled with the no-op waker at once and again
//!     after the buffer's worker has run; awaited from `p` on).
//! Generator only (existing kinds): ZERO deadlines through the builders and the real stacks, and VERY LONG
//! ones (>= 2^32 ms, 2^32 s, > 2^64 ns, 99999999H) against calls that answer long before.
//! observed: cx / sx: `status <code> <hex message> <t>` | `pending` (sx: one segment per request,
//! joined by ` | `); runw / cliw: as `runl`.
use super::*;
use std::future::Future;
use std::task::{Context, Poll};

fn own_code(x: &str) -> Option<Option<i32>> {
    if x == "ok" {
        Some(None)
    } else {
        x.strip_prefix('e')?.parse().ok().map(Some)
    }
}

fn status_tok(code: i32, msg: &[u8], t: u128) -> String {
    format!("status {} {} {}", code, hex(msg), t)
}

// ----- peers that end the call with a status of their own -----

#[derive(Clone)]
struct OutSvc(Option<i32>);
impl tonic::server::NamedService for OutSvc {
    const NAME: &'static str = "verif.Sleep";
}
struct OutUnary(Option<u128>, Option<i32>);
impl tonic::server::UnaryService<Vec<u8>> for OutUnary {
    type Response = Vec<u8>;
    type Future = std::pin::Pin<Box<dyn Future<Output = Result<tonic::Response<Vec<u8>>, tonic::Status>> + Send>>;
    fn call(&mut self, _r: tonic::Request<Vec<u8>>) -> Self::Future {
        let (l, own) = (self.0, self.1);
        Box::pin(async move {
            wait(l).await;
            match own {
                None => Ok(tonic::Response::new(vec![7])),
                Some(c) => Err(tonic::Status::new(tonic::Code::from(c), "own")),
            }
        })
    }
}
impl tower::Service<http::Request<tonic::body::Body>> for OutSvc {
    type Response = http::Response<tonic::body::Body>;
    type Error = std::convert::Infallible;
    type Future = std::pin::Pin<Box<dyn Future<Output = Result<Self::Response, Self::Error>> + Send>>;
    fn poll_ready(&mut self, _cx: &mut Context<'_>) -> Poll<Result<(), Self::Error>> {
        Poll::Ready(Ok(()))
    }
    fn call(&mut self, req: http::Request<tonic::body::Body>) -> Self::Future {
        let l = hdr_latency(req.headers());
        let own = self.0;
        Box::pin(async move {
            let mut grpc = tonic::server::Grpc::new(crate::c03::RawCodec);
            Ok(grpc.unary(OutUnary(l, own), req).await)
        })
    }
}

/// A second service next to the one that is called (entry `two`).
#[derive(Clone)]
struct OtherSvc;
impl tonic::server::NamedService for OtherSvc {
    const NAME: &'static str = "verif.Other";
}
impl tower::Service<http::Request<tonic::body::Body>> for OtherSvc {
    type Response = http::Response<tonic::body::Body>;
    type Error = std::convert::Infallible;
    type Future = std::pin::Pin<Box<dyn Future<Output = Result<Self::Response, Self::Error>> + Send>>;
    fn poll_ready(&mut self, _cx: &mut Context<'_>) -> Poll<Result<(), Self::Error>> {
        Poll::Ready(Ok(()))
    }
    fn call(&mut self, req: http::Request<tonic::body::Body>) -> Self::Future {
        OutSvc(Some(12)).call(req)
    }
}

async fn routes_peer_out(io: tokio::io::DuplexStream, own: Option<i32>) {
    let routes = tonic::service::Routes::new(OutSvc(own));
    let svc = hyper_util::service::TowerToHyperService::new(routes);
    let _ = hyper::server::conn::http2::Builder::new(hyper_util::rt::TokioExecutor::new())
        .timer(hyper_util::rt::TokioTimer::new())
        .serve_connection(hyper_util::rt::TokioIo::new(io), svc)
        .await;
}

/// Bare h2 server: the whole response at once after the request's latency; a status of its own
/// goes out as a trailers-only response.
async fn bare_h2_peer_out(io: tokio::io::DuplexStream, own: Option<i32>) {
    let Ok(mut conn) = h2::server::handshake(io).await else { return };
    while let Some(next) = conn.accept().await {
        let Ok((req, mut respond)) = next else { return };
        tokio::spawn(async move {
            let latency = hdr_latency(req.headers());
            let _keep_request_open = req;
            let head = http::Response::builder().status(200).header("content-type", "application/grpc");
            wait(latency).await;
            match own {
                None => {
                    let Ok(mut stream) = respond.send_response(head.body(()).unwrap(), false) else { return };
                    let _ = stream.send_data(ok_message(), false);
                    let _ = stream.send_trailers(ok_trailers());
                }
                Some(c) => {
                    let head = head.header("grpc-status", c.to_string()).header("grpc-message", "own");
                    let _ = respond.send_response(head.body(()).unwrap(), true);
                }
            }
        });
    }
}

// ----- cx -----

type BoxIo = std::pin::Pin<Box<dyn Future<Output = Result<hyper_util::rt::TokioIo<tokio::io::DuplexStream>, std::io::Error>> + Send>>;

async fn drain(mut s: tonic::Streaming<Vec<u8>>) -> Result<(), tonic::Status> {
    while s.message().await?.is_some() {}
    Ok(())
}

#[allow(clippy::too_many_arguments)]
fn cx_case(mode: &str, shape: &str, knobs: &str, peer: Peer, own: Option<i32>, c: Caller, e: Option<u128>, latency: Option<u128>) -> String {
    let mut req = tonic::Request::new(vec![1u8]);
    if !c.apply(&mut req) {
        return "not-a-header-value".into();
    }
    req.metadata_mut().insert(LAT_HDR, lat_tok(latency).parse().unwrap());
    let (mode, shape, knobs) = (mode.to_string(), shape.to_string(), knobs.to_string());
    let rt = paused_rt();
    rt.block_on(async move {
        let (cli, srv) = tokio::io::duplex(64 * 1024);
        match peer {
            Peer::Routes => drop(tokio::spawn(routes_peer_out(srv, own))),
            _ => drop(tokio::spawn(bare_h2_peer_out(srv, own))),
        }
        let mut ep = tonic::transport::Endpoint::from_static("http://[::]:50051");
        if let Some(e) = e {
            ep = ep.timeout(dur(e));
        }
        for k in knobs.chars() {
            ep = match k {
                'c' => ep.concurrency_limit(1),
                'r' => ep.rate_limit(100, Duration::from_secs(1)),
                'b' => ep.buffer_size(1),
                'o' => ep.origin("http://origin.test".parse().unwrap()),
                'u' => match ep.user_agent("verif/1") {
                    Ok(ep) => ep,
                    Err(_) => return "bad-case".to_string(),
                },
                'k' => ep.connect_timeout(Duration::from_secs(5)),
                'a' => ep
                    .http2_keep_alive_interval(Duration::from_secs(10))
                    .keep_alive_timeout(Duration::from_secs(20))
                    .keep_alive_while_idle(true),
                'z' | 's' | 'g' | '-' => ep,
                _ => return "bad-case".to_string(),
            };
        }
        let mut cli = Some(cli);
        let connector = tower::service_fn(move |_: http::Uri| -> BoxIo {
            let c = cli.take();
            Box::pin(async move { c.map(hyper_util::rt::TokioIo::new).ok_or_else(|| std::io::Error::other("used")) })
        });
        let channel = match mode.as_str() {
            "cwc" => match ep.connect_with_connector(connector).await {
                Ok(ch) => ch,
                Err(_) => return "connect-failed".to_string(),
            },
            "lazy" => ep.connect_with_connector_lazy(connector),
            "new" => tonic::transport::Channel::new(connector, ep.clone()),
            "conn" => match tonic::transport::Channel::connect(connector, ep.clone()).await {
                Ok(ch) => ch,
                Err(_) => return "connect-failed".to_string(),
            },
            _ => return "bad-case".to_string(),
        };
        let mut grpc = if knobs.contains('g') {
            tonic::client::Grpc::with_origin(channel, "http://grpc-origin.test".parse().unwrap())
        } else {
            tonic::client::Grpc::new(channel)
        };
        if knobs.contains('z') {
            grpc = grpc.accept_compressed(tonic::codec::CompressionEncoding::Gzip);
        }
        if knobs.contains('s') {
            grpc = grpc.max_decoding_message_size(1 << 20).max_encoding_message_size(1 << 20);
        }
        let fut = async {
            if grpc.ready().await.is_err() {
                return "not-ready".to_string();
            }
            let path: http::uri::PathAndQuery = "/verif.Sleep/Unary".parse().unwrap();
            let codec = crate::c03::RawCodec;
            let start = tokio::time::Instant::now();
            let r: Result<(), tonic::Status> = match shape.as_str() {
                "u" => grpc.unary(req, path, codec).await.map(|_| ()),
                "cs" => grpc.client_streaming(req.map(tokio_stream::once), path, codec).await.map(|_| ()),
                "ss" => match grpc.server_streaming(req, path, codec).await {
                    Ok(resp) => drain(resp.into_inner()).await,
                    Err(st) => Err(st),
                },
                "bi" => match grpc.streaming(req.map(tokio_stream::once), path, codec).await {
                    Ok(resp) => drain(resp.into_inner()).await,
                    Err(st) => Err(st),
                },
                _ => return "bad-case".to_string(),
            };
            let t = start.elapsed().as_nanos();
            match r {
                Ok(()) => status_tok(0, b"", t),
                Err(st) => status_tok(st.code() as i32, st.message().as_bytes(), t),
            }
        };
        match tokio::time::timeout(HORIZON, fut).await {
            Ok(o) => o,
            Err(_) => "pending".to_string(),
        }
    })
}

// ----- sx -----

/// One request of the bare h2 client, the reply's status reported as it is.
async fn h2_request_status(h2c: h2::client::SendRequest<bytes::Bytes>, hv: Vec<HeaderValue>, latency: Option<u128>) -> String {
    let fut = async {
        let Ok(mut h2c) = h2c.ready().await else { return "not-ready".to_string() };
        let mut b = http::Request::builder()
            .method("POST")
            .uri("http://localhost/verif.Sleep/Unary")
            .header("content-type", "application/grpc")
            .header("te", "trailers")
            .header(LAT_HDR, lat_tok(latency));
        for v in &hv {
            b = b.header("grpc-timeout", v.clone());
        }
        let start = tokio::time::Instant::now();
        let Ok((resp, mut send)) = h2c.send_request(b.body(()).unwrap(), false) else { return "send-failed".to_string() };
        if send.send_data(bytes::Bytes::from_static(&[0, 0, 0, 0, 1, 1]), true).is_err() {
            return "send-failed".to_string();
        }
        let resp = match resp.await {
            Ok(r) => r,
            Err(_) => return format!("reset {}", start.elapsed().as_nanos()),
        };
        let (parts, mut body) = resp.into_parts();
        let mut status = tonic::Status::from_header_map(&parts.headers);
        if status.is_none() {
            while let Some(chunk) = body.data().await {
                match chunk {
                    Ok(c) => {
                        let _ = body.flow_control().release_capacity(c.len());
                    }
                    Err(_) => return format!("reset {}", start.elapsed().as_nanos()),
                }
            }
            match body.trailers().await {
                Ok(Some(t)) => status = tonic::Status::from_header_map(&t),
                Ok(None) => return format!("no-trailers {}", start.elapsed().as_nanos()),
                Err(_) => return format!("reset {}", start.elapsed().as_nanos()),
            }
        }
        let t = start.elapsed().as_nanos();
        match status {
            Some(st) => status_tok(st.code() as i32, st.message().as_bytes(), t),
            None => format!("no-status {}", t),
        }
    };
    match tokio::time::timeout(HORIZON, fut).await {
        Ok(o) => o,
        Err(_) => "pending".to_string(),
    }
}

fn parse_conns(toks: &[&str]) -> Option<Vec<Vec<(Caller, Option<u128>)>>> {
    toks.split(|t| *t == "/").map(parse_calls).collect()
}

fn sx_case(entry: &str, knobs: &str, own: Option<i32>, s: Option<u128>, conns: Vec<Vec<(Caller, Option<u128>)>>) -> String {
    let mut reqs: Vec<Vec<(Vec<HeaderValue>, Option<u128>)>> = Vec::new();
    for conn in &conns {
        let mut v = Vec::new();
        for (h, l) in conn {
            let Some(hv) = h.by_hand() else { return "not-a-header-value".into() };
            v.push((hv, *l));
        }
        reqs.push(v);
    }
    let (entry, knobs) = (entry.to_string(), knobs.to_string());
    let rt = paused_rt();
    rt.block_on(async move {
        let mut clis = Vec::new();
        let mut srvs = Vec::new();
        for _ in 0..reqs.len() {
            let (cli, srv) = tokio::io::duplex(64 * 1024);
            clis.push(cli);
            srvs.push(Ok::<_, std::io::Error>(DuplexConn(srv)));
        }
        let incoming = {
            use tokio_stream::StreamExt;
            tokio_stream::iter(srvs).chain(tokio_stream::pending())
        };
        let mut builder = tonic::transport::Server::builder();
        if let Some(s) = s {
            builder = builder.timeout(dur(s));
        }
        for k in knobs.chars() {
            builder = match k {
                'r' => builder.trace_fn(|_| tracing::info_span!("verif")),
                'g' => builder.max_connection_age(Duration::from_secs(100_000_000)),
                'a' => builder.http2_keepalive_interval(Some(Duration::from_secs(10))).http2_keepalive_timeout(Some(Duration::from_secs(20))),
                'c' => builder.concurrency_limit_per_connection(1),
                'w' => builder.accept_http1(true),
                'm' => builder.max_concurrent_streams(Some(1)),
                'd' | 'l' | '-' => builder,
                _ => return "bad-case".to_string(),
            };
        }
        let with_signal = knobs.contains('d');
        // kept alive for the whole case: the shutdown signal never fires
        let (_stop_tx, stop_rx) = tokio::sync::oneshot::channel::<()>();
        macro_rules! serve {
            ($b:expr) => {{
                let mut b = $b;
                let router = match entry.as_str() {
                    "svc" => b.add_service(OutSvc(own)),
                    "opt" => b.add_optional_service(Some(OutSvc(own))),
                    "rts" => b.add_routes(tonic::service::Routes::new(OutSvc(own))),
                    "two" => b.add_service(OtherSvc).add_service(OutSvc(own)),
                    _ => return "bad-case".to_string(),
                };
                tokio::spawn(async move {
                    if with_signal {
                        let _ = router
                            .serve_with_incoming_shutdown(incoming, async move {
                                let _ = stop_rx.await;
                            })
                            .await;
                    } else {
                        let _ = router.serve_with_incoming(incoming).await;
                    }
                });
            }};
        }
        if knobs.contains('l') {
            serve!(builder.layer(tower_layer::Identity::new()))
        } else {
            serve!(builder)
        }
        // every connection is set up (accepted by the server, in this order) before the first request
        let mut h2s = Vec::new();
        for cli in clis {
            let Ok((h2c, conn)) = h2::client::handshake(cli).await else { return "connect-failed".to_string() };
            tokio::spawn(async move {
                let _ = conn.await;
            });
            let Ok(h2c) = h2c.ready().await else { return "not-ready".to_string() };
            h2s.push(h2c);
        }
        let mut out: Vec<String> = Vec::new();
        for (h2c, conn_reqs) in h2s.into_iter().zip(reqs) {
            for (hv, l) in conn_reqs {
                out.push(h2_request_status(h2c.clone(), hv, l).await);
            }
        }
        out.join(" | ")
    })
}

// ----- runw / cliw -----

/// Poll once on behalf of a task that will not own the future any longer.
fn poll_with_foreign_waker<F: Future + Unpin>(fut: &mut F) -> Poll<F::Output> {
    let mut cx = Context::from_waker(std::task::Waker::noop());
    std::pin::Pin::new(fut).poll(&mut cx)
}

fn runw_case(c: Caller, s: Option<u128>, latency: Option<u128>, p: u128) -> String {
    let mut treq = tonic::Request::new(());
    if !c.apply(&mut treq) {
        return "not-a-header-value".into();
    }
    let rt = paused_rt();
    rt.block_on(async move {
        let inner = tower::service_fn(move |_req: http::Request<()>| {
            let due = latency.map(|l| tokio::time::sleep(dur(l)));
            async move {
                match due {
                    Some(d) => d.await,
                    None => std::future::pending::<()>().await,
                }
                Ok::<_, tonic::Status>(http::Response::new(()))
            }
        });
        let mut svc = tonic::service::RecoverError::new(GrpcTimeoutHook::new(inner, s.map(dur)));
        let mut req = http::Request::new(());
        *req.headers_mut() = treq.metadata().clone().into_headers();
        let svc = svc.ready().await.unwrap();
        let start = tokio::time::Instant::now();
        let mut fut = Box::pin(svc.call(req));
        if poll_with_foreign_waker(&mut fut).is_ready() {
            return "first-poll-ready".to_string();
        }
        if p > 0 {
            tokio::time::sleep(dur(p)).await;
        }
        match tokio::time::timeout(HORIZON, fut).await {
            Err(_) => "pending".into(),
            Ok(Ok(resp)) => {
                let t = start.elapsed().as_nanos();
                match tonic::Status::from_header_map(resp.headers()) {
                    None => format!("inner {}", t),
                    Some(st) => format!("timeout {} {} {}", st.code() as i32, hex(st.message().as_bytes()), t),
                }
            }
            Ok(Err(e)) => {
                let st = tonic::Status::from_error(e);
                format!("unrecovered {} {} {}", st.code() as i32, hex(st.message().as_bytes()), start.elapsed().as_nanos())
            }
        }
    })
}

async fn handover_caller(mut channel: tonic::transport::Channel, headers: HeaderMap, p: u128) -> String {
    use http_body_util::BodyExt;
    use tower::Service;
    let body = tonic::body::Body::new(http_body_util::Full::new(bytes::Bytes::from_static(&[0, 0, 0, 0, 1, 1])));
    let mut req = http::Request::builder()
        .method("POST")
        .uri("http://[::]:50051/verif.Sleep/Unary")
        .header("content-type", "application/grpc")
        .header("te", "trailers")
        .body(body)
        .unwrap();
    for (k, v) in headers.iter() {
        req.headers_mut().append(k.clone(), v.clone());
    }
    let fut = async {
        if std::future::poll_fn(|cx| channel.poll_ready(cx)).await.is_err() {
            return "not-ready".to_string();
        }
        let start = tokio::time::Instant::now();
        let mut call = Box::pin(channel.call(req));
        // another task's polls: at once, and again after the buffer's worker has dispatched the request
        if poll_with_foreign_waker(&mut call).is_ready() {
            return "first-poll-ready".to_string();
        }
        for _ in 0..8 {
            tokio::task::yield_now().await;
        }
        if poll_with_foreign_waker(&mut call).is_ready() {
            return "first-poll-ready".to_string();
        }
        if p > 0 {
            tokio::time::sleep(dur(p)).await;
        }
        let status = match call.await {
            Err(e) => Some(tonic::Status::from_error(Box::new(e))),
            Ok(resp) => {
                let (parts, body) = resp.into_parts();
                match tonic::Status::from_header_map(&parts.headers) {
                    Some(st) => Some(st),
                    None => match body.collect().await {
                        Ok(c) => c.trailers().and_then(tonic::Status::from_header_map),
                        Err(st) => Some(st),
                    },
                }
            }
        };
        let t = start.elapsed().as_nanos();
        match status {
            Some(st) if st.code() == tonic::Code::Ok => format!("inner {}", t),
            Some(st) => format!("timeout {} {} {}", st.code() as i32, hex(st.message().as_bytes()), t),
            None => format!("no-status {}", t),
        }
    };
    match tokio::time::timeout(HORIZON, fut).await {
        Ok(o) => o,
        Err(_) => "pending".to_string(),
    }
}

fn cliw_case(peer: Peer, c: Caller, e: Option<u128>, latency: Option<u128>, p: u128) -> String {
    let mut treq = tonic::Request::new(());
    if !c.apply(&mut treq) {
        return "not-a-header-value".into();
    }
    let headers = treq.metadata().clone().into_headers();
    let rt = paused_rt();
    rt.block_on(async move {
        let (cli, srv) = tokio::io::duplex(64 * 1024);
        match peer {
            Peer::Routes => drop(tokio::spawn(routes_peer(srv, latency))),
            _ => drop(tokio::spawn(bare_h2_peer(srv, false, latency))),
        }
        let mut ep = tonic::transport::Endpoint::from_static("http://[::]:50051");
        if let Some(e) = e {
            ep = ep.timeout(dur(e));
        }
        let mut cli = Some(cli);
        let channel = match ep
            .connect_with_connector(tower::service_fn(move |_: http::Uri| {
                let c = cli.take();
                async move { c.map(hyper_util::rt::TokioIo::new).ok_or_else(|| std::io::Error::other("used")) }
            }))
            .await
        {
            Ok(ch) => ch,
            Err(_) => return "connect-failed".to_string(),
        };
        handover_caller(channel, headers, p).await
    })
}

// ----- dispatch -----

pub fn execute(t: &[&str]) -> Option<String> {
    Some(match t {
        ["cx", mode, shape, knobs, peer, own, c, e, l] => {
            let (Some(peer), Some(own), Some(c), Some(e), Some(l)) = (plain_peer(peer), own_code(own), caller(c), opt_ns(e), lat_ns(l)) else {
                return Some("bad-case".into());
            };
            cx_case(mode, shape, knobs, peer, own, c, e, l)
        }
        ["sx", entry, knobs, own, s, rest @ ..] => {
            let (Some(own), Some(s), Some(conns)) = (own_code(own), opt_ns(s), parse_conns(rest)) else { return Some("bad-case".into()) };
            sx_case(entry, knobs, own, s, conns)
        }
        ["runw", c, s, l, p] => {
            let (Some(c), Some(s), Some(l), Ok(p)) = (caller(c), opt_ns(s), lat_ns(l), p.parse()) else { return Some("bad-case".into()) };
            runw_case(c, s, l, p)
        }
        ["cliw", peer, c, e, l, p] => {
            let (Some(peer), Some(c), Some(e), Some(l), Ok(p)) = (plain_peer(peer), caller(c), opt_ns(e), lat_ns(l), p.parse()) else {
                return Some("bad-case".into());
            };
            cliw_case(peer, c, e, l, p)
        }
        _ => return None,
    })
}

// ----- generators -----

const MODES: [&str; 4] = ["cwc", "lazy", "new", "conn"];
const SHAPES: [&str; 4] = ["u", "cs", "ss", "bi"];

/// latencies one tick either side of every deadline in sight, a short one, a long one, never;
/// never the instant of a deadline itself.
fn lats_around(ds: &[Option<u128>]) -> Vec<Option<u128>> {
    let ms = 1_000_000u128;
    let mut lats: Vec<u128> = vec![5 * ms, 5_000 * ms];
    for t in ds.iter().flatten() {
        lats.push(*t - ms);
        lats.push(*t + ms);
    }
    lats.sort();
    lats.dedup();
    let mut v: Vec<Option<u128>> = lats.into_iter().filter(|l| !ds.iter().flatten().any(|t| t == l)).map(Some).collect();
    v.push(None);
    v
}

fn knob_set(rng: &mut Rng, letters: &[u8]) -> String {
    let mut s = String::new();
    for l in letters {
        if rng.chance(1, 3) {
            s.push(*l as char);
        }
    }
    if s.is_empty() {
        "-".into()
    } else {
        s
    }
}

pub fn generate(tier: &str, rng: &mut Rng) -> Vec<String> {
    let thorough = tier == "thorough";
    let mut out = Vec::new();
    let ms = 1_000_000u128;
    // ---- cx
    // corpus: each constructor x each shape, the caller's deadline alone / Endpoint::timeout alone
    // against a peer that never answers, and a late own error
    for mode in MODES {
        for shape in SHAPES {
            for peer in ["silent", "routes"] {
                out.push(format!("cx {mode} {shape} - {peer} ok {} none never", 300 * ms));
                out.push(format!("cx {mode} {shape} - {peer} ok none {} never", 300 * ms));
                out.push(format!("cx {mode} {shape} - {peer} e5 none {} {}", 300 * ms, 299 * ms));
                out.push(format!("cx {mode} {shape} - {peer} e5 {} {} {}", 20 * ms, 300 * ms, 21 * ms));
            }
        }
    }
    let grid: Vec<Option<u128>> = vec![None, Some(20 * ms), Some(50 * ms), Some(1000 * ms)];
    for a in &grid {
        for b in &grid {
            for l in lats_around(&[*a, *b]) {
                for mode in MODES {
                    for shape in SHAPES {
                        if !thorough && !rng.chance(1, 6) {
                            continue;
                        }
                        let peer = *rng.pick(&["silent", "routes"]);
                        let own = *rng.pick(&["ok", "ok", "e5", "e1", "e14", "e4"]);
                        let knobs = if rng.chance(1, 2) { "-".to_string() } else { knob_set(rng, b"crboukazsg") };
                        out.push(format!("cx {mode} {shape} {knobs} {peer} {own} {} {} {}", opt_tok(*a), opt_tok(*b), lat_tok(l)));
                    }
                }
            }
        }
    }
    // raw / malformed header values through the other constructors
    for v in [&b"+5S"[..], b"20m", b"00000020m", b"5X", b""] {
        for mode in ["lazy", "new", "conn"] {
            let shape = *rng.pick(&SHAPES);
            out.push(format!("cx {mode} {shape} - silent ok {} {} {}", raw_tok(&[v]), 50 * ms, 30 * ms));
            out.push(format!("cx {mode} {shape} - silent ok {} none never", raw_tok(&[v])));
        }
    }
    // ---- sx
    // corpus: the Lean witness of C09_take_on_accept_fails (in ms), and variants
    out.push(format!("sx svc - ok {} none {} / none {}", 100 * ms, 50 * ms, 350 * ms));
    out.push(format!("sx svc - ok {} none {} / none never / none {}", 100 * ms, 50 * ms, 350 * ms));
    out.push(format!("sx svc - e5 {} none {} / none {} / {} {}", 100 * ms, 350 * ms, 99 * ms, 20 * ms, 50 * ms));
    out.push(format!("sx svc - ok none {} {} / none {}", 100 * ms, 50 * ms, 350 * ms));
    for entry in ["svc", "opt", "rts", "two"] {
        for knobs in ["-", "d", "l", "dl", "r", "g", "a", "c", "w", "m", "rgacwm", "drgacwml"] {
            if !thorough && entry != "svc" && !rng.chance(1, 3) {
                continue;
            }
            out.push(format!("sx {entry} {knobs} ok {} none {} none {} / none {} {} {}", 50 * ms, 5 * ms, 51 * ms, 350 * ms, 20 * ms, 49 * ms));
            out.push(format!("sx {entry} {knobs} e5 {} none {} / none {} / none never", 50 * ms, 49 * ms, 51 * ms));
        }
    }
    let nrand = if thorough { 600 } else { 40 };
    let hdr_grid: Vec<Option<u128>> = vec![None, None, Some(20 * ms), Some(100 * ms), Some(1000 * ms)];
    for _ in 0..nrand {
        let s = *rng.pick(&[None, Some(50 * ms), Some(200 * ms)]);
        let nconn = rng.range(1, 3) as usize;
        let mut groups: Vec<String> = Vec::new();
        for _ in 0..nconn {
            let n = rng.range(1, 3) as usize;
            let mut toks: Vec<String> = Vec::new();
            for _ in 0..n {
                let h = *rng.pick(&hdr_grid);
                let ds = [h, s];
                let l = *rng.pick(&lats_around(&ds));
                // no latency of the case equals a deadline of the case (whole ms, grids are disjoint by construction)
                toks.push(format!("{} {}", opt_tok(h), lat_tok(l)));
            }
            groups.push(toks.join(" "));
        }
        let entry = *rng.pick(&["svc", "opt", "rts", "two"]);
        let knobs = knob_set(rng, b"drgacwml");
        let own = *rng.pick(&["ok", "ok", "e5", "e1", "e4"]);
        out.push(format!("sx {entry} {knobs} {own} {} {}", opt_tok(s), groups.join(" / ")));
    }
    // a latency may coincide with another request's deadline only if it is not a deadline of ITS request: filter the rest
    out.retain(|c| !c.starts_with("sx ") || sx_clean(c));
    // ---- extreme deadlines through the builders and the real stacks (existing kinds): ZERO
    // (`Server::timeout(0)`, `Endpoint::timeout(0)`, `set_timeout(0)` = "0n": cut at once, not "no
    // timeout"), and VERY LONG ones (2^32 ms = 49.7 days and up, 2^32 s, more than 2^64 ns, the
    // largest representable): a call that answers long before is not cut (latencies stay below the
    // observation horizon, so only `inner` is expected).
    let sec = 1000 * ms;
    for l in [5 * ms, 300 * ms] {
        out.push(format!("srv none 0 {l}"));
        out.push(format!("srv 0 none {l}"));
        out.push(format!("srv {} 0 {l}", 20 * ms));
        out.push(format!("cli silent none 0 {l}"));
        out.push(format!("cli silent 0 none {l}"));
        out.push(format!("cli routes 0 {} {l}", 20 * ms));
        out.push(format!("e2e none 0 none {l}"));
        out.push(format!("e2e none none 0 {l}"));
        out.push(format!("e2e 0 none none {l}"));
        out.push(format!("seq - t0 - {l}"));
        out.push(format!("seq - - t0 {l}"));
        out.push(format!("seq - t{},l,t0 k{},t0 {l}", 20 * ms, ms));
        out.push(format!("seq - t0,t{} t0,t{} {l}", 20 * ms, 20 * ms));
        out.push(format!("seq {},0 - - {l}", 20 * ms));
        out.push(format!("cx lazy u - silent ok none 0 {l}"));
        out.push(format!("cx new ss - routes e5 0 none {l}"));
        out.push(format!("sx svc - ok 0 none {l} / none {l}"));
        out.push(format!("sx rts dl e5 0 none {l} / {} {l}", 1000 * ms));
        out.push(format!("mw 0 none {l} {} {l}", 1000 * ms));
        out.push(format!("chan silent 0 none {l} {} {l}", 1000 * ms));
        out.push(format!("conn 0 none {l} {} {l}", 1000 * ms));
    }
    for never in ["srv none 0 never", "cli silent none 0 never", "cli routes 0 none never", "srv 0 none never"] {
        out.push(never.to_string());
    }
    let hour = 3600 * sec;
    // every one can also be written by hand exactly (whole S / M / H in 8 digits)
    let longs: [u128; 6] = [
        4_294_968 * sec,          // just above 2^32 ms
        8_589_935 * sec,          // just above 2^33 ms
        71_582_789 * 60 * sec,    // just above 2^32 s
        5_124_096 * hour,         // just above 2^64 ns
        27_777_000 * hour,
        99_999_999 * hour,        // the largest value the header can carry
    ];
    for d in longs {
        for l in [5 * ms, 1_000 * sec, 3_000 * sec] {
            out.push(format!("run none {d} {l}"));
            out.push(format!("run {d} none {l}"));
            out.push(format!("run {d} {d} {l}"));
            out.push(format!("srv {d} none {l}"));
            out.push(format!("srv none {d} {l}"));
            out.push(format!("cli silent {d} none {l}"));
            out.push(format!("cli routes none {d} {l}"));
            out.push(format!("seq {d} t{d} t{d} {l}"));
            if l < 3_000 * sec {
                out.push(format!("e2e {d} {d} {d} {l}"));
                out.push(format!("cx lazy bi - silent ok {d} {d} {l}"));
                out.push(format!("sx svc - ok {d} none {l} / {d} {l}"));
                out.push(format!("runl {d} {d} {l} {}", l / 2));
                out.push(format!("mw {d} none {l} {d} {l}"));
                out.push(format!("chan silent {d} none {l} {d} {l}"));
                out.push(format!("conn {d} none {l} {d} {l}"));
            }
        }
    }
    // ---- runw / cliw
    out.push(format!("runw none {} never 0", 100 * ms));
    out.push(format!("runw {} none never 0", 100 * ms));
    out.push(format!("runw none {} {} 0", 100 * ms, 350 * ms));
    out.push(format!("cliw silent none {} never 0", 100 * ms));
    out.push(format!("cliw silent {} none never 0", 100 * ms));
    out.push(format!("cliw routes none {} {} 0", 100 * ms, 350 * ms));
    let wgrid: Vec<Option<u128>> = vec![None, Some(20 * ms), Some(50 * ms)];
    for a in &wgrid {
        for b in &wgrid {
            let m = [*a, *b].into_iter().flatten().min();
            for l in lats_around(&[*a, *b]) {
                for p in busy_grid(m, l) {
                    out.push(format!("runw {} {} {} {}", opt_tok(*a), opt_tok(*b), lat_tok(l), p));
                    if racy(&[*a, *b], l, p) || (!thorough && !rng.chance(1, 3)) {
                        continue;
                    }
                    let peer = *rng.pick(&["silent", "routes"]);
                    out.push(format!("cliw {peer} {} {} {} {}", opt_tok(*a), opt_tok(*b), lat_tok(l), p));
                }
            }
        }
    }
    out
}

/// within one request of an `sx` case: its latency is none of ITS deadlines (header, Server::timeout)
fn sx_clean(case: &str) -> bool {
    let t: Vec<&str> = case.split(' ').collect();
    let s = t[4];
    let mut i = 5;
    while i + 1 < t.len() {
        if t[i] == "/" {
            i += 1;
            continue;
        }
        if t[i + 1] == t[i] || t[i + 1] == s {
            return false;
        }
        i += 2;
    }
    true
}
