//! C08, case kinds `kctor`, `vctor`, `veq`, `ferr`: every constructor and comparison of the typed
//! metadata API, and a `Status` (with metadata) travelling through `Status::from_error` /
//! `try_from_error` / `tonic::service::RecoverError` as the `source()` of other errors.
use super::{parse_typed, status_view, typed_tok, Typed};
use crate::c04::render_map;
use crate::common::*;
use bytes::Bytes;
use std::hash::{Hash, Hasher};
use std::panic::{catch_unwind, AssertUnwindSafe};
use tonic::metadata::{Ascii, Binary, MetadataKey, MetadataMap, MetadataValue};
use tonic::{Code, Status};

fn leak(s: &str) -> &'static str {
    Box::leak(s.to_string().into_boxed_str())
}

fn key_res<E>(r: Result<String, E>) -> String {
    match r {
        Ok(s) => format!("ok:{}", hex(s.as_bytes())),
        Err(_) => "err".into(),
    }
}

fn caught<T>(f: impl FnOnce() -> T) -> Option<T> {
    catch_unwind(AssertUnwindSafe(f)).ok()
}

macro_rules! kctor {
    ($ve:ty, $k:expr, $val:expr, $insert:ident, $append:ident) => {{
        let k: &[u8] = $k;
        let mut out = vec![format!("fb:{}", key_res(MetadataKey::<$ve>::from_bytes(k).map(|k| k.as_str().to_string())))];
        match std::str::from_utf8(k) {
            Err(_) => out.push("fs:nostr ps:nostr si:nostr sa:nostr".into()),
            Ok(s) => {
                let st = leak(s);
                out.push(match caught(|| MetadataKey::<$ve>::from_static(st)) {
                    Some(k) => format!("fs:ok:{}", hex(k.as_str().as_bytes())),
                    None => "fs:panic".into(),
                });
                out.push(format!("ps:{}", key_res(s.parse::<MetadataKey<$ve>>().map(|k| k.as_str().to_string()))));
                // `&'static str` as a key of insert / append (IntoMetadataKey → from_static)
                let stored = |m: &MetadataMap| {
                    let h = m.clone().into_headers();
                    let names: Vec<String> = h.keys().map(|n| hex(n.as_str().as_bytes())).collect();
                    names.join(",")
                };
                out.push(match caught(|| {
                    let mut m = MetadataMap::new();
                    m.$insert(st, $val);
                    stored(&m)
                }) {
                    Some(n) => format!("si:ok:{}", n),
                    None => "si:panic".into(),
                });
                out.push(match caught(|| {
                    let mut m = MetadataMap::new();
                    m.$append(st, $val);
                    stored(&m)
                }) {
                    Some(n) => format!("sa:ok:{}", n),
                    None => "sa:panic".into(),
                });
            }
        }
        out.join(" ")
    }};
}

fn ascii_res<E>(r: Result<MetadataValue<Ascii>, E>) -> String {
    match r {
        Err(_) => "err".into(),
        Ok(v) => format!(
            "ok:{}:{}:{}",
            hex(v.as_encoded_bytes()),
            v.to_bytes().map(|b| hex(&b)).unwrap_or_else(|_| "!".into()),
            v.to_str().map(|s| hex(s.as_bytes())).unwrap_or_else(|_| "!".into())
        ),
    }
}

fn binary_res<E>(r: Result<MetadataValue<Binary>, E>) -> String {
    match r {
        Err(_) => "err".into(),
        Ok(v) => format!("ok:{}:{}", hex(v.as_encoded_bytes()), v.to_bytes().map(|b| hex(&b)).unwrap_or_else(|_| "!".into())),
    }
}

fn hash_of<T: Hash>(v: &T) -> u64 {
    let mut h = std::collections::hash_map::DefaultHasher::new();
    v.hash(&mut h);
    h.finish()
}

#[derive(Debug)]
struct Wrap(Box<dyn std::error::Error + Send + Sync + 'static>, usize);
impl std::fmt::Display for Wrap {
    fn fmt(&self, f: &mut std::fmt::Formatter<'_>) -> std::fmt::Result {
        write!(f, "wrap{}", self.1)
    }
}
impl std::error::Error for Wrap {
    fn source(&self) -> Option<&(dyn std::error::Error + 'static)> {
        Some(&*self.0)
    }
}
#[derive(Debug)]
struct Leaf;
impl std::fmt::Display for Leaf {
    fn fmt(&self, f: &mut std::fmt::Formatter<'_>) -> std::fmt::Result {
        write!(f, "leaf")
    }
}
impl std::error::Error for Leaf {}

pub fn execute<'a>(kind: &str, it: &mut impl Iterator<Item = &'a str>) -> String {
    run(kind, it).unwrap_or_else(|| "bad-case".into())
}

fn run<'a>(kind: &str, it: &mut impl Iterator<Item = &'a str>) -> Option<String> {
    match kind {
        "kctor" => {
            let bin = it.next()? == "B";
            let k = unhex(it.next()?)?;
            Some(if bin {
                kctor!(Binary, &k, MetadataValue::<Binary>::from_bytes(b"v"), insert_bin, append_bin)
            } else {
                kctor!(Ascii, &k, MetadataValue::<Ascii>::from_static("v"), insert, append)
            })
        }
        "vctor" => {
            let bin = it.next()? == "B";
            let raw = unhex(it.next()?)?;
            let text = std::str::from_utf8(&raw).ok();
            let mut out: Vec<String> = Vec::new();
            if !bin {
                out.push(format!("sl:{}", ascii_res(MetadataValue::<Ascii>::try_from(&raw[..]))));
                out.push(format!("ve:{}", ascii_res(MetadataValue::<Ascii>::try_from(raw.clone()))));
                out.push(format!("by:{}", ascii_res(MetadataValue::<Ascii>::try_from(Bytes::from(raw.clone())))));
                match text {
                    None => out.push("st:nostr sg:nostr rs:nostr ps:nostr fs:nostr".into()),
                    Some(s) => {
                        out.push(format!("st:{}", ascii_res(MetadataValue::<Ascii>::try_from(s))));
                        out.push(format!("sg:{}", ascii_res(MetadataValue::<Ascii>::try_from(s.to_string()))));
                        let owned = s.to_string();
                        out.push(format!("rs:{}", ascii_res(MetadataValue::<Ascii>::try_from(&owned))));
                        out.push(format!("ps:{}", ascii_res(s.parse::<MetadataValue<Ascii>>())));
                        let st = leak(s);
                        out.push(match caught(|| MetadataValue::<Ascii>::from_static(st)) {
                            Some(v) => format!("fs:{}", ascii_res(Ok::<_, ()>(v))),
                            None => "fs:panic".into(),
                        });
                    }
                }
                match MetadataValue::<Ascii>::try_from(&raw[..]) {
                    Ok(v) => {
                        out.push(format!("eb:{}", (v == raw[..]) as u8));
                        out.push(format!("es:{}", text.map(|s| ((v == *s) as u8).to_string()).unwrap_or("nostr".into())));
                        out.push(format!("len:{}", v.len()));
                        out.push(format!("emp:{}", v.is_empty() as u8));
                    }
                    Err(_) => out.push("eb:- es:- len:- emp:-".into()),
                }
            } else {
                out.push(format!("fb:{}", binary_res(Ok::<_, ()>(MetadataValue::<Binary>::from_bytes(&raw)))));
                out.push(format!("sl:{}", binary_res(MetadataValue::<Binary>::try_from(&raw[..]))));
                out.push(format!("ve:{}", binary_res(MetadataValue::<Binary>::try_from(raw.clone()))));
                out.push(format!("by:{}", binary_res(MetadataValue::<Binary>::try_from(Bytes::from(raw.clone())))));
                match text {
                    None => out.push("fs:nostr".into()),
                    Some(s) => {
                        let st = leak(s);
                        out.push(match caught(|| MetadataValue::<Binary>::from_static(st)) {
                            Some(v) => format!("fs:{}", binary_res(Ok::<_, ()>(v))),
                            None => "fs:panic".into(),
                        });
                    }
                }
                let v = MetadataValue::<Binary>::from_bytes(&raw);
                out.push(format!("eb:{}", (v == raw[..]) as u8));
                out.push(format!("es:{}", text.map(|s| ((v == *s) as u8).to_string()).unwrap_or("nostr".into())));
                out.push(format!("emp:{}", v.is_empty() as u8));
            }
            Some(out.join(" "))
        }
        "veq" => {
            let bin = it.next()? == "B";
            let wa = unhex(it.next()?)?;
            let wb = unhex(it.next()?)?;
            let other = unhex(it.next()?)?;
            let (ha, hb) = match (http::HeaderValue::from_bytes(&wa), http::HeaderValue::from_bytes(&wb)) {
                (Ok(a), Ok(b)) => (a, b),
                _ => return Some("not-a-header-value".into()),
            };
            let name = if bin { "k-bin" } else { "k" };
            let mut h = http::HeaderMap::new();
            h.append(name, ha);
            h.append(name, hb);
            let m = MetadataMap::from_headers(h);
            let text = std::str::from_utf8(&other).ok();
            macro_rules! cmp {
                ($get_all:ident, $ve:ty) => {{
                    let vs: Vec<&MetadataValue<$ve>> = m.$get_all(name).iter().collect();
                    let (a, b) = (vs[0], vs[1]);
                    format!(
                        "eq:{} he:{} eo:{} es:{} ro:{}",
                        (a == b) as u8,
                        (hash_of(a) == hash_of(b)) as u8,
                        (*a == other[..]) as u8,
                        text.map(|s| ((*a == *s) as u8).to_string()).unwrap_or("nostr".into()),
                        (other[..] == *a) as u8
                    )
                }};
            }
            Some(if bin { cmp!(get_all_bin, Binary) } else { cmp!(get_all, Ascii) })
        }
        "ferr" => {
            let how = it.next()?;
            let depth: usize = it.next()?.parse().ok()?;
            let code_tok = it.next()?;
            let mut err: Box<dyn std::error::Error + Send + Sync + 'static> = if code_tok == "nostatus" {
                Box::new(Leaf)
            } else {
                let code: i32 = code_tok.parse().ok()?;
                let msg = String::from_utf8(unhex(it.next()?)?).ok()?;
                let det = unhex(it.next()?)?;
                let stmd: Typed = parse_typed(it)?;
                Box::new(Status::with_details_and_metadata(Code::from_i32(code), msg, det.into(), super::build_typed(&stmd)))
            };
            for level in 1..=depth {
                err = Box::new(Wrap(err, level));
            }
            Some(match how {
                "from" => format!("ok {}", status_view(&Status::from_error(err))),
                "try" => match Status::try_from_error(err) {
                    Ok(st) => format!("ok {}", status_view(&st)),
                    Err(_) => "none".into(),
                },
                "recover" => {
                    use tower::{Service, ServiceExt};
                    let slot = std::sync::Mutex::new(Some(err));
                    let inner = tower::service_fn(move |_req: ()| {
                        let e = slot.lock().unwrap().take();
                        async move {
                            match e {
                                Some(e) => Err::<http::Response<()>, Box<dyn std::error::Error + Send + Sync>>(e),
                                None => Ok(http::Response::new(())),
                            }
                        }
                    });
                    let mut svc = tonic::service::RecoverError::new(inner);
                    let rt = tokio::runtime::Builder::new_current_thread().build().unwrap();
                    let r = rt.block_on(async move { svc.ready().await?.call(()).await });
                    match r {
                        Err(_) => "passed".into(),
                        Ok(resp) => {
                            let st = match Status::from_header_map(resp.headers()) {
                                Some(st) => status_view(&st),
                                None => "no-status".into(),
                            };
                            format!("resp {} st {}", render_map(resp.headers()), st)
                        }
                    }
                }
                _ => return None,
            })
        }
        _ => None,
    }
}

// ---------------------------------------------------------------------------------------------
// generation

pub fn generate(thorough: bool, rng: &mut Rng, out: &mut Vec<String>) {
    // ---- key constructors: every byte in a name (from_static accepts no upper case), the suffix
    // in every position, witnesses of rev2's mutant (from_static without the suffix check)
    for e in ["A", "B"] {
        for k in ["hello-bin", "hello", "x-a", "k-bin", "K-bin", "k-BIN", "-bin", "bin", "", "a b", "te", "x-bin-x", "grpc-status-details-bin"] {
            out.push(format!("kctor {} {}", e, hex(k.as_bytes())));
        }
        for b in 0u16..=255 {
            let b = b as u8;
            out.push(format!("kctor {} {}", e, hex(&[b'x', b, b'y'])));
            out.push(format!("kctor {} {}", e, hex(&[b'x', b, b'-', b'b', b'i', b'n'])));
            for pos in 0..4 {
                let mut k = b"k-bin".to_vec();
                k[1 + pos] = b;
                out.push(format!("kctor {} {}", e, hex(&k)));
            }
        }
    }
    // ---- value constructors: every byte alone and inside a value, for both encodings
    for b in 0u16..=255 {
        let b = b as u8;
        for e in ["A", "B"] {
            out.push(format!("vctor {} {}", e, hex(&[b])));
            out.push(format!("vctor {} {}", e, hex(&[b'a', b, b'z'])));
        }
        // as a symbol of a base64 text given to Binary::from_static
        for pat in [vec![b, b'A', b'A', b'A'], vec![b'A', b'A', b'A', b], vec![b'A', b'A', b], vec![b'A', b, b'=', b'=']] {
            out.push(format!("vctor B {}", hex(&pat)));
        }
    }
    for s in ["", "v", "héllo", "a\tb", "tab\there", "\u{7f}", "AAEC", "AAE=", "AAEC=", "AA==", "AA", "A", "not base64!", "SGVsbG8", "SGVsbG8="] {
        for e in ["A", "B"] {
            out.push(format!("vctor {} {}", e, hex(s.as_bytes())));
        }
    }
    out.push(format!("vctor B {}", hex(&[0xff, 0xfe, 0x00])));
    // large values
    for n in [8192usize, 65536] {
        out.push(format!("vctor A {}", hex(&vec![b'v'; n])));
        out.push(format!("vctor B {}", hex(&(0..n).map(|i| (i * 13 + 5) as u8).collect::<Vec<u8>>())));
        out.push(format!("vctor B {}", hex(&vec![b'A'; n])));
    }
    // every length of a binary / ascii value over the sizes where encoders change strategy
    // (stack buffers, chunked base64, 3-byte groups): all of 0..=1100 (thorough: 0..=4400) and
    // the neighbourhood of every power of two and of 3/4 of it up to 64 KiB (seed C08j)
    let mut lens: Vec<usize> = (0..=if thorough { 4400 } else { 1100 }).collect();
    for sh in 10..=16u32 {
        let p = 1usize << sh;
        for base in [p, p / 4 * 3, p / 3 * 4] {
            for d in 0..=6usize {
                lens.push(base + d - 3);
            }
        }
    }
    for (i, n) in lens.into_iter().enumerate() {
        let pat: Vec<u8> = match i % 3 {
            0 => (0..n).map(|j| (j * 13 + 5 + i) as u8).collect(),
            1 => vec![0xff; n],
            _ => vec![0; n],
        };
        out.push(format!("vctor B {}", hex(&pat)));
        if n % 7 == 0 || n > 1100 {
            out.push(format!("vctor A {}", hex(&vec![b'v'; n])));
        }
    }
    let nv = if thorough { 60000 } else { 2000 };
    for _ in 0..nv {
        let bin = rng.chance(1, 2);
        let raw: Vec<u8> = match rng.below(4) {
            0 => {
                use base64::Engine;
                let v = super::gen_bin_value(rng);
                let mut w = if rng.chance(1, 2) {
                    base64::engine::general_purpose::STANDARD.encode(&v).into_bytes()
                } else {
                    base64::engine::general_purpose::STANDARD_NO_PAD.encode(&v).into_bytes()
                };
                if rng.chance(1, 4) && !w.is_empty() {
                    let i = rng.below(w.len() as u64) as usize;
                    w[i] = *rng.pick(b"ABQgw/+=-_ ");
                }
                w
            }
            1 => super::gen_bin_value(rng),
            2 => {
                let s: &str = *rng.pick(&["é %", "naïve", "日本", "a b", "x\u{80}y", "ok", "tab\t"]);
                s.as_bytes().to_vec()
            }
            _ => crate::c04::gen_value(rng),
        };
        out.push(format!("vctor {} {}", if bin { "B" } else { "A" }, hex(&raw)));
        let k = if rng.chance(1, 2) { super::gen_typed_key(rng, bin) } else { super::gen_typed_key(rng, bin).to_ascii_lowercase() };
        out.push(format!("kctor {} {}", if bin { "B" } else { "A" }, hex(&k)));
    }
    // ---- comparisons and hashing of stored values
    for (a, b, o) in [("AAEC", "AAEC", "\0\x01\x02"), ("AA==", "AA", "\0"), ("AA", "AQ", "\0"), ("!!", "??", "!!"), ("!!", "AA", "!!"), ("", "", ""), ("=", "", ""), ("abc", "abc", "abc"), ("abc", "ABC", "abc")] {
        for e in ["A", "B"] {
            out.push(format!("veq {} {} {} {}", e, hex(a.as_bytes()), hex(b.as_bytes()), hex(o.as_bytes())));
        }
    }
    let nq = if thorough { 60000 } else { 2500 };
    for _ in 0..nq {
        use base64::Engine;
        let bin = rng.chance(2, 3);
        let enc = |rng: &mut Rng, v: &[u8]| -> Vec<u8> {
            if rng.chance(1, 2) {
                base64::engine::general_purpose::STANDARD.encode(v).into_bytes()
            } else {
                base64::engine::general_purpose::STANDARD_NO_PAD.encode(v).into_bytes()
            }
        };
        let va = super::gen_bin_value(rng);
        let (wa, wb, other): (Vec<u8>, Vec<u8>, Vec<u8>) = match rng.below(5) {
            // same bytes, independently padded or not
            0 => (enc(rng, &va), enc(rng, &va), va.clone()),
            1 => {
                let vb = super::gen_bin_value(rng);
                (enc(rng, &va), enc(rng, &vb), if rng.chance(1, 2) { va.clone() } else { vb })
            }
            2 => {
                let n = rng.range(0, 6) as usize;
                let a: Vec<u8> = (0..n).map(|_| *rng.pick(b"AQgw=")).collect();
                let n = rng.range(0, 6) as usize;
                let b: Vec<u8> = (0..n).map(|_| *rng.pick(b"AQgw=")).collect();
                (a.clone(), b, if rng.chance(1, 2) { a } else { va.clone() })
            }
            3 => {
                let a = crate::c04::gen_value(rng);
                (a.clone(), if rng.chance(1, 2) { a.clone() } else { crate::c04::gen_value(rng) }, a)
            }
            _ => {
                let wa = enc(rng, &va);
                // compare the stored text with itself (a binary value is *not* equal to its own base64 text
                // unless that text decodes to itself)
                (wa.clone(), wa.clone(), wa)
            }
        };
        out.push(format!("veq {} {} {} {}", if bin { "B" } else { "A" }, hex(&wa), hex(&wb), hex(&other)));
    }
    // ---- a status in an error's source chain (seed C08c)
    let md: Typed = vec![
        (false, b"x-a".to_vec(), b"1".to_vec()),
        (true, b"k-bin".to_vec(), vec![0, 1, 2, 255]),
        (false, b"x-a".to_vec(), b"2".to_vec()),
    ];
    for how in ["from", "try", "recover"] {
        for depth in 0..=3 {
            out.push(format!("ferr {} {} 7 {} {} {}", how, depth, hex(b"denied"), hex(&[8, 1]), typed_tok(&md)));
            out.push(format!("ferr {} {} nostatus", how, depth));
        }
        // large message / details / metadata values
        let big_msg = "m".repeat(65536);
        let big: Typed = vec![(false, b"x-big".to_vec(), vec![b'v'; 65536]), (true, b"big-bin".to_vec(), (0..8192usize).map(|i| (i * 7) as u8).collect())];
        out.push(format!("ferr {} 2 13 {} {} {}", how, hex(big_msg.as_bytes()), hex(&vec![9u8; 65536]), typed_tok(&big)));
    }
    let nf = if thorough { 40000 } else { 1500 };
    for _ in 0..nf {
        let how = *rng.pick(&["from", "try", "recover"]);
        let depth = rng.below(4);
        let code = rng.below(17);
        let msg: &str = *rng.pick(&["", "boom", "é %", "a\nb"]);
        let det = if rng.chance(1, 3) { super::gen_bin_value(rng) } else { vec![] };
        let stmd = super::gen_typed(rng, 5);
        out.push(format!("ferr {} {} {} {} {} {}", how, depth, code, hex(msg.as_bytes()), hex(&det), typed_tok(&stmd)));
    }
}
