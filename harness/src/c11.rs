//! C11 — generated clients and servers agree with each other and with checked-in code.
//!
//! Runs the real generators at run time (`CodeGenBuilder` on a hand-made `tonic_build::Service`,
//! `manual::Builder`, and the prost path `configure()…compile_fds`) on generated service
//! descriptors, parses what they emit with `syn` and extracts, per method, what the client sends
//! (path literal, `GrpcMethod` literals, `Grpc::<call>`, request/response shapes and types) and
//! what the server dispatches on (match-arm literal, `*Service` trait, `grpc.<call>`, types),
//! plus `SERVICE_NAME` / `NamedService::NAME`.  `e2e` cases drive the *compiled* generated
//! clients of the build-time pool against the compiled generated servers.  `regen` runs the real
//! `codegen` binary on a scratch copy of the repo and byte-compares with the committed files.
//!
//! Case kinds: `gen`, `manual`, `prost`, `srv`, `e2e`, `regen` (this file) and, from the dimension
//! audit aC11 (`c11_x.rs`, see its header): `px` (descriptor SETS × public entry points of the prost
//! front end × the remaining builder knobs), `gx` (`CodeGenBuilder` with deprecated / commented
//! methods, attributes, `disable_comments`), `gseq` (one `CodeGenBuilder` value with a history),
//! `mx` (`manual::Builder::compile` on several services), `cseq` (compiled generated clients:
//! constructors × call histories), `cmt` (committed files against their own descriptor sets).
use crate::c10::pool::{self, Built, Ev, Handler, Reg, Wrap, POOL};
use crate::common::*;
use proc_macro2::TokenStream;
use quote::ToTokens;
use std::path::{Path, PathBuf};
use syn::visit::Visit;

/// dimension audit (aC11): case kinds `px`, `gx`, `gseq`, `mx`, `cmt` (see the header of that file)
#[path = "c11_x.rs"]
mod x;

// ---------------------------------------------------------------------------------------------
// descriptors

#[derive(Clone, Debug)]
struct MDesc {
    name: String,
    ident: String,
    cs: bool,
    ss: bool,
    input: String,
    output: String,
}

#[derive(Clone, Debug)]
struct SDesc {
    name: String,
    package: String,
    ident: String,
    methods: Vec<MDesc>,
}

impl tonic_build::Method for MDesc {
    type Comment = String;
    fn name(&self) -> &str {
        &self.name
    }
    fn identifier(&self) -> &str {
        &self.ident
    }
    fn codec_path(&self) -> &str {
        "tonic::codec::ProstCodec"
    }
    fn client_streaming(&self) -> bool {
        self.cs
    }
    fn server_streaming(&self) -> bool {
        self.ss
    }
    fn comment(&self) -> &[String] {
        &[]
    }
    /// `F:<path>`: the path as given.  `E:<base>`: an implementation that uses both arguments
    /// (what they are there for): `<proto_path>::<base>`, with `Wkt` appended when asked to compile
    /// the well-known types — so the emitted types tell which arguments each generator passed.
    fn request_response_name(&self, proto_path: &str, wkt: bool) -> (TokenStream, TokenStream) {
        let conv = |t: &str| -> TokenStream {
            let p = match t.split_at(2) {
                ("F:", path) => path.to_string(),
                ("E:", base) => format!("{proto_path}::{base}{}", if wkt { "Wkt" } else { "" }),
                _ => panic!("type token"),
            };
            syn::parse_str::<syn::Path>(&p).unwrap().to_token_stream()
        };
        (conv(&self.input), conv(&self.output))
    }
}

impl tonic_build::Service for SDesc {
    type Comment = String;
    type Method = MDesc;
    fn name(&self) -> &str {
        &self.name
    }
    fn package(&self) -> &str {
        &self.package
    }
    fn identifier(&self) -> &str {
        &self.ident
    }
    fn methods(&self) -> &[MDesc] {
        &self.methods
    }
    fn comment(&self) -> &[String] {
        &[]
    }
}

fn dash(s: &str) -> &str {
    if s.is_empty() {
        "-"
    } else {
        s
    }
}
fn undash(s: &str) -> String {
    if s == "-" {
        String::new()
    } else {
        s.to_string()
    }
}
fn fl(b: bool) -> &'static str {
    if b {
        "1"
    } else {
        "0"
    }
}

// ---------------------------------------------------------------------------------------------
// extraction from the emitted code

fn strip(ts: impl ToTokens) -> String {
    ts.to_token_stream().to_string().chars().filter(|c| !c.is_whitespace()).collect()
}

const CALLS: [&str; 4] = ["unary", "server_streaming", "client_streaming", "streaming"];

#[derive(Default, Debug)]
struct ArmInfo {
    literal: String,
    call: Vec<String>,
    svc_trait: Vec<String>,
    req: Vec<String>,
    resp: Vec<String>,
    req_stream: bool,
    resp_stream: bool,
    fns: Vec<String>,
    /// request / response message types in the signature of the server trait method the arm
    /// forwards to (filled in from the trait after the arms were read)
    trait_req: String,
    trait_resp: String,
}

struct ArmVisitor<'a>(&'a mut ArmInfo);

impl<'ast, 'a> Visit<'ast> for ArmVisitor<'a> {
    fn visit_item_impl(&mut self, i: &'ast syn::ItemImpl) {
        if let Some((_, path, _)) = &i.trait_ {
            if let Some(seg) = path.segments.last() {
                let id = seg.ident.to_string();
                if id.ends_with("Service") {
                    self.0.svc_trait.push(id);
                    if let syn::PathArguments::AngleBracketed(ab) = &seg.arguments {
                        for a in &ab.args {
                            if let syn::GenericArgument::Type(t) = a {
                                self.0.req.push(strip(t));
                            }
                        }
                    }
                    for it in &i.items {
                        match it {
                            syn::ImplItem::Type(t) if t.ident == "Response" => self.0.resp.push(strip(&t.ty)),
                            syn::ImplItem::Type(t) if t.ident == "ResponseStream" => self.0.resp_stream = true,
                            syn::ImplItem::Fn(f) if f.sig.ident == "call" => {
                                for arg in &f.sig.inputs {
                                    if let syn::FnArg::Typed(pt) = arg {
                                        if strip(&pt.ty).contains("Streaming<") {
                                            self.0.req_stream = true;
                                        }
                                    }
                                }
                            }
                            _ => {}
                        }
                    }
                }
            }
        }
        syn::visit::visit_item_impl(self, i);
    }
    fn visit_expr_path(&mut self, p: &'ast syn::ExprPath) {
        if p.qself.is_some() {
            if let Some(seg) = p.path.segments.last() {
                self.0.fns.push(seg.ident.to_string());
            }
        }
        syn::visit::visit_expr_path(self, p);
    }
    fn visit_expr_method_call(&mut self, m: &'ast syn::ExprMethodCall) {
        let name = m.method.to_string();
        if CALLS.contains(&name.as_str()) && strip(&m.receiver) == "grpc" {
            self.0.call.push(name);
        }
        syn::visit::visit_expr_method_call(self, m);
    }
}

#[derive(Default, Debug)]
struct ClientInfo {
    fname: String,
    path: Vec<String>,
    gm: Vec<(String, String)>,
    call: Vec<String>,
    req_stream: Option<bool>,
    resp_stream: Option<bool>,
    req: String,
    resp: String,
}

struct ClientVisitor<'a>(&'a mut ClientInfo);

fn lit_str(e: &syn::Expr) -> Option<String> {
    if let syn::Expr::Lit(l) = e {
        if let syn::Lit::Str(s) = &l.lit {
            return Some(s.value());
        }
    }
    None
}

impl<'ast, 'a> Visit<'ast> for ClientVisitor<'a> {
    fn visit_expr_call(&mut self, c: &'ast syn::ExprCall) {
        if let syn::Expr::Path(p) = &*c.func {
            let segs: Vec<String> = p.path.segments.iter().map(|s| s.ident.to_string()).collect();
            if segs.last().map(|s| s == "from_static").unwrap_or(false) {
                if let Some(s) = c.args.first().and_then(lit_str) {
                    self.0.path.push(s);
                }
            }
            if segs.len() >= 2 && segs[segs.len() - 2] == "GrpcMethod" && segs[segs.len() - 1] == "new" {
                let a: Vec<Option<String>> = c.args.iter().map(lit_str).collect();
                if let [Some(x), Some(y)] = a.as_slice() {
                    self.0.gm.push((x.clone(), y.clone()));
                }
            }
        }
        syn::visit::visit_expr_call(self, c);
    }
    fn visit_expr_method_call(&mut self, m: &'ast syn::ExprMethodCall) {
        let name = m.method.to_string();
        if CALLS.contains(&name.as_str()) && strip(&m.receiver) == "self.inner" {
            self.0.call.push(name);
        }
        syn::visit::visit_expr_method_call(self, m);
    }
}

fn generic_args(seg: &syn::PathSegment) -> Vec<&syn::GenericArgument> {
    match &seg.arguments {
        syn::PathArguments::AngleBracketed(ab) => ab.args.iter().collect(),
        _ => Vec::new(),
    }
}

fn client_fn(f: &syn::ImplItemFn) -> Option<ClientInfo> {
    let mut info = ClientInfo { fname: f.sig.ident.to_string(), ..Default::default() };
    ClientVisitor(&mut info).visit_block(&f.block);
    if info.path.is_empty() && info.call.is_empty() {
        return None; // a builder method (new, with_origin, send_compressed, …)
    }
    // request: impl tonic::IntoRequest<Req> | impl tonic::IntoStreamingRequest<Message = Req>
    for arg in &f.sig.inputs {
        if let syn::FnArg::Typed(pt) = arg {
            if let syn::Type::ImplTrait(it) = &*pt.ty {
                for bnd in &it.bounds {
                    if let syn::TypeParamBound::Trait(tb) = bnd {
                        if let Some(seg) = tb.path.segments.last() {
                            let id = seg.ident.to_string();
                            if id == "IntoRequest" {
                                info.req_stream = Some(false);
                            } else if id == "IntoStreamingRequest" {
                                info.req_stream = Some(true);
                            }
                            for a in generic_args(seg) {
                                match a {
                                    syn::GenericArgument::Type(t) => info.req = strip(t),
                                    syn::GenericArgument::AssocType(at) if at.ident == "Message" => info.req = strip(&at.ty),
                                    _ => {}
                                }
                            }
                        }
                    }
                }
            }
        }
    }
    // -> Result<tonic::Response<Resp | tonic::codec::Streaming<Resp>>, tonic::Status>
    if let syn::ReturnType::Type(_, ty) = &f.sig.output {
        if let syn::Type::Path(tp) = &**ty {
            if let Some(res) = tp.path.segments.last() {
                if let Some(syn::GenericArgument::Type(syn::Type::Path(rp))) = generic_args(res).first() {
                    if let Some(resp_seg) = rp.path.segments.last() {
                        if resp_seg.ident == "Response" {
                            if let Some(syn::GenericArgument::Type(inner)) = generic_args(resp_seg).first() {
                                let mut streaming = false;
                                if let syn::Type::Path(ip) = inner {
                                    if let Some(last) = ip.path.segments.last() {
                                        if last.ident == "Streaming" && ip.path.segments.len() > 1 {
                                            if let Some(syn::GenericArgument::Type(t)) = generic_args(last).first() {
                                                streaming = true;
                                                info.resp = strip(t);
                                            }
                                        }
                                    }
                                }
                                if !streaming {
                                    info.resp = strip(inner);
                                }
                                info.resp_stream = Some(streaming);
                            }
                        }
                    }
                }
            }
        }
    }
    Some(info)
}

#[derive(Default)]
struct Extracted {
    service_name: Option<String>,
    named: Option<String>,
    server: Option<Vec<ArmInfo>>,
    client: Option<Vec<ClientInfo>>,
    problems: Vec<String>,
}

/// The dispatching `match` of the generated `call`: the outermost `match` expression of the body
/// (wherever it stands: tail expression, behind a `let`, …).  What it matches *on* is not read.
struct MatchFinder<'ast>(Option<&'ast syn::ExprMatch>);
impl<'ast> Visit<'ast> for MatchFinder<'ast> {
    fn visit_expr_match(&mut self, m: &'ast syn::ExprMatch) {
        if self.0.is_none() {
            self.0 = Some(m);
        }
    }
}

fn find_match(block: &syn::Block) -> Option<&syn::ExprMatch> {
    let mut f = MatchFinder(None);
    f.visit_block(block);
    f.0
}

fn last_seg(t: &syn::Type) -> Option<&syn::PathSegment> {
    if let syn::Type::Path(tp) = t {
        tp.path.segments.last()
    } else {
        None
    }
}

fn first_type_arg(seg: &syn::PathSegment) -> Option<&syn::Type> {
    generic_args(seg).into_iter().find_map(|a| if let syn::GenericArgument::Type(t) = a { Some(t) } else { None })
}

/// `Item = Result<Y, _>` inside the bounds of `type XStream: Stream<Item = …> + …`
fn stream_item(bounds: &syn::punctuated::Punctuated<syn::TypeParamBound, syn::Token![+]>) -> Option<String> {
    for b in bounds {
        if let syn::TypeParamBound::Trait(tb) = b {
            if let Some(seg) = tb.path.segments.last() {
                for a in generic_args(seg) {
                    if let syn::GenericArgument::AssocType(at) = a {
                        if at.ident == "Item" {
                            return last_seg(&at.ty).and_then(first_type_arg).map(strip);
                        }
                    }
                }
            }
        }
    }
    None
}

/// (fn name, request message type, response message type) of every method of the server trait
fn trait_methods(t: &syn::ItemTrait) -> Vec<(String, String, String)> {
    let mut out = Vec::new();
    for it in &t.items {
        let syn::TraitItem::Fn(f) = it else { continue };
        let mut req = "none".to_string();
        let mut resp = "none".to_string();
        for arg in &f.sig.inputs {
            if let syn::FnArg::Typed(pt) = arg {
                // tonic::Request<Req> | tonic::Request<tonic::Streaming<Req>>
                if let Some(inner) = last_seg(&pt.ty).filter(|s| s.ident == "Request").and_then(first_type_arg) {
                    req = match last_seg(inner).filter(|s| s.ident == "Streaming").and_then(first_type_arg) {
                        Some(t) => strip(t),
                        None => strip(inner),
                    };
                }
            }
        }
        // Result<tonic::Response<Resp | Self::XStream | BoxStream<Resp>>, tonic::Status>
        if let syn::ReturnType::Type(_, ty) = &f.sig.output {
            if let Some(z) = last_seg(ty).and_then(first_type_arg).and_then(last_seg).filter(|s| s.ident == "Response").and_then(first_type_arg) {
                resp = strip(z);
                if let syn::Type::Path(zp) = z {
                    let segs: Vec<String> = zp.path.segments.iter().map(|s| s.ident.to_string()).collect();
                    if segs.len() == 2 && segs[0] == "Self" {
                        // associated stream type: its Item
                        for it2 in &t.items {
                            if let syn::TraitItem::Type(at) = it2 {
                                if at.ident == segs[1].as_str() {
                                    resp = stream_item(&at.bounds).unwrap_or_else(|| "none".into());
                                }
                            }
                        }
                    } else if segs.last().map(|s| s == "BoxStream").unwrap_or(false) {
                        resp = zp.path.segments.last().and_then(first_type_arg).map(strip).unwrap_or_else(|| "none".into());
                    }
                }
            }
        }
        out.push((f.sig.ident.to_string(), req, resp));
    }
    out
}

fn extract(file: &syn::File) -> Extracted {
    let mut ex = Extracted::default();
    for item in &file.items {
        let syn::Item::Mod(m) = item else { continue };
        let Some((_, items)) = &m.content else { continue };
        let mname = m.ident.to_string();
        if mname.ends_with("_server") {
            if ex.server.is_some() {
                ex.problems.push("two-server-modules".into());
            }
            let mut arms_out = Vec::new();
            let mut tmethods: Vec<(String, String, String)> = Vec::new();
            for it in items {
                match it {
                    syn::Item::Trait(t) => tmethods.extend(trait_methods(t)),
                    syn::Item::Const(c) if c.ident == "SERVICE_NAME" => {
                        ex.service_name = lit_str(&c.expr);
                    }
                    syn::Item::Impl(im) => {
                        let Some((_, path, _)) = &im.trait_ else { continue };
                        let last = path.segments.last().map(|s| s.ident.to_string()).unwrap_or_default();
                        if last == "NamedService" {
                            for ii in &im.items {
                                if let syn::ImplItem::Const(c) = ii {
                                    if c.ident == "NAME" {
                                        ex.named = Some(match lit_str(&c.expr) {
                                            Some(s) => s,
                                            None => format!("expr:{}", strip(&c.expr)),
                                        });
                                    }
                                }
                            }
                        } else if last == "Service" {
                            for ii in &im.items {
                                let syn::ImplItem::Fn(f) = ii else { continue };
                                if f.sig.ident != "call" {
                                    continue;
                                }
                                let Some(mt) = find_match(&f.block) else {
                                    ex.problems.push("no-match-in-call".into());
                                    continue;
                                };
                                for arm in &mt.arms {
                                    match &arm.pat {
                                        syn::Pat::Lit(l) => {
                                            let mut info = ArmInfo::default();
                                            if let syn::Lit::Str(s) = &l.lit {
                                                info.literal = s.value();
                                            } else {
                                                ex.problems.push("non-string-arm".into());
                                            }
                                            if arm.guard.is_some() {
                                                ex.problems.push("guarded-arm".into());
                                            }
                                            ArmVisitor(&mut info).visit_expr(&arm.body);
                                            arms_out.push(info);
                                        }
                                        syn::Pat::Wild(_) => {}
                                        other => ex.problems.push(format!("odd-arm:{}", strip(other))),
                                    }
                                }
                            }
                        }
                    }
                    _ => {}
                }
            }
            // the trait method each arm forwards to, by name
            for a in arms_out.iter_mut() {
                let hit: Vec<&(String, String, String)> = tmethods.iter().filter(|t| a.fns.len() == 1 && t.0 == a.fns[0]).collect();
                match hit.as_slice() {
                    [t] => {
                        a.trait_req = t.1.clone();
                        a.trait_resp = t.2.clone();
                    }
                    [] => {
                        a.trait_req = "no-such-trait-fn".into();
                        a.trait_resp = "no-such-trait-fn".into();
                    }
                    _ => {
                        a.trait_req = "multiple".into();
                        a.trait_resp = "multiple".into();
                    }
                }
            }
            if tmethods.len() != arms_out.len() {
                ex.problems.push(format!("trait-fns-{}-arms-{}", tmethods.len(), arms_out.len()));
            }
            ex.server = Some(arms_out);
        } else if mname.ends_with("_client") {
            if ex.client.is_some() {
                ex.problems.push("two-client-modules".into());
            }
            let mut fns = Vec::new();
            for it in items {
                if let syn::Item::Impl(im) = it {
                    if im.trait_.is_some() {
                        continue;
                    }
                    for ii in &im.items {
                        if let syn::ImplItem::Fn(f) = ii {
                            if let Some(ci) = client_fn(f) {
                                fns.push(ci);
                            }
                        }
                    }
                }
            }
            ex.client = Some(fns);
        }
    }
    // `const NAME: &str = SERVICE_NAME`
    if ex.named.as_deref() == Some("expr:SERVICE_NAME") {
        ex.named = ex.service_name.clone();
    }
    ex
}

fn one(v: &[String]) -> String {
    match v {
        [x] => tok(x),
        [] => "none".into(),
        _ => "multiple".into(),
    }
}

/// a token of the line protocol: non-empty, no whitespace
fn tok(s: &str) -> String {
    if s.is_empty() {
        "-".into()
    } else if s.chars().any(|c| c.is_whitespace()) {
        hex(s.as_bytes())
    } else {
        s.to_string()
    }
}

/// `fn_known`: print Rust fn names; otherwise print `=` when (index-wise) the client fn and the
/// trait fn the server forwards to are the same identifier, else both names.
fn render(ex: &Extracted, fn_known: bool) -> String {
    if !ex.problems.is_empty() {
        return format!("unexpected-shape {}", ex.problems.join(","));
    }
    let mut out = Vec::new();
    if ex.server.is_some() {
        out.push(format!("name {} {}", tok(ex.service_name.as_deref().unwrap_or("none")), tok(ex.named.as_deref().unwrap_or("none"))));
    } else {
        out.push("name - -".into());
    }
    let fn_tok = |k: usize, own: &str| -> String {
        if fn_known {
            return tok(own);
        }
        match (&ex.server, &ex.client) {
            (Some(s), Some(c)) => {
                let sf = s.get(k).map(|a| one(&a.fns));
                let cf = c.get(k).map(|c| c.fname.clone());
                if sf.is_some() && sf == cf {
                    "=".into()
                } else {
                    format!("{}!={}", sf.unwrap_or_default(), cf.unwrap_or_default())
                }
            }
            _ => "=".into(),
        }
    };
    match &ex.server {
        None => out.push("server -".into()),
        Some(arms) => {
            out.push(format!("server {}", arms.len()));
            for (k, a) in arms.iter().enumerate() {
                out.push(format!(
                    "{} {} {} {} {} {} {} {} {} {}",
                    tok(&a.literal),
                    one(&a.call),
                    one(&a.svc_trait),
                    fl(a.req_stream),
                    fl(a.resp_stream),
                    one(&a.req),
                    one(&a.resp),
                    tok(&a.trait_req),
                    tok(&a.trait_resp),
                    fn_tok(k, &one(&a.fns))
                ));
            }
        }
    }
    match &ex.client {
        None => out.push("client -".into()),
        Some(fns) => {
            out.push(format!("client {}", fns.len()));
            for (k, c) in fns.iter().enumerate() {
                let (gs, gm) = match c.gm.as_slice() {
                    [(a, b)] => (tok(a), tok(b)),
                    [] => ("none".into(), "none".into()),
                    _ => ("multiple".into(), "multiple".into()),
                };
                out.push(format!(
                    "{} {} {} {} {} {} {} {} {}",
                    fn_tok(k, &c.fname),
                    one(&c.path),
                    gs,
                    gm,
                    one(&c.call),
                    c.req_stream.map(fl).unwrap_or("none"),
                    c.resp_stream.map(fl).unwrap_or("none"),
                    tok(&c.req),
                    tok(&c.resp)
                ));
            }
        }
    }
    out.join(" ")
}

// ---------------------------------------------------------------------------------------------
// generators

fn tmp_dir(tag: &str) -> PathBuf {
    use std::sync::atomic::{AtomicU64, Ordering};
    static N: AtomicU64 = AtomicU64::new(0);
    let d = std::env::temp_dir().join(format!("verif-c11-{}-{}-{}", tag, std::process::id(), N.fetch_add(1, Ordering::Relaxed)));
    let _ = std::fs::remove_dir_all(&d);
    std::fs::create_dir_all(&d).unwrap();
    d
}

struct DirGuard(PathBuf);
impl Drop for DirGuard {
    fn drop(&mut self) {
        let _ = std::fs::remove_dir_all(&self.0);
    }
}

fn read_all_rs(dir: &Path) -> String {
    let mut names: Vec<PathBuf> = std::fs::read_dir(dir).unwrap().map(|e| e.unwrap().path()).collect();
    names.sort();
    let mut s = String::new();
    for p in names {
        if p.extension().map(|e| e == "rs").unwrap_or(false) {
            s.push_str(&std::fs::read_to_string(&p).unwrap());
            s.push('\n');
        }
    }
    s
}

fn parse_methods(t: &[&str], w: usize, n: usize) -> Option<Vec<Vec<String>>> {
    if t.len() != n * w {
        return None;
    }
    Some(t.chunks(w).map(|c| c.iter().map(|s| s.to_string()).collect()).collect())
}

fn run_gen(t: &[&str]) -> String {
    // gen <emit> <arc> <stubs> <transport> <sides> <wkt> <proto_path> <pkg> <name> <ident> <n> {fn ident cs ss in out}
    if t.len() < 12 {
        return "bad-case".into();
    }
    let (emit, arc, stubs, transport) = (t[1] == "1", t[2] == "1", t[3] == "1", t[4] == "1");
    let sides = t[5];
    let wkt = t[6] == "1";
    let ppath = t[7];
    let n: usize = match t[11].parse() {
        Ok(n) => n,
        Err(_) => return "bad-case".into(),
    };
    let Some(ms) = parse_methods(&t[12..], 6, n) else { return "bad-case".into() };
    if ms.iter().any(|m| !(m[4].starts_with("F:") || m[4].starts_with("E:")) || !(m[5].starts_with("F:") || m[5].starts_with("E:"))) {
        return "bad-case".into();
    }
    let svc = SDesc {
        name: t[9].to_string(),
        package: undash(t[8]),
        ident: t[10].to_string(),
        methods: ms
            .iter()
            .map(|m| MDesc { name: m[0].clone(), ident: m[1].clone(), cs: m[2] == "1", ss: m[3] == "1", input: m[4].clone(), output: m[5].clone() })
            .collect(),
    };
    let mut b = tonic_build::CodeGenBuilder::new();
    b.emit_package(emit).compile_well_known_types(wkt).use_arc_self(arc).generate_default_stubs(stubs).build_transport(transport);
    let mut ts = TokenStream::new();
    if sides != "client" {
        ts.extend(b.generate_server(&svc, ppath));
    }
    if sides != "server" {
        ts.extend(b.generate_client(&svc, ppath));
    }
    match syn::parse2::<syn::File>(ts) {
        Ok(f) => render(&extract(&f), true),
        Err(e) => format!("emitted-code-does-not-parse {}", tok(&e.to_string())),
    }
}

fn run_manual(t: &[&str]) -> String {
    // manual <transport> <sides> <pkg> <name> <n> {fn route cs ss in out}
    if t.len() < 6 {
        return "bad-case".into();
    }
    let transport = t[1] == "1";
    let sides = t[2];
    let n: usize = match t[5].parse() {
        Ok(n) => n,
        Err(_) => return "bad-case".into(),
    };
    let Some(ms) = parse_methods(&t[6..], 6, n) else { return "bad-case".into() };
    let mut sb = tonic_build::manual::Service::builder().name(t[4]).package(undash(t[3]));
    for m in &ms {
        let mut mb = tonic_build::manual::Method::builder()
            .name(&m[0])
            .route_name(&m[1])
            .input_type(&m[4])
            .output_type(&m[5])
            .codec_path("tonic::codec::ProstCodec");
        if m[2] == "1" {
            mb = mb.client_streaming();
        }
        if m[3] == "1" {
            mb = mb.server_streaming();
        }
        sb = sb.method(mb.build());
    }
    let dir = tmp_dir("manual");
    let _g = DirGuard(dir.clone());
    tonic_build::manual::Builder::new()
        .build_client(sides != "server")
        .build_server(sides != "client")
        .build_transport(transport)
        .out_dir(&dir)
        .compile(&[sb.build()]);
    match syn::parse_file(&read_all_rs(&dir)) {
        Ok(f) => render(&extract(&f), true),
        Err(e) => format!("emitted-code-does-not-parse {}", tok(&e.to_string())),
    }
}

// ---- the prost path: descriptors built from message kinds

/// A message a method can take or return:
///   L:<Msg>          message of the service's own package (`Self`, `Type`: Rust keywords)
///   N:<Outer>.<In>   nested message of the service's own package
///   O:<Msg>          message of another package (`other.v1`) of the same descriptor set
///   W:<Name>         google.protobuf.<Name>
///   X:<Msg>          message of package `ext.types` (given away by `extern_path` unless <extern> = -)
/// → fully-qualified proto name (leading dot)
fn kind_proto(pkg: &str, kind: &str) -> Option<String> {
    let (k, name) = kind.split_once(':')?;
    Some(match k {
        "L" | "N" => {
            if pkg.is_empty() {
                format!(".{name}")
            } else {
                format!(".{pkg}.{name}")
            }
        }
        "O" => format!(".other.v1.{name}"),
        "W" => format!(".google.protobuf.{name}"),
        "X" => format!(".ext.types.{name}"),
        _ => return None,
    })
}

/// Is the message compiled into the generated tree?  (Decided from the kind and the options
/// alone — the independent half of the type clause.)
fn kind_here(kind: &str, wkt: bool, ext: &str) -> bool {
    match kind.split_once(':').map(|x| x.0) {
        Some("W") => wkt,
        Some("X") => ext == "-",
        _ => true,
    }
}

fn ext_rust(ext: &str) -> Option<&'static str> {
    match ext {
        "abs" => Some("::ext_crate::types"),
        "crate" => Some("crate::ext_types"),
        _ => None,
    }
}

fn msg_tree(names: &[String]) -> Vec<prost_types::DescriptorProto> {
    // names: `A` or `A.B`
    let mut out: Vec<prost_types::DescriptorProto> = Vec::new();
    for n in names {
        let (top, nested) = match n.split_once('.') {
            Some((a, b)) => (a, Some(b)),
            None => (n.as_str(), None),
        };
        let pos = match out.iter().position(|d| d.name.as_deref() == Some(top)) {
            Some(p) => p,
            None => {
                out.push(prost_types::DescriptorProto { name: Some(top.to_string()), ..Default::default() });
                out.len() - 1
            }
        };
        if let Some(nn) = nested {
            if !out[pos].nested_type.iter().any(|d| d.name.as_deref() == Some(nn)) {
                out[pos].nested_type.push(prost_types::DescriptorProto { name: Some(nn.to_string()), ..Default::default() });
            }
        }
    }
    out
}

/// (method, cs, ss, in kind, out kind)
type PM = (String, bool, bool, String, String);

fn prost_fds(pkg: &str, service: &str, ms: &[PM]) -> prost_types::FileDescriptorSet {
    use prost_types::*;
    let mut by_pkg: std::collections::BTreeMap<&str, Vec<String>> = Default::default();
    for m in ms {
        for k in [&m.3, &m.4] {
            let (kk, name) = k.split_once(':').unwrap();
            let p = match kk {
                "L" | "N" => "",
                "O" => "other.v1",
                "W" => "google.protobuf",
                _ => "ext.types",
            };
            let v = by_pkg.entry(p).or_default();
            if !v.contains(&name.to_string()) {
                v.push(name.to_string());
            }
        }
    }
    let mut files = Vec::new();
    for (p, names) in &by_pkg {
        if p.is_empty() {
            continue;
        }
        files.push(FileDescriptorProto {
            name: Some(format!("{}.proto", p.replace('.', "/"))),
            package: Some(p.to_string()),
            message_type: msg_tree(names),
            syntax: Some("proto3".into()),
            ..Default::default()
        });
    }
    let mut local = by_pkg.get("").cloned().unwrap_or_default();
    local.sort();
    files.push(FileDescriptorProto {
        name: Some("t.proto".into()),
        package: if pkg.is_empty() { None } else { Some(pkg.to_string()) },
        dependency: files.iter().map(|f| f.name.clone().unwrap()).collect(),
        message_type: msg_tree(&local),
        service: vec![ServiceDescriptorProto {
            name: Some(service.to_string()),
            method: ms
                .iter()
                .map(|m| MethodDescriptorProto {
                    name: Some(m.0.clone()),
                    input_type: kind_proto(pkg, &m.3),
                    output_type: kind_proto(pkg, &m.4),
                    client_streaming: Some(m.1),
                    server_streaming: Some(m.2),
                    options: None,
                })
                .collect(),
            options: None,
        }],
        syntax: Some("proto3".into()),
        ..Default::default()
    });
    FileDescriptorSet { file: files }
}

/// prost-build's own answer for the message types of every method under these options: a bare
/// prost-build run (no tonic-build) with a recording service generator.
struct Recorder(std::rc::Rc<std::cell::RefCell<Vec<[String; 4]>>>);
impl prost_build::ServiceGenerator for Recorder {
    fn generate(&mut self, service: prost_build::Service, buf: &mut String) {
        // (prost-build drops a module whose buffer stayed empty and then looks it up again)
        buf.push_str("// recorded\n");
        for m in &service.methods {
            self.0.borrow_mut().push([m.input_proto_type.clone(), m.input_type.clone(), m.output_proto_type.clone(), m.output_type.clone()]);
        }
    }
}

fn prost_view(pkg: &str, service: &str, ms: &[PM], wkt: bool, ext: &str) -> Option<Vec<[String; 4]>> {
    let dir = tmp_dir("prostview");
    let _g = DirGuard(dir.clone());
    let rec = std::rc::Rc::new(std::cell::RefCell::new(Vec::new()));
    let mut cfg = prost_build::Config::new();
    cfg.out_dir(&dir).service_generator(Box::new(Recorder(rec.clone())));
    if let Some(r) = ext_rust(ext) {
        cfg.extern_path(".ext.types", r);
    }
    if wkt {
        cfg.compile_well_known_types();
    }
    cfg.compile_fds(prost_fds(pkg, service, ms)).ok()?;
    let v = rec.borrow().clone();
    Some(v)
}

fn run_prost(t: &[&str]) -> String {
    // prost <emit> <arc> <stubs> <sides> <wkt> <proto_path> <extern> <pkg> <service> <n>
    //   {method cs ss inKind inProto inRust inHere outKind outProto outRust outHere}
    if t.len() < 11 {
        return "bad-case".into();
    }
    let (emit, arc, stubs) = (t[1] == "1", t[2] == "1", t[3] == "1");
    let sides = t[4];
    let wkt = t[5] == "1";
    let ppath = t[6];
    let ext = t[7];
    let pkg = undash(t[8]);
    let n: usize = match t[10].parse() {
        Ok(n) => n,
        Err(_) => return "bad-case".into(),
    };
    let Some(raw) = parse_methods(&t[11..], 11, n) else { return "bad-case".into() };
    let ms: Vec<PM> = raw.iter().map(|m| (m[0].clone(), m[1] == "1", m[2] == "1", m[3].clone(), m[7].clone())).collect();
    // the line must state what it was made from: proto names and the compiled-here flags follow
    // from the kinds and the options
    for m in &raw {
        for (k, p, h) in [(&m[3], &m[4], &m[6]), (&m[7], &m[8], &m[10])] {
            if kind_proto(&pkg, k).as_deref() != Some(p.as_str()) || fl(kind_here(k, wkt, ext)) != h.as_str() {
                return "bad-case".into();
            }
        }
    }
    let dir = tmp_dir("prost");
    let _g = DirGuard(dir.clone());
    let mut b = tonic_build::configure()
        .out_dir(&dir)
        .emit_rerun_if_changed(false)
        .use_arc_self(arc)
        .generate_default_stubs(stubs)
        .compile_well_known_types(wkt)
        .proto_path(ppath)
        .build_client(sides != "server")
        .build_server(sides != "client");
    if let Some(r) = ext_rust(ext) {
        b = b.extern_path(".ext.types", r);
    }
    if !emit {
        b = b.disable_package_emission();
    }
    if let Err(e) = b.compile_fds(prost_fds(&pkg, t[9], &ms)) {
        return format!("generator-error {}", tok(&e.to_string()));
    }
    // (one file per package; only the one of the service's own package holds service modules)
    match syn::parse_file(&read_all_rs(&dir)) {
        Ok(f) => render(&extract(&f), false),
        Err(e) => format!("emitted-code-does-not-parse {}", tok(&e.to_string())),
    }
}

// ---------------------------------------------------------------------------------------------
// end to end through the compiled pool

fn pool_block(i: usize) -> String {
    let (pkg, name, ms) = POOL[i];
    let mut s = format!("{} {} {} {} {}", i, fl(pool::POOL_EMIT[i]), dash(pkg), name, ms.len());
    for (r, k) in ms.iter() {
        s.push_str(&format!(" {} {}", r, k));
    }
    s
}

fn e2e_line(api: &str, wrap: Wrap, reg: &[usize], i: usize, j: usize, len: usize) -> String {
    let mut s = format!("e2e {} {} {}", api, wrap.token(), reg.len());
    for &r in reg {
        s.push(' ');
        s.push_str(&pool_block(r));
    }
    s.push_str(&format!(" target {} {} {}", pool_block(i), j, len));
    s
}

/// parse one pool block, checking it against the compiled pool; returns (idx, tokens consumed)
fn take_pool_block(t: &[&str]) -> Option<(usize, usize)> {
    let i: usize = t.first()?.parse().ok()?;
    if i >= POOL.len() {
        return None;
    }
    let want = pool_block(i);
    let w: Vec<&str> = want.split(' ').collect();
    if t.len() < w.len() || t[..w.len()] != w[..] {
        return None;
    }
    Some((i, w.len()))
}

fn run_e2e(t: &[&str]) -> String {
    if t.len() < 4 {
        return "bad-case".into();
    }
    let api = t[1];
    let Some(wrap) = Wrap::parse(t[2]) else { return "bad-case".into() };
    let Ok(n) = t[3].parse::<usize>() else { return "bad-case".into() };
    let mut pos = 4;
    let mut regv = Vec::new();
    for _ in 0..n {
        let Some((i, used)) = take_pool_block(&t[pos..]) else { return "bad-case".into() };
        regv.push(i);
        pos += used;
    }
    if t.get(pos) != Some(&"target") {
        return "bad-case".into();
    }
    pos += 1;
    let Some((ti, used)) = take_pool_block(&t[pos..]) else { return "bad-case".into() };
    pos += used;
    if t.len() != pos + 2 {
        return "bad-case".into();
    }
    let (Ok(j), Ok(len)) = (t[pos].parse::<usize>(), t[pos + 1].parse::<usize>()) else { return "bad-case".into() };
    if j >= POOL[ti].2.len() || api == "server" {
        return "bad-case".into();
    }
    let h = Handler::default();
    let Some(mut reg) = Reg::new(api) else { return "bad-case".into() };
    for &i in &regv {
        pool::add(&mut reg, i, wrap, h.clone());
    }
    let Built::Routes(routes) = reg.finish() else { return "bad-case".into() };
    let rt = tokio::runtime::Builder::new_current_thread().enable_all().build().unwrap();
    let res = rt.block_on(pool::client_call(ti, j, routes, "x".repeat(len)));
    let hits: Vec<(usize, usize, usize)> = h.events().iter().filter_map(|e| if let Ev::Hit(i, j, n) = e { Some((*i, *j, *n)) } else { None }).collect();
    let hit = match hits.as_slice() {
        [] => "hit - - -".to_string(),
        [(i, j, n)] => format!("hit {} {} {}", crate::c10::full_name(*i), POOL[*i].2[*j].0, n),
        _ => "hit multiple multiple multiple".to_string(),
    };
    match res {
        Ok(v) => format!("{hit} ok {}", v.iter().map(|x| x.to_string()).collect::<Vec<_>>().join(" ")),
        Err(st) => format!("{hit} err {}", st.code() as i32),
    }
}

/// `srv <pool block> <path-hex>`: one request straight into the compiled generated server.
fn srv_line(i: usize, path: &[u8]) -> String {
    format!("srv {} {}", pool_block(i), hex(path))
}

fn valid_target(path: &[u8]) -> Option<http::Uri> {
    let uri = http::Uri::try_from(path).ok()?;
    if uri.path().as_bytes() != path {
        return None;
    }
    Some(uri)
}

fn run_srv(t: &[&str]) -> String {
    let Some((i, used)) = take_pool_block(&t[1..]) else { return "bad-case".into() };
    if t.len() != 1 + used + 1 {
        return "bad-case".into();
    }
    let Some(path) = unhex(t[1 + used]) else { return "bad-case".into() };
    let Some(uri) = valid_target(&path) else { return "bad-case".into() };
    let h = Handler::default();
    let body = tonic::body::Body::new(http_body_util::Full::new(bytes::Bytes::from_static(&[0, 0, 0, 0, 0])));
    let req = http::Request::builder()
        .method("POST")
        .uri(uri)
        .version(http::Version::HTTP_2)
        .header("content-type", "application/grpc")
        .header("te", "trailers")
        .body(body)
        .unwrap();
    let rt = tokio::runtime::Builder::new_current_thread().enable_all().build().unwrap();
    let h2 = h.clone();
    let (parts, trailers) = rt.block_on(async move {
        use http_body_util::BodyExt;
        let res = pool::direct_call(i, h2, req).await;
        let (parts, body) = res.into_parts();
        let trailers = body.collect().await.ok().and_then(|c| c.trailers().cloned());
        (parts, trailers)
    });
    let status = parts
        .headers
        .get("grpc-status")
        .or_else(|| trailers.as_ref().and_then(|t| t.get("grpc-status")))
        .and_then(|v| v.to_str().ok())
        .map(|s| s.to_string())
        .unwrap_or_else(|| "none".into());
    let hits: Vec<(usize, usize)> = h.events().iter().filter_map(|e| if let Ev::Hit(i, j, _) = e { Some((*i, *j)) } else { None }).collect();
    let hit = match hits.as_slice() {
        [] => "hit - -".to_string(),
        [(i, j)] => format!("hit {} {}", crate::c10::full_name(*i), POOL[*i].2[*j].0),
        _ => "hit multiple multiple".to_string(),
    };
    let ct = match parts.headers.get("content-type").map(|v| v.to_str()) {
        None => "none".to_string(),
        Some(Ok(s)) if !s.is_empty() && !s.contains(' ') => s.to_string(),
        Some(_) => "unprintable".to_string(),
    };
    format!("{hit} status {status} http {} ct {ct}", parts.status.as_u16())
}

// ---------------------------------------------------------------------------------------------
// regeneration clause

fn repo_dir() -> PathBuf {
    match std::env::var_os("VERIF_REPO") {
        Some(p) => PathBuf::from(p),
        None => Path::new(env!("CARGO_MANIFEST_DIR")).join("../../repo"),
    }
}

fn files_under(root: &Path) -> Vec<PathBuf> {
    let mut out = Vec::new();
    let mut stack = vec![root.to_path_buf()];
    while let Some(d) = stack.pop() {
        let Ok(rd) = std::fs::read_dir(&d) else { continue };
        for e in rd.flatten() {
            let p = e.path();
            if p.is_dir() {
                if p.file_name().map(|n| n == "target").unwrap_or(false) {
                    continue;
                }
                stack.push(p);
            } else {
                out.push(p.strip_prefix(root).unwrap().to_path_buf());
            }
        }
    }
    out.sort();
    out
}

fn write_if_changed(dst: &Path, content: &[u8]) {
    if std::fs::read(dst).map(|c| c == content).unwrap_or(false) {
        return;
    }
    if let Some(p) = dst.parent() {
        let _ = std::fs::create_dir_all(p);
    }
    std::fs::write(dst, content).unwrap();
}

/// Make `dst` an exact copy of `src` touching only files whose content differs (so cargo's
/// mtime fingerprints stay valid between runs).
fn sync_dir(src: &Path, dst: &Path) {
    let want = files_under(src);
    for rel in &want {
        write_if_changed(&dst.join(rel), &std::fs::read(src.join(rel)).unwrap());
    }
    for rel in files_under(dst) {
        if !want.contains(&rel) {
            let _ = std::fs::remove_file(dst.join(rel));
        }
    }
}

const GEN_CRATES: [&str; 3] = ["tonic-health", "tonic-reflection", "tonic-types"];

fn run_regen() -> String {
    let repo = repo_dir();
    if !repo.join("codegen/src/main.rs").exists() {
        return "regen-failed no-codegen-crate".into();
    }
    // fixed scratch location inside the harness's (git-ignored) target dir: the codegen binary
    // is rebuilt only when codegen/ or tonic-build/ changed
    let scratch = Path::new(env!("CARGO_MANIFEST_DIR")).join("target").join("c11-regen");
    std::fs::create_dir_all(&scratch).unwrap();
    sync_dir(&repo.join("codegen"), &scratch.join("codegen"));
    sync_dir(&repo.join("tonic-build"), &scratch.join("tonic-build"));
    for c in GEN_CRATES {
        sync_dir(&repo.join(c).join("proto"), &scratch.join(c).join("proto"));
        let g = scratch.join(c).join("src/generated");
        let _ = std::fs::remove_dir_all(&g);
        std::fs::create_dir_all(&g).unwrap();
    }
    // the repo's workspace manifest restricted to the two crates the generator needs
    let root = std::fs::read_to_string(repo.join("Cargo.toml")).unwrap();
    let Some(a) = root.find("members = [") else { return "regen-failed workspace-manifest-shape".into() };
    let Some(b) = root[a..].find(']').map(|k| a + k) else { return "regen-failed workspace-manifest-shape".into() };
    let manifest = format!("{}members = [\"codegen\", \"tonic-build\"{}", &root[..a], &root[b..]);
    write_if_changed(&scratch.join("Cargo.toml"), manifest.as_bytes());
    write_if_changed(&scratch.join(".cargo/config.toml"), b"[net]\noffline = true\n");
    if !scratch.join("Cargo.lock").exists() {
        let lock = Path::new(env!("CARGO_MANIFEST_DIR")).join("Cargo.lock");
        std::fs::copy(lock, scratch.join("Cargo.lock")).unwrap();
    }
    // The generator run is a child `cargo run`; a transient failure of that process (killed,
    // resource hiccup — seen once as "exit != 0 with empty stderr" on a loaded machine) must not be
    // reported as a property violation, so it is retried before giving up.
    let mut failure = String::new();
    let mut ok = false;
    for attempt in 0..3 {
        if attempt > 0 {
            std::thread::sleep(std::time::Duration::from_secs(2));
        }
        let out = std::process::Command::new("cargo")
            .args(["run", "-p", "codegen", "--offline", "--quiet"])
            .current_dir(&scratch)
            .stdin(std::process::Stdio::null())
            .env("CARGO_TARGET_DIR", scratch.join("target"))
            .env("CARGO_NET_OFFLINE", "true")
            .env_remove("RUSTFLAGS")
            .output();
        match out {
            Err(e) => failure = format!("regen-failed {}", tok(&e.to_string())),
            Ok(o) if !o.status.success() => {
                let err = String::from_utf8_lossy(&o.stderr);
                let last = err.lines().rev().find(|l| !l.trim().is_empty()).unwrap_or("");
                failure = format!("regen-failed {} status{}", hex(last.as_bytes()), o.status.code().map(|c| c.to_string()).unwrap_or_else(|| "signal".into()));
            }
            Ok(_) => {
                ok = true;
                break;
            }
        }
    }
    if !ok {
        return failure;
    }
    let mut res: Vec<String> = Vec::new();
    for c in GEN_CRATES {
        let committed = repo.join(c).join("src/generated");
        let fresh = scratch.join(c).join("src/generated");
        let mut names: Vec<PathBuf> = files_under(&committed);
        for f in files_under(&fresh) {
            if !names.contains(&f) {
                names.push(f);
            }
        }
        names.sort();
        for f in names {
            let a = std::fs::read(committed.join(&f));
            let b = std::fs::read(fresh.join(&f));
            let verdict = match (a, b) {
                (Ok(a), Ok(b)) if a == b => "same".to_string(),
                (Ok(a), Ok(b)) => {
                    let la: Vec<&[u8]> = a.split(|x| *x == b'\n').collect();
                    let lb: Vec<&[u8]> = b.split(|x| *x == b'\n').collect();
                    let k = la.iter().zip(lb.iter()).position(|(x, y)| x != y).unwrap_or(la.len().min(lb.len()));
                    format!("differs-at-line-{}", k + 1)
                }
                (Ok(_), Err(_)) => "not-regenerated".to_string(),
                (Err(_), Ok(_)) => "not-committed".to_string(),
                _ => "unreadable".to_string(),
            };
            res.push(format!("{}/{}={}", c, f.display(), verdict));
        }
    }
    res.sort();
    format!("files {} {}", res.len(), res.join(" "))
}

// ---------------------------------------------------------------------------------------------
// generation of cases

const MANUAL_ODD_PACKAGES: [&str; 5] = [".helloworld", ".my.protos", "a.", "a..b", ".."];
const PACKAGES: [&str; 9] = ["", "a", "a.b", "grpc.health.v1", "A", "a.S", "my_pkg.v1", "x1.y2.z3", "pkg"];
const SVC_NAMES: [&str; 10] = ["Greeter", "S", "s", "Health", "My_Service", "S1", "greeter", "ServerReflection", "X", "Svc"];
// (rust fn, proto ident)
const METHODS: [(&str, &str); 16] = [
    ("say_hello", "SayHello"),
    ("m", "M"),
    ("mx", "Mx"),
    ("check", "Check"),
    ("watch", "Watch"),
    ("get", "GET"),
    ("do2", "Do2"),
    ("snake_case", "snake_case"),
    ("lower", "lower"),
    ("a", "A"),
    ("type_", "Type"),
    ("match_", "Match"),
    ("self_", "Self"),
    ("x_1", "X_1"),
    ("server_reflection_info", "ServerReflectionInfo"),
    ("unary_call", "unaryCall"),
];
const TYPES: [&str; 10] = [
    "F:super::Req", "F:super::Resp", "F:crate::pb::HelloRequest", "F:crate::pb::HelloReply", "F:Msg1", "F:super::super::other::Empty2",
    "E:Req", "E:pb::Reply", "E:Empty", "E:r#type::Inner",
];
const MANUAL_TYPES: [&str; 6] = ["super::Req", "super::Resp", "crate::pb::HelloRequest", "crate::pb::HelloReply", "Msg1", "super::super::other::Empty2"];
/// message kinds of the prost path (see `kind_proto`)
const KINDS: [&str; 18] = [
    "L:Req", "L:Resp", "L:HelloRequest", "L:Self", "L:Type", "L:lower_case", "N:Outer.Inner", "N:Type.Inner", "N:HelloRequest.Nested",
    "O:Shared", "O:Self", "W:Empty", "W:Timestamp", "W:StringValue", "W:Any", "W:BoolValue", "X:Thing", "X:Outer.Deep",
];
const PPATHS: [&str; 4] = ["super", "crate::pb", "super::super", "crate"];
const EXTS: [&str; 3] = ["-", "abs", "crate"];
const SIDES: [&str; 3] = ["both", "client", "server"];

fn pick_methods(rng: &mut Rng, n: usize) -> Vec<usize> {
    let mut idx: Vec<usize> = (0..METHODS.len()).collect();
    for x in (1..idx.len()).rev() {
        let y = rng.below(x as u64 + 1) as usize;
        idx.swap(x, y);
    }
    idx.truncate(n);
    idx
}

struct GenOpts<'a> {
    emit: bool,
    arc: bool,
    stubs: bool,
    transport: bool,
    sides: &'a str,
    wkt: bool,
    ppath: &'a str,
}

fn gen_line(rng: &mut Rng, o: &GenOpts, pkg: &str, name: &str, ident: &str, ms: &[(usize, bool, bool)]) -> String {
    let mut s = format!("gen {} {} {} {} {} {} {} {} {} {} {}", fl(o.emit), fl(o.arc), fl(o.stubs), fl(o.transport), o.sides, fl(o.wkt), o.ppath, dash(pkg), name, ident, ms.len());
    for &(k, cs, ss) in ms {
        let (f, id) = METHODS[k];
        let (i, out) = (*rng.pick(&TYPES), *rng.pick(&TYPES));
        s.push_str(&format!(" {} {} {} {} {} {}", f, id, fl(cs), fl(ss), i, out));
    }
    s
}

fn manual_line(rng: &mut Rng, transport: bool, sides: &str, pkg: &str, name: &str, ms: &[(usize, bool, bool)]) -> String {
    let mut s = format!("manual {} {} {} {} {}", fl(transport), sides, dash(pkg), name, ms.len());
    for &(k, cs, ss) in ms {
        let (f, id) = METHODS[k];
        let (i, o) = (*rng.pick(&MANUAL_TYPES), *rng.pick(&MANUAL_TYPES));
        s.push_str(&format!(" {} {} {} {} {} {}", f, id, fl(cs), fl(ss), i, o));
    }
    s
}

struct ProstOpts<'a> {
    emit: bool,
    arc: bool,
    stubs: bool,
    sides: &'a str,
    wkt: bool,
    ppath: &'a str,
    ext: &'a str,
}

/// `kinds`: per method (in, out).  prost-build's own view of the types is recorded here and
/// carried in the line.
fn prost_line(o: &ProstOpts, pkg: &str, svc: &str, ms: &[(usize, bool, bool)], kinds: &[(&str, &str)]) -> String {
    let pms: Vec<PM> = ms.iter().zip(kinds).map(|(&(k, cs, ss), (i, out))| (METHODS[k].1.to_string(), cs, ss, i.to_string(), out.to_string())).collect();
    let view = prost_view(pkg, svc, &pms, o.wkt, o.ext).expect("prost-build refused a harness-made descriptor set");
    assert_eq!(view.len(), pms.len());
    let mut s = format!("prost {} {} {} {} {} {} {} {} {} {}", fl(o.emit), fl(o.arc), fl(o.stubs), o.sides, fl(o.wkt), o.ppath, o.ext, dash(pkg), svc, pms.len());
    for (m, v) in pms.iter().zip(&view) {
        s.push_str(&format!(
            " {} {} {} {} {} {} {} {} {} {} {}",
            m.0, fl(m.1), fl(m.2),
            m.3, tok(&v[0]), tok(&v[1].replace(' ', "")), fl(kind_here(&m.3, o.wkt, o.ext)),
            m.4, tok(&v[2]), tok(&v[3].replace(' ', "")), fl(kind_here(&m.4, o.wkt, o.ext))
        ));
    }
    s
}

fn pick_kinds(rng: &mut Rng, n: usize) -> Vec<(&'static str, &'static str)> {
    (0..n).map(|_| (*rng.pick(&KINDS), *rng.pick(&KINDS))).collect()
}

pub fn generate(tier: &str, rng: &mut Rng) -> Vec<String> {
    let thorough = tier == "thorough";
    let mut out = Vec::new();
    // ---- the clause without a quantifier
    out.push("regen".to_string());

    let dflt = ProstOpts { emit: true, arc: false, stubs: false, sides: "both", wkt: false, ppath: "super", ext: "-" };
    let gd = GenOpts { emit: true, arc: false, stubs: false, transport: true, sides: "both", wkt: false, ppath: "super" };
    // ---- corpus: the descriptors of the committed generated crates, and the classic shapes
    out.push(prost_line(&dflt, "grpc.health.v1", "Health", &[(3, false, false), (4, false, true)], &[("L:HealthCheckRequest", "L:HealthCheckResponse"), ("L:HealthCheckRequest", "L:HealthCheckResponse")]));
    out.push(prost_line(&dflt, "grpc.reflection.v1", "ServerReflection", &[(14, true, true)], &[("L:ServerReflectionRequest", "L:ServerReflectionResponse")]));
    out.push(prost_line(&dflt, "", "Greeter", &[(0, false, false)], &[("L:HelloRequest", "L:HelloReply")]));
    out.push(prost_line(&ProstOpts { emit: false, ..dflt }, "helloworld", "Greeter", &[(0, false, false)], &[("L:HelloRequest", "L:HelloReply")]));
    // well-known types, compiled or not (tests/wellknown, tests/wellknown-compiled), on each side alone too
    for wkt in [false, true] {
        for sides in SIDES {
            out.push(prost_line(&ProstOpts { wkt, sides, ..dflt }, "wellknown", "Admin", &[(0, false, false), (4, false, true), (1, true, true)],
                &[("W:Empty", "W:Empty"), ("W:Timestamp", "W:StringValue"), ("W:Any", "L:Req")]));
        }
    }
    out.push("gen 1 0 0 1 both 0 super helloworld Greeter Greeter 1 say_hello SayHello 0 0 F:super::HelloRequest F:super::HelloReply".into());
    out.push("gen 0 0 0 1 both 0 super helloworld Greeter Greeter 1 say_hello SayHello 0 0 F:super::HelloRequest F:super::HelloReply".into());
    out.push("gen 1 0 0 1 both 1 crate::pb helloworld Greeter Greeter 2 say_hello SayHello 0 0 E:HelloRequest E:HelloReply watch Watch 0 1 E:Empty F:super::HelloReply".into());
    out.push("gen 1 0 0 1 both 0 super - Greeter Greeter 0".into());
    out.push("manual 1 both helloworld Greeter 1 say_hello SayHello 0 0 crate::HelloRequest super::HelloResponse".into());
    out.push("manual 1 both .helloworld Greeter 1 say_hello SayHello 0 0 crate::HelloRequest super::HelloResponse".into());
    out.push("manual 1 both .my.protos Greeter 2 m M 0 1 crate::A crate::B n N 1 0 crate::A crate::B".into());
    out.push("manual 1 both - Greeter 4 m M 0 0 crate::A crate::B mx Mx 0 1 crate::A crate::B check Check 1 0 crate::B crate::A watch Watch 1 1 crate::B crate::B".into());

    // ---- structured, exhaustive small scope: every package shape × emit × the 4 kinds × sides
    for pkg in PACKAGES {
        for emit in [true, false] {
            for sides in SIDES {
                let ms: Vec<(usize, bool, bool)> = vec![(0, false, false), (4, false, true), (1, true, false), (14, true, true)];
                let (arc, stubs, transport) = (rng.chance(1, 2), rng.chance(1, 2), rng.chance(1, 2));
                let (wkt, ppath) = (rng.chance(1, 2), *rng.pick(&PPATHS));
                // Rust name deliberately differs from the proto identifier
                out.push(gen_line(rng, &GenOpts { emit, arc, stubs, transport, sides, wkt, ppath }, pkg, "RustName", "ProtoName", &ms));
                let sn = *rng.pick(&SVC_NAMES);
                let kinds = pick_kinds(rng, ms.len());
                out.push(prost_line(&ProstOpts { emit, arc, stubs, sides, wkt, ppath, ext: *rng.pick(&EXTS) }, pkg, sn, &ms, &kinds));
                if emit {
                    let sn = *rng.pick(&SVC_NAMES);
                    out.push(manual_line(rng, transport, sides, pkg, sn, &ms));
                }
            }
        }
    }
    // every message kind × compile_well_known_types × extern_path mode × proto_path × sides
    // (1-method services: the kind as request and `L:Resp` as response, and the other way round)
    for (ki, kind) in KINDS.iter().enumerate() {
        for wkt in [false, true] {
            for ext in EXTS {
                for (pi, ppath) in PPATHS.iter().enumerate() {
                    let sides = SIDES[(ki + pi) % 3];
                    let pkg = PACKAGES[(ki + pi + wkt as usize) % PACKAGES.len()];
                    let o = ProstOpts { emit: (ki + pi) % 4 != 0, arc: pi % 2 == 1, stubs: ki % 2 == 1, sides, wkt, ppath, ext };
                    let kind_i = (ki + pi) % 4;
                    out.push(prost_line(&o, pkg, "Svc", &[(pi, kind_i & 2 != 0, kind_i & 1 != 0)], &[(kind, "L:Resp")]));
                    if thorough || pi == 0 {
                        out.push(prost_line(&ProstOpts { sides: "both", ..o }, pkg, "Svc", &[(pi + 4, kind_i & 1 != 0, kind_i & 2 != 0)], &[("L:Req", kind)]));
                    }
                }
            }
        }
    }
    // every single method shape × kind × builder option combination (1-method services)
    for k in 0..METHODS.len() {
        for kind in 0..4u8 {
            let (cs, ss) = (kind & 2 != 0, kind & 1 != 0);
            for opt in 0..4u8 {
                let (arc, stubs) = (opt & 1 != 0, opt & 2 != 0);
                let pkg = *rng.pick(&PACKAGES);
                let name = *rng.pick(&SVC_NAMES);
                let (wkt, ppath) = (rng.chance(1, 2), *rng.pick(&PPATHS));
                out.push(gen_line(rng, &GenOpts { arc, stubs, wkt, ppath, ..gd }, pkg, name, name, &[(k, cs, ss)]));
                let kinds = pick_kinds(rng, 1);
                out.push(prost_line(&ProstOpts { arc, stubs, wkt, ppath, ext: *rng.pick(&EXTS), ..dflt }, pkg, name, &[(k, cs, ss)], &kinds));
            }
        }
    }

    // ---- random descriptors
    let nrand = if thorough { 30000 } else { 500 };
    for _ in 0..nrand {
        let n = match rng.below(10) {
            0 => 0,
            1..=3 => 1,
            4..=6 => 2 + rng.below(3) as usize,
            _ => 5 + rng.below(10) as usize,
        };
        let ms: Vec<(usize, bool, bool)> = pick_methods(rng, n).into_iter().map(|k| (k, rng.chance(1, 2), rng.chance(1, 2))).collect();
        let pkg = *rng.pick(&PACKAGES);
        let name = *rng.pick(&SVC_NAMES);
        let sides = if rng.chance(2, 3) { "both" } else { *rng.pick(&SIDES) };
        let (emit, arc, stubs, transport) = (rng.chance(3, 4), rng.chance(1, 3), rng.chance(1, 3), rng.chance(1, 2));
        let (wkt, ppath, ext) = (rng.chance(1, 2), *rng.pick(&PPATHS), *rng.pick(&EXTS));
        match rng.below(5) {
            0 | 1 => {
                let ident = if rng.chance(1, 2) { name } else { *rng.pick(&SVC_NAMES) };
                out.push(gen_line(rng, &GenOpts { emit, arc, stubs, transport, sides, wkt, ppath }, pkg, name, ident, &ms))
            }
            2 => {
                // `manual::Service::package` takes any text: also spellings prost never produces
                // (a fully-qualified leading dot, a trailing dot, an empty segment - seed C11j)
                let pkg = if rng.chance(1, 3) { *rng.pick(&MANUAL_ODD_PACKAGES) } else { pkg };
                out.push(manual_line(rng, transport, sides, pkg, name, &ms))
            }
            _ => {
                let kinds = pick_kinds(rng, ms.len());
                out.push(prost_line(&ProstOpts { emit, arc, stubs, sides, wkt, ppath, ext }, pkg, name, &ms, &kinds))
            }
        }
    }

    // ---- the compiled generated servers, driven directly (no router in front): what the
    // generated `call` matches on and what it answers otherwise is decided by running it.
    // Every pool server × (every exact path of the whole pool — its own methods, and other
    // services' prefixes in front of its method names — plus mutations of its own paths).
    let n = POOL.len();
    let pool_paths: Vec<Vec<u8>> = (0..n)
        .flat_map(|i| POOL[i].2.iter().map(move |(m, _)| format!("/{}/{}", crate::c10::full_name(i), m).into_bytes()))
        .collect();
    for i in 0..n {
        for p in &pool_paths {
            out.push(srv_line(i, p));
        }
        // with the package although generated without, and the other way round
        let (pkg, name, ms) = POOL[i];
        for (m, _) in ms.iter() {
            for p in [format!("/{pkg}.{name}/{m}"), format!("/{name}/{m}"), format!("/{m}"), format!("/x/{m}"), format!("/{}/x/{m}", crate::c10::full_name(i))] {
                if valid_target(p.as_bytes()).is_some() {
                    out.push(srv_line(i, p.as_bytes()));
                }
            }
            let muts = crate::c10::mutations(rng, &crate::c10::full_name(i), m);
            for (k, p) in muts.iter().enumerate() {
                if (thorough || k % 3 == i % 3) && valid_target(p).is_some() {
                    out.push(srv_line(i, p));
                }
            }
        }
    }

    // ---- end to end through the compiled pool: every method of every pool service, alone,
    // among all others, and absent
    let all: Vec<usize> = (0..n).collect();
    for i in 0..n {
        for j in 0..POOL[i].2.len() {
            out.push(e2e_line("routes", Wrap::Probe, &[i], i, j, 3));
            out.push(e2e_line("builder", Wrap::ALL[(i + j) % 4], &all, i, j, (i + 2 * j) % 7));
            let without: Vec<usize> = all.iter().copied().filter(|x| *x != i).collect();
            out.push(e2e_line("routes", Wrap::ALL[(i + j + 1) % 4], &without, i, j, 1));
        }
    }
    let ne2e = if thorough { 15000 } else { 400 };
    for _ in 0..ne2e {
        let k = 1 + rng.below(n as u64) as usize;
        let mut order = all.clone();
        for x in (1..order.len()).rev() {
            let y = rng.below(x as u64 + 1) as usize;
            order.swap(x, y);
        }
        order.truncate(k);
        let i = if rng.chance(4, 5) { *rng.pick(&order) } else { rng.below(n as u64) as usize };
        let j = rng.below(POOL[i].2.len() as u64) as usize;
        let api = if rng.chance(1, 2) { "routes" } else { "builder" };
        out.push(e2e_line(api, *rng.pick(&Wrap::ALL), &order, i, j, rng.below(40) as usize));
    }
    // ---- dimension audit (aC11): descriptor sets, entry points, knobs, builder histories
    out.extend(x::generate_x(tier, rng));
    out
}

pub fn execute(case: &str) -> String {
    let t: Vec<&str> = case.split(' ').collect();
    match t[0] {
        "gen" => run_gen(&t),
        "manual" => run_manual(&t),
        "prost" => run_prost(&t),
        "e2e" => run_e2e(&t),
        "srv" => run_srv(&t),
        "regen" => run_regen(),
        _ => x::execute_x(&t).unwrap_or_else(|| "bad-case".into()),
    }
}
