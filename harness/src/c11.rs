//! C11 — generated clients and servers agree with each other and with checked-in code.
//!
//! Runs the real generators at run time (`CodeGenBuilder` on a hand-made `tonic_build::Service`,
//! `manual::Builder`, and the prost path `configure()…compile_fds`) on generated service
//! descriptors, parses what they emit with `syn` and extracts, per method, what the client sends
//! (path literal, `GrpcMethod` literals, `Grpc::<call>`, request/response shapes and types) and
//! what the server dispatches on (match-arm literal, `*Service` trait, `grpc.<call>`, types),
//! plus `SERVICE_NAME` / `NamedService::NAME`.  `e2e` cases drive the *compiled* generated
//! clients of the build-time pool against the compiled generated servers.  `regen` runs the real
//! `codegen` binary on a scratch copy of the repo and byte-compares with the committed files.
use crate::c10::pool::{self, Built, Ev, Handler, Reg, Wrap, POOL};
use crate::common::*;
use proc_macro2::TokenStream;
use quote::ToTokens;
use std::path::{Path, PathBuf};
use syn::visit::Visit;

// ---------------------------------------------------------------------------------------------
// descriptors

#[derive(Clone, Debug)]
struct MDesc {
    name: String,
    ident: String,
    cs: bool,
    ss: bool,
    input: String,
    output: String,
}

#[derive(Clone, Debug)]
struct SDesc {
    name: String,
    package: String,
    ident: String,
    methods: Vec<MDesc>,
}

impl tonic_build::Method for MDesc {
    type Comment = String;
    fn name(&self) -> &str {
        &self.name
    }
    fn identifier(&self) -> &str {
        &self.ident
    }
    fn codec_path(&self) -> &str {
        "tonic::codec::ProstCodec"
    }
    fn client_streaming(&self) -> bool {
        self.cs
    }
    fn server_streaming(&self) -> bool {
        self.ss
    }
    fn comment(&self) -> &[String] {
        &[]
    }
    fn request_response_name(&self, _proto_path: &str, _wkt: bool) -> (TokenStream, TokenStream) {
        (
            syn::parse_str::<syn::Path>(&self.input).unwrap().to_token_stream(),
            syn::parse_str::<syn::Path>(&self.output).unwrap().to_token_stream(),
        )
    }
}

impl tonic_build::Service for SDesc {
    type Comment = String;
    type Method = MDesc;
    fn name(&self) -> &str {
        &self.name
    }
    fn package(&self) -> &str {
        &self.package
    }
    fn identifier(&self) -> &str {
        &self.ident
    }
    fn methods(&self) -> &[MDesc] {
        &self.methods
    }
    fn comment(&self) -> &[String] {
        &[]
    }
}

fn dash(s: &str) -> &str {
    if s.is_empty() {
        "-"
    } else {
        s
    }
}
fn undash(s: &str) -> String {
    if s == "-" {
        String::new()
    } else {
        s.to_string()
    }
}
fn fl(b: bool) -> &'static str {
    if b {
        "1"
    } else {
        "0"
    }
}

// ---------------------------------------------------------------------------------------------
// extraction from the emitted code

fn strip(ts: impl ToTokens) -> String {
    ts.to_token_stream().to_string().chars().filter(|c| !c.is_whitespace()).collect()
}

const CALLS: [&str; 4] = ["unary", "server_streaming", "client_streaming", "streaming"];

#[derive(Default, Debug)]
struct ArmInfo {
    literal: String,
    call: Vec<String>,
    svc_trait: Vec<String>,
    req: Vec<String>,
    resp: Vec<String>,
    req_stream: bool,
    resp_stream: bool,
    fns: Vec<String>,
}

struct ArmVisitor<'a>(&'a mut ArmInfo);

impl<'ast, 'a> Visit<'ast> for ArmVisitor<'a> {
    fn visit_item_impl(&mut self, i: &'ast syn::ItemImpl) {
        if let Some((_, path, _)) = &i.trait_ {
            if let Some(seg) = path.segments.last() {
                let id = seg.ident.to_string();
                if id.ends_with("Service") {
                    self.0.svc_trait.push(id);
                    if let syn::PathArguments::AngleBracketed(ab) = &seg.arguments {
                        for a in &ab.args {
                            if let syn::GenericArgument::Type(t) = a {
                                self.0.req.push(strip(t));
                            }
                        }
                    }
                    for it in &i.items {
                        match it {
                            syn::ImplItem::Type(t) if t.ident == "Response" => self.0.resp.push(strip(&t.ty)),
                            syn::ImplItem::Type(t) if t.ident == "ResponseStream" => self.0.resp_stream = true,
                            syn::ImplItem::Fn(f) if f.sig.ident == "call" => {
                                for arg in &f.sig.inputs {
                                    if let syn::FnArg::Typed(pt) = arg {
                                        if strip(&pt.ty).contains("Streaming<") {
                                            self.0.req_stream = true;
                                        }
                                    }
                                }
                            }
                            _ => {}
                        }
                    }
                }
            }
        }
        syn::visit::visit_item_impl(self, i);
    }
    fn visit_expr_path(&mut self, p: &'ast syn::ExprPath) {
        if p.qself.is_some() {
            if let Some(seg) = p.path.segments.last() {
                self.0.fns.push(seg.ident.to_string());
            }
        }
        syn::visit::visit_expr_path(self, p);
    }
    fn visit_expr_method_call(&mut self, m: &'ast syn::ExprMethodCall) {
        let name = m.method.to_string();
        if CALLS.contains(&name.as_str()) && strip(&m.receiver) == "grpc" {
            self.0.call.push(name);
        }
        syn::visit::visit_expr_method_call(self, m);
    }
}

#[derive(Default, Debug)]
struct ClientInfo {
    fname: String,
    path: Vec<String>,
    gm: Vec<(String, String)>,
    call: Vec<String>,
    req_stream: Option<bool>,
    resp_stream: Option<bool>,
    req: String,
    resp: String,
}

struct ClientVisitor<'a>(&'a mut ClientInfo);

fn lit_str(e: &syn::Expr) -> Option<String> {
    if let syn::Expr::Lit(l) = e {
        if let syn::Lit::Str(s) = &l.lit {
            return Some(s.value());
        }
    }
    None
}

impl<'ast, 'a> Visit<'ast> for ClientVisitor<'a> {
    fn visit_expr_call(&mut self, c: &'ast syn::ExprCall) {
        if let syn::Expr::Path(p) = &*c.func {
            let segs: Vec<String> = p.path.segments.iter().map(|s| s.ident.to_string()).collect();
            if segs.last().map(|s| s == "from_static").unwrap_or(false) {
                if let Some(s) = c.args.first().and_then(lit_str) {
                    self.0.path.push(s);
                }
            }
            if segs.len() >= 2 && segs[segs.len() - 2] == "GrpcMethod" && segs[segs.len() - 1] == "new" {
                let a: Vec<Option<String>> = c.args.iter().map(lit_str).collect();
                if let [Some(x), Some(y)] = a.as_slice() {
                    self.0.gm.push((x.clone(), y.clone()));
                }
            }
        }
        syn::visit::visit_expr_call(self, c);
    }
    fn visit_expr_method_call(&mut self, m: &'ast syn::ExprMethodCall) {
        let name = m.method.to_string();
        if CALLS.contains(&name.as_str()) && strip(&m.receiver) == "self.inner" {
            self.0.call.push(name);
        }
        syn::visit::visit_expr_method_call(self, m);
    }
}

fn generic_args(seg: &syn::PathSegment) -> Vec<&syn::GenericArgument> {
    match &seg.arguments {
        syn::PathArguments::AngleBracketed(ab) => ab.args.iter().collect(),
        _ => Vec::new(),
    }
}

fn client_fn(f: &syn::ImplItemFn) -> Option<ClientInfo> {
    let mut info = ClientInfo { fname: f.sig.ident.to_string(), ..Default::default() };
    ClientVisitor(&mut info).visit_block(&f.block);
    if info.path.is_empty() && info.call.is_empty() {
        return None; // a builder method (new, with_origin, send_compressed, …)
    }
    // request: impl tonic::IntoRequest<Req> | impl tonic::IntoStreamingRequest<Message = Req>
    for arg in &f.sig.inputs {
        if let syn::FnArg::Typed(pt) = arg {
            if let syn::Type::ImplTrait(it) = &*pt.ty {
                for bnd in &it.bounds {
                    if let syn::TypeParamBound::Trait(tb) = bnd {
                        if let Some(seg) = tb.path.segments.last() {
                            let id = seg.ident.to_string();
                            if id == "IntoRequest" {
                                info.req_stream = Some(false);
                            } else if id == "IntoStreamingRequest" {
                                info.req_stream = Some(true);
                            }
                            for a in generic_args(seg) {
                                match a {
                                    syn::GenericArgument::Type(t) => info.req = strip(t),
                                    syn::GenericArgument::AssocType(at) if at.ident == "Message" => info.req = strip(&at.ty),
                                    _ => {}
                                }
                            }
                        }
                    }
                }
            }
        }
    }
    // -> Result<tonic::Response<Resp | tonic::codec::Streaming<Resp>>, tonic::Status>
    if let syn::ReturnType::Type(_, ty) = &f.sig.output {
        if let syn::Type::Path(tp) = &**ty {
            if let Some(res) = tp.path.segments.last() {
                if let Some(syn::GenericArgument::Type(syn::Type::Path(rp))) = generic_args(res).first() {
                    if let Some(resp_seg) = rp.path.segments.last() {
                        if resp_seg.ident == "Response" {
                            if let Some(syn::GenericArgument::Type(inner)) = generic_args(resp_seg).first() {
                                let mut streaming = false;
                                if let syn::Type::Path(ip) = inner {
                                    if let Some(last) = ip.path.segments.last() {
                                        if last.ident == "Streaming" && ip.path.segments.len() > 1 {
                                            if let Some(syn::GenericArgument::Type(t)) = generic_args(last).first() {
                                                streaming = true;
                                                info.resp = strip(t);
                                            }
                                        }
                                    }
                                }
                                if !streaming {
                                    info.resp = strip(inner);
                                }
                                info.resp_stream = Some(streaming);
                            }
                        }
                    }
                }
            }
        }
    }
    Some(info)
}

#[derive(Default)]
struct Extracted {
    service_name: Option<String>,
    named: Option<String>,
    scrutinee: Option<String>,
    default_code: Option<String>,
    server: Option<Vec<ArmInfo>>,
    client: Option<Vec<ClientInfo>>,
    problems: Vec<String>,
}

struct CodePathVisitor(Option<String>);
impl<'ast> Visit<'ast> for CodePathVisitor {
    fn visit_path(&mut self, p: &'ast syn::Path) {
        let segs: Vec<String> = p.segments.iter().map(|s| s.ident.to_string()).collect();
        if let Some(pos) = segs.iter().position(|s| s == "Code") {
            if pos + 1 < segs.len() && self.0.is_none() {
                self.0 = Some(segs[pos + 1].clone());
            }
        }
        syn::visit::visit_path(self, p);
    }
}

fn find_match(block: &syn::Block) -> Option<&syn::ExprMatch> {
    for st in &block.stmts {
        if let syn::Stmt::Expr(syn::Expr::Match(m), _) = st {
            return Some(m);
        }
    }
    None
}

fn extract(file: &syn::File) -> Extracted {
    let mut ex = Extracted::default();
    for item in &file.items {
        let syn::Item::Mod(m) = item else { continue };
        let Some((_, items)) = &m.content else { continue };
        let mname = m.ident.to_string();
        if mname.ends_with("_server") {
            if ex.server.is_some() {
                ex.problems.push("two-server-modules".into());
            }
            let mut arms_out = Vec::new();
            for it in items {
                match it {
                    syn::Item::Const(c) if c.ident == "SERVICE_NAME" => {
                        ex.service_name = lit_str(&c.expr);
                    }
                    syn::Item::Impl(im) => {
                        let Some((_, path, _)) = &im.trait_ else { continue };
                        let last = path.segments.last().map(|s| s.ident.to_string()).unwrap_or_default();
                        if last == "NamedService" {
                            for ii in &im.items {
                                if let syn::ImplItem::Const(c) = ii {
                                    if c.ident == "NAME" {
                                        ex.named = Some(match lit_str(&c.expr) {
                                            Some(s) => s,
                                            None => format!("expr:{}", strip(&c.expr)),
                                        });
                                    }
                                }
                            }
                        } else if last == "Service" {
                            for ii in &im.items {
                                let syn::ImplItem::Fn(f) = ii else { continue };
                                if f.sig.ident != "call" {
                                    continue;
                                }
                                let Some(mt) = find_match(&f.block) else {
                                    ex.problems.push("no-match-in-call".into());
                                    continue;
                                };
                                ex.scrutinee = Some(strip(&mt.expr));
                                for arm in &mt.arms {
                                    match &arm.pat {
                                        syn::Pat::Lit(l) => {
                                            let mut info = ArmInfo::default();
                                            if let syn::Lit::Str(s) = &l.lit {
                                                info.literal = s.value();
                                            } else {
                                                ex.problems.push("non-string-arm".into());
                                            }
                                            if arm.guard.is_some() {
                                                ex.problems.push("guarded-arm".into());
                                            }
                                            ArmVisitor(&mut info).visit_expr(&arm.body);
                                            arms_out.push(info);
                                        }
                                        syn::Pat::Wild(_) => {
                                            let mut v = CodePathVisitor(None);
                                            v.visit_expr(&arm.body);
                                            ex.default_code = v.0;
                                        }
                                        other => ex.problems.push(format!("odd-arm:{}", strip(other))),
                                    }
                                }
                            }
                        }
                    }
                    _ => {}
                }
            }
            ex.server = Some(arms_out);
        } else if mname.ends_with("_client") {
            if ex.client.is_some() {
                ex.problems.push("two-client-modules".into());
            }
            let mut fns = Vec::new();
            for it in items {
                if let syn::Item::Impl(im) = it {
                    if im.trait_.is_some() {
                        continue;
                    }
                    for ii in &im.items {
                        if let syn::ImplItem::Fn(f) = ii {
                            if let Some(ci) = client_fn(f) {
                                fns.push(ci);
                            }
                        }
                    }
                }
            }
            ex.client = Some(fns);
        }
    }
    // `const NAME: &str = SERVICE_NAME`
    if ex.named.as_deref() == Some("expr:SERVICE_NAME") {
        ex.named = ex.service_name.clone();
    }
    ex
}

fn one(v: &[String]) -> String {
    match v {
        [x] => tok(x),
        [] => "none".into(),
        _ => "multiple".into(),
    }
}

/// a token of the line protocol: non-empty, no whitespace
fn tok(s: &str) -> String {
    if s.is_empty() {
        "-".into()
    } else if s.chars().any(|c| c.is_whitespace()) {
        hex(s.as_bytes())
    } else {
        s.to_string()
    }
}

/// `fn_known`: print Rust fn names; otherwise print `=` when (index-wise) the client fn and the
/// trait fn the server forwards to are the same identifier, else both names.
fn render(ex: &Extracted, fn_known: bool) -> String {
    if !ex.problems.is_empty() {
        return format!("unexpected-shape {}", ex.problems.join(","));
    }
    let mut out = Vec::new();
    if ex.server.is_some() {
        out.push(format!(
            "name {} {} on {} default {}",
            tok(ex.service_name.as_deref().unwrap_or("none")),
            tok(ex.named.as_deref().unwrap_or("none")),
            tok(ex.scrutinee.as_deref().unwrap_or("none")),
            tok(ex.default_code.as_deref().unwrap_or("none"))
        ));
    } else {
        out.push("name - - on - default -".into());
    }
    let fn_tok = |k: usize, own: &str| -> String {
        if fn_known {
            return tok(own);
        }
        match (&ex.server, &ex.client) {
            (Some(s), Some(c)) => {
                let sf = s.get(k).map(|a| one(&a.fns));
                let cf = c.get(k).map(|c| c.fname.clone());
                if sf.is_some() && sf == cf {
                    "=".into()
                } else {
                    format!("{}!={}", sf.unwrap_or_default(), cf.unwrap_or_default())
                }
            }
            _ => "=".into(),
        }
    };
    match &ex.server {
        None => out.push("server -".into()),
        Some(arms) => {
            out.push(format!("server {}", arms.len()));
            for (k, a) in arms.iter().enumerate() {
                out.push(format!(
                    "{} {} {} {} {} {} {} {}",
                    tok(&a.literal),
                    one(&a.call),
                    one(&a.svc_trait),
                    fl(a.req_stream),
                    fl(a.resp_stream),
                    one(&a.req),
                    one(&a.resp),
                    fn_tok(k, &one(&a.fns))
                ));
            }
        }
    }
    match &ex.client {
        None => out.push("client -".into()),
        Some(fns) => {
            out.push(format!("client {}", fns.len()));
            for (k, c) in fns.iter().enumerate() {
                let (gs, gm) = match c.gm.as_slice() {
                    [(a, b)] => (tok(a), tok(b)),
                    [] => ("none".into(), "none".into()),
                    _ => ("multiple".into(), "multiple".into()),
                };
                out.push(format!(
                    "{} {} {} {} {} {} {} {} {}",
                    fn_tok(k, &c.fname),
                    one(&c.path),
                    gs,
                    gm,
                    one(&c.call),
                    c.req_stream.map(fl).unwrap_or("none"),
                    c.resp_stream.map(fl).unwrap_or("none"),
                    tok(&c.req),
                    tok(&c.resp)
                ));
            }
        }
    }
    out.join(" ")
}

// ---------------------------------------------------------------------------------------------
// generators

fn tmp_dir(tag: &str) -> PathBuf {
    use std::sync::atomic::{AtomicU64, Ordering};
    static N: AtomicU64 = AtomicU64::new(0);
    let d = std::env::temp_dir().join(format!("verif-c11-{}-{}-{}", tag, std::process::id(), N.fetch_add(1, Ordering::Relaxed)));
    let _ = std::fs::remove_dir_all(&d);
    std::fs::create_dir_all(&d).unwrap();
    d
}

struct DirGuard(PathBuf);
impl Drop for DirGuard {
    fn drop(&mut self) {
        let _ = std::fs::remove_dir_all(&self.0);
    }
}

fn read_all_rs(dir: &Path) -> String {
    let mut names: Vec<PathBuf> = std::fs::read_dir(dir).unwrap().map(|e| e.unwrap().path()).collect();
    names.sort();
    let mut s = String::new();
    for p in names {
        if p.extension().map(|e| e == "rs").unwrap_or(false) {
            s.push_str(&std::fs::read_to_string(&p).unwrap());
            s.push('\n');
        }
    }
    s
}

fn parse_methods(t: &[&str], w: usize, n: usize) -> Option<Vec<Vec<String>>> {
    if t.len() != n * w {
        return None;
    }
    Some(t.chunks(w).map(|c| c.iter().map(|s| s.to_string()).collect()).collect())
}

fn run_gen(t: &[&str]) -> String {
    // gen <emit> <arc> <stubs> <transport> <sides> <pkg> <name> <ident> <n> {fn ident cs ss in out}
    if t.len() < 10 {
        return "bad-case".into();
    }
    let (emit, arc, stubs, transport) = (t[1] == "1", t[2] == "1", t[3] == "1", t[4] == "1");
    let sides = t[5];
    let n: usize = match t[9].parse() {
        Ok(n) => n,
        Err(_) => return "bad-case".into(),
    };
    let Some(ms) = parse_methods(&t[10..], 6, n) else { return "bad-case".into() };
    let svc = SDesc {
        name: t[7].to_string(),
        package: undash(t[6]),
        ident: t[8].to_string(),
        methods: ms
            .iter()
            .map(|m| MDesc { name: m[0].clone(), ident: m[1].clone(), cs: m[2] == "1", ss: m[3] == "1", input: m[4].clone(), output: m[5].clone() })
            .collect(),
    };
    let mut b = tonic_build::CodeGenBuilder::new();
    b.emit_package(emit).use_arc_self(arc).generate_default_stubs(stubs).build_transport(transport);
    let mut ts = TokenStream::new();
    if sides != "client" {
        ts.extend(b.generate_server(&svc, "super"));
    }
    if sides != "server" {
        ts.extend(b.generate_client(&svc, "super"));
    }
    match syn::parse2::<syn::File>(ts) {
        Ok(f) => render(&extract(&f), true),
        Err(e) => format!("emitted-code-does-not-parse {}", tok(&e.to_string())),
    }
}

fn run_manual(t: &[&str]) -> String {
    // manual <transport> <sides> <pkg> <name> <n> {fn route cs ss in out}
    if t.len() < 6 {
        return "bad-case".into();
    }
    let transport = t[1] == "1";
    let sides = t[2];
    let n: usize = match t[5].parse() {
        Ok(n) => n,
        Err(_) => return "bad-case".into(),
    };
    let Some(ms) = parse_methods(&t[6..], 6, n) else { return "bad-case".into() };
    let mut sb = tonic_build::manual::Service::builder().name(t[4]).package(undash(t[3]));
    for m in &ms {
        let mut mb = tonic_build::manual::Method::builder()
            .name(&m[0])
            .route_name(&m[1])
            .input_type(&m[4])
            .output_type(&m[5])
            .codec_path("tonic::codec::ProstCodec");
        if m[2] == "1" {
            mb = mb.client_streaming();
        }
        if m[3] == "1" {
            mb = mb.server_streaming();
        }
        sb = sb.method(mb.build());
    }
    let dir = tmp_dir("manual");
    let _g = DirGuard(dir.clone());
    tonic_build::manual::Builder::new()
        .build_client(sides != "server")
        .build_server(sides != "client")
        .build_transport(transport)
        .out_dir(&dir)
        .compile(&[sb.build()]);
    match syn::parse_file(&read_all_rs(&dir)) {
        Ok(f) => render(&extract(&f), true),
        Err(e) => format!("emitted-code-does-not-parse {}", tok(&e.to_string())),
    }
}

fn run_prost(t: &[&str]) -> String {
    // prost <emit> <arc> <stubs> <sides> <pkg> <service> <n> {method cs ss inMsg outMsg}
    use prost_types::*;
    if t.len() < 8 {
        return "bad-case".into();
    }
    let (emit, arc, stubs) = (t[1] == "1", t[2] == "1", t[3] == "1");
    let sides = t[4];
    let pkg = undash(t[5]);
    let n: usize = match t[7].parse() {
        Ok(n) => n,
        Err(_) => return "bad-case".into(),
    };
    let Some(ms) = parse_methods(&t[8..], 5, n) else { return "bad-case".into() };
    let fq = |m: &str| if pkg.is_empty() { format!(".{m}") } else { format!(".{pkg}.{m}") };
    let mut msgs: Vec<String> = ms.iter().flat_map(|m| [m[3].clone(), m[4].clone()]).collect();
    msgs.sort();
    msgs.dedup();
    let file = FileDescriptorProto {
        name: Some("t.proto".into()),
        package: if pkg.is_empty() { None } else { Some(pkg.clone()) },
        message_type: msgs.iter().map(|m| DescriptorProto { name: Some(m.clone()), ..Default::default() }).collect(),
        service: vec![ServiceDescriptorProto {
            name: Some(t[6].to_string()),
            method: ms
                .iter()
                .map(|m| MethodDescriptorProto {
                    name: Some(m[0].clone()),
                    input_type: Some(fq(&m[3])),
                    output_type: Some(fq(&m[4])),
                    client_streaming: Some(m[1] == "1"),
                    server_streaming: Some(m[2] == "1"),
                    options: None,
                })
                .collect(),
            options: None,
        }],
        syntax: Some("proto3".into()),
        ..Default::default()
    };
    let dir = tmp_dir("prost");
    let _g = DirGuard(dir.clone());
    let mut b = tonic_build::configure()
        .out_dir(&dir)
        .emit_rerun_if_changed(false)
        .use_arc_self(arc)
        .generate_default_stubs(stubs)
        .build_client(sides != "server")
        .build_server(sides != "client");
    if !emit {
        b = b.disable_package_emission();
    }
    if let Err(e) = b.compile_fds(FileDescriptorSet { file: vec![file] }) {
        return format!("generator-error {}", tok(&e.to_string()));
    }
    match syn::parse_file(&read_all_rs(&dir)) {
        Ok(f) => render(&extract(&f), false),
        Err(e) => format!("emitted-code-does-not-parse {}", tok(&e.to_string())),
    }
}

// ---------------------------------------------------------------------------------------------
// end to end through the compiled pool

fn pool_block(i: usize) -> String {
    let (pkg, name, ms) = POOL[i];
    let mut s = format!("{} {} {} {}", i, dash(pkg), name, ms.len());
    for (r, k) in ms.iter() {
        s.push_str(&format!(" {} {}", r, k));
    }
    s
}

fn e2e_line(api: &str, wrap: Wrap, reg: &[usize], i: usize, j: usize, len: usize) -> String {
    let mut s = format!("e2e {} {} {}", api, wrap.token(), reg.len());
    for &r in reg {
        s.push(' ');
        s.push_str(&pool_block(r));
    }
    s.push_str(&format!(" target {} {} {}", pool_block(i), j, len));
    s
}

/// parse one pool block, checking it against the compiled pool; returns (idx, tokens consumed)
fn take_pool_block(t: &[&str]) -> Option<(usize, usize)> {
    let i: usize = t.first()?.parse().ok()?;
    if i >= POOL.len() {
        return None;
    }
    let want = pool_block(i);
    let w: Vec<&str> = want.split(' ').collect();
    if t.len() < w.len() || t[..w.len()] != w[..] {
        return None;
    }
    Some((i, w.len()))
}

fn run_e2e(t: &[&str]) -> String {
    if t.len() < 4 {
        return "bad-case".into();
    }
    let api = t[1];
    let Some(wrap) = Wrap::parse(t[2]) else { return "bad-case".into() };
    let Ok(n) = t[3].parse::<usize>() else { return "bad-case".into() };
    let mut pos = 4;
    let mut regv = Vec::new();
    for _ in 0..n {
        let Some((i, used)) = take_pool_block(&t[pos..]) else { return "bad-case".into() };
        regv.push(i);
        pos += used;
    }
    if t.get(pos) != Some(&"target") {
        return "bad-case".into();
    }
    pos += 1;
    let Some((ti, used)) = take_pool_block(&t[pos..]) else { return "bad-case".into() };
    pos += used;
    if t.len() != pos + 2 {
        return "bad-case".into();
    }
    let (Ok(j), Ok(len)) = (t[pos].parse::<usize>(), t[pos + 1].parse::<usize>()) else { return "bad-case".into() };
    if j >= POOL[ti].2.len() || api == "server" {
        return "bad-case".into();
    }
    let h = Handler::default();
    let Some(mut reg) = Reg::new(api) else { return "bad-case".into() };
    for &i in &regv {
        pool::add(&mut reg, i, wrap, h.clone());
    }
    let Built::Routes(routes) = reg.finish() else { return "bad-case".into() };
    let rt = tokio::runtime::Builder::new_current_thread().enable_all().build().unwrap();
    let res = rt.block_on(pool::client_call(ti, j, routes, "x".repeat(len)));
    let hits: Vec<(usize, usize, usize)> = h.events().iter().filter_map(|e| if let Ev::Hit(i, j, n) = e { Some((*i, *j, *n)) } else { None }).collect();
    let hit = match hits.as_slice() {
        [] => "hit - - -".to_string(),
        [(i, j, n)] => format!("hit {} {} {}", crate::c10::full_name(*i), POOL[*i].2[*j].0, n),
        _ => "hit multiple multiple multiple".to_string(),
    };
    match res {
        Ok(v) => format!("{hit} ok {}", v.iter().map(|x| x.to_string()).collect::<Vec<_>>().join(" ")),
        Err(st) => format!("{hit} err {}", st.code() as i32),
    }
}

// ---------------------------------------------------------------------------------------------
// regeneration clause

fn repo_dir() -> PathBuf {
    match std::env::var_os("VERIF_REPO") {
        Some(p) => PathBuf::from(p),
        None => Path::new(env!("CARGO_MANIFEST_DIR")).join("../../repo"),
    }
}

fn files_under(root: &Path) -> Vec<PathBuf> {
    let mut out = Vec::new();
    let mut stack = vec![root.to_path_buf()];
    while let Some(d) = stack.pop() {
        let Ok(rd) = std::fs::read_dir(&d) else { continue };
        for e in rd.flatten() {
            let p = e.path();
            if p.is_dir() {
                if p.file_name().map(|n| n == "target").unwrap_or(false) {
                    continue;
                }
                stack.push(p);
            } else {
                out.push(p.strip_prefix(root).unwrap().to_path_buf());
            }
        }
    }
    out.sort();
    out
}

fn write_if_changed(dst: &Path, content: &[u8]) {
    if std::fs::read(dst).map(|c| c == content).unwrap_or(false) {
        return;
    }
    if let Some(p) = dst.parent() {
        let _ = std::fs::create_dir_all(p);
    }
    std::fs::write(dst, content).unwrap();
}

/// Make `dst` an exact copy of `src` touching only files whose content differs (so cargo's
/// mtime fingerprints stay valid between runs).
fn sync_dir(src: &Path, dst: &Path) {
    let want = files_under(src);
    for rel in &want {
        write_if_changed(&dst.join(rel), &std::fs::read(src.join(rel)).unwrap());
    }
    for rel in files_under(dst) {
        if !want.contains(&rel) {
            let _ = std::fs::remove_file(dst.join(rel));
        }
    }
}

const GEN_CRATES: [&str; 3] = ["tonic-health", "tonic-reflection", "tonic-types"];

fn run_regen() -> String {
    let repo = repo_dir();
    if !repo.join("codegen/src/main.rs").exists() {
        return "regen-failed no-codegen-crate".into();
    }
    // fixed scratch location inside the harness's (git-ignored) target dir: the codegen binary
    // is rebuilt only when codegen/ or tonic-build/ changed
    let scratch = Path::new(env!("CARGO_MANIFEST_DIR")).join("target").join("c11-regen");
    std::fs::create_dir_all(&scratch).unwrap();
    sync_dir(&repo.join("codegen"), &scratch.join("codegen"));
    sync_dir(&repo.join("tonic-build"), &scratch.join("tonic-build"));
    for c in GEN_CRATES {
        sync_dir(&repo.join(c).join("proto"), &scratch.join(c).join("proto"));
        let g = scratch.join(c).join("src/generated");
        let _ = std::fs::remove_dir_all(&g);
        std::fs::create_dir_all(&g).unwrap();
    }
    // the repo's workspace manifest restricted to the two crates the generator needs
    let root = std::fs::read_to_string(repo.join("Cargo.toml")).unwrap();
    let Some(a) = root.find("members = [") else { return "regen-failed workspace-manifest-shape".into() };
    let Some(b) = root[a..].find(']').map(|k| a + k) else { return "regen-failed workspace-manifest-shape".into() };
    let manifest = format!("{}members = [\"codegen\", \"tonic-build\"{}", &root[..a], &root[b..]);
    write_if_changed(&scratch.join("Cargo.toml"), manifest.as_bytes());
    write_if_changed(&scratch.join(".cargo/config.toml"), b"[net]\noffline = true\n");
    if !scratch.join("Cargo.lock").exists() {
        let lock = Path::new(env!("CARGO_MANIFEST_DIR")).join("Cargo.lock");
        std::fs::copy(lock, scratch.join("Cargo.lock")).unwrap();
    }
    // The generator run is a child `cargo run`; a transient failure of that process (killed,
    // resource hiccup — seen once as "exit != 0 with empty stderr" on a loaded machine) must not be
    // reported as a property violation, so it is retried before giving up.
    let mut failure = String::new();
    let mut ok = false;
    for attempt in 0..3 {
        if attempt > 0 {
            std::thread::sleep(std::time::Duration::from_secs(2));
        }
        let out = std::process::Command::new("cargo")
            .args(["run", "-p", "codegen", "--offline", "--quiet"])
            .current_dir(&scratch)
            .stdin(std::process::Stdio::null())
            .env("CARGO_TARGET_DIR", scratch.join("target"))
            .env("CARGO_NET_OFFLINE", "true")
            .env_remove("RUSTFLAGS")
            .output();
        match out {
            Err(e) => failure = format!("regen-failed {}", tok(&e.to_string())),
            Ok(o) if !o.status.success() => {
                let err = String::from_utf8_lossy(&o.stderr);
                let last = err.lines().rev().find(|l| !l.trim().is_empty()).unwrap_or("");
                failure = format!("regen-failed {} status{}", hex(last.as_bytes()), o.status.code().map(|c| c.to_string()).unwrap_or_else(|| "signal".into()));
            }
            Ok(_) => {
                ok = true;
                break;
            }
        }
    }
    if !ok {
        return failure;
    }
    let mut res: Vec<String> = Vec::new();
    for c in GEN_CRATES {
        let committed = repo.join(c).join("src/generated");
        let fresh = scratch.join(c).join("src/generated");
        let mut names: Vec<PathBuf> = files_under(&committed);
        for f in files_under(&fresh) {
            if !names.contains(&f) {
                names.push(f);
            }
        }
        names.sort();
        for f in names {
            let a = std::fs::read(committed.join(&f));
            let b = std::fs::read(fresh.join(&f));
            let verdict = match (a, b) {
                (Ok(a), Ok(b)) if a == b => "same".to_string(),
                (Ok(a), Ok(b)) => {
                    let la: Vec<&[u8]> = a.split(|x| *x == b'\n').collect();
                    let lb: Vec<&[u8]> = b.split(|x| *x == b'\n').collect();
                    let k = la.iter().zip(lb.iter()).position(|(x, y)| x != y).unwrap_or(la.len().min(lb.len()));
                    format!("differs-at-line-{}", k + 1)
                }
                (Ok(_), Err(_)) => "not-regenerated".to_string(),
                (Err(_), Ok(_)) => "not-committed".to_string(),
                _ => "unreadable".to_string(),
            };
            res.push(format!("{}/{}={}", c, f.display(), verdict));
        }
    }
    res.sort();
    format!("files {} {}", res.len(), res.join(" "))
}

// ---------------------------------------------------------------------------------------------
// generation of cases

const PACKAGES: [&str; 9] = ["", "a", "a.b", "grpc.health.v1", "A", "a.S", "my_pkg.v1", "x1.y2.z3", "pkg"];
const SVC_NAMES: [&str; 10] = ["Greeter", "S", "s", "Health", "My_Service", "S1", "greeter", "ServerReflection", "X", "Svc"];
// (rust fn, proto ident)
const METHODS: [(&str, &str); 16] = [
    ("say_hello", "SayHello"),
    ("m", "M"),
    ("mx", "Mx"),
    ("check", "Check"),
    ("watch", "Watch"),
    ("get", "GET"),
    ("do2", "Do2"),
    ("snake_case", "snake_case"),
    ("lower", "lower"),
    ("a", "A"),
    ("type_", "Type"),
    ("match_", "Match"),
    ("self_", "Self"),
    ("x_1", "X_1"),
    ("server_reflection_info", "ServerReflectionInfo"),
    ("unary_call", "unaryCall"),
];
const TYPES: [&str; 6] = ["super::Req", "super::Resp", "crate::pb::HelloRequest", "crate::pb::HelloReply", "Msg1", "super::super::other::Empty2"];
const MSGS: [&str; 6] = ["Req", "Resp", "HelloRequest", "HelloReply", "Msg1", "Empty2"];
const SIDES: [&str; 3] = ["both", "client", "server"];

fn pick_methods(rng: &mut Rng, n: usize) -> Vec<usize> {
    let mut idx: Vec<usize> = (0..METHODS.len()).collect();
    for x in (1..idx.len()).rev() {
        let y = rng.below(x as u64 + 1) as usize;
        idx.swap(x, y);
    }
    idx.truncate(n);
    idx
}

fn gen_line(rng: &mut Rng, emit: bool, arc: bool, stubs: bool, transport: bool, sides: &str, pkg: &str, name: &str, ident: &str, ms: &[(usize, bool, bool)]) -> String {
    let mut s = format!("gen {} {} {} {} {} {} {} {} {}", fl(emit), fl(arc), fl(stubs), fl(transport), sides, dash(pkg), name, ident, ms.len());
    for &(k, cs, ss) in ms {
        let (f, id) = METHODS[k];
        let (i, o) = (*rng.pick(&TYPES), *rng.pick(&TYPES));
        s.push_str(&format!(" {} {} {} {} {} {}", f, id, fl(cs), fl(ss), i, o));
    }
    s
}

fn manual_line(rng: &mut Rng, transport: bool, sides: &str, pkg: &str, name: &str, ms: &[(usize, bool, bool)]) -> String {
    let mut s = format!("manual {} {} {} {} {}", fl(transport), sides, dash(pkg), name, ms.len());
    for &(k, cs, ss) in ms {
        let (f, id) = METHODS[k];
        let (i, o) = (*rng.pick(&TYPES), *rng.pick(&TYPES));
        s.push_str(&format!(" {} {} {} {} {} {}", f, id, fl(cs), fl(ss), i, o));
    }
    s
}

fn prost_line(rng: &mut Rng, emit: bool, arc: bool, stubs: bool, sides: &str, pkg: &str, svc: &str, ms: &[(usize, bool, bool)]) -> String {
    let mut s = format!("prost {} {} {} {} {} {} {}", fl(emit), fl(arc), fl(stubs), sides, dash(pkg), svc, ms.len());
    for &(k, cs, ss) in ms {
        let (_, id) = METHODS[k];
        let (i, o) = (*rng.pick(&MSGS), *rng.pick(&MSGS));
        s.push_str(&format!(" {} {} {} {} {}", id, fl(cs), fl(ss), i, o));
    }
    s
}

pub fn generate(tier: &str, rng: &mut Rng) -> Vec<String> {
    let thorough = tier == "thorough";
    let mut out = Vec::new();
    // ---- the clause without a quantifier
    out.push("regen".to_string());

    // ---- corpus: the descriptors of the committed generated crates, and the classic shapes
    out.push("prost 1 0 0 both grpc.health.v1 Health 2 Check 0 0 HealthCheckRequest HealthCheckResponse Watch 0 1 HealthCheckRequest HealthCheckResponse".into());
    out.push("prost 1 0 0 both grpc.reflection.v1 ServerReflection 1 ServerReflectionInfo 1 1 ServerReflectionRequest ServerReflectionResponse".into());
    out.push("prost 1 0 0 both - Greeter 1 SayHello 0 0 HelloRequest HelloReply".into());
    out.push("prost 0 0 0 both helloworld Greeter 1 SayHello 0 0 HelloRequest HelloReply".into());
    out.push("gen 1 0 0 1 both helloworld Greeter Greeter 1 say_hello SayHello 0 0 super::HelloRequest super::HelloReply".into());
    out.push("gen 0 0 0 1 both helloworld Greeter Greeter 1 say_hello SayHello 0 0 super::HelloRequest super::HelloReply".into());
    out.push("gen 1 0 0 1 both - Greeter Greeter 0".into());
    out.push("manual 1 both helloworld Greeter 1 say_hello SayHello 0 0 crate::HelloRequest super::HelloResponse".into());
    out.push("manual 1 both - Greeter 4 m M 0 0 crate::A crate::B mx Mx 0 1 crate::A crate::B check Check 1 0 crate::B crate::A watch Watch 1 1 crate::B crate::B".into());

    // ---- structured, exhaustive small scope: every package shape × emit × the 4 kinds × sides
    for pkg in PACKAGES {
        for emit in [true, false] {
            for sides in SIDES {
                let ms: Vec<(usize, bool, bool)> = vec![(0, false, false), (4, false, true), (1, true, false), (14, true, true)];
                let (arc, stubs, transport) = (rng.chance(1, 2), rng.chance(1, 2), rng.chance(1, 2));
                // Rust name deliberately differs from the proto identifier
                out.push(gen_line(rng, emit, arc, stubs, transport, sides, pkg, "RustName", "ProtoName", &ms));
                let sn = *rng.pick(&SVC_NAMES);
                out.push(prost_line(rng, emit, arc, stubs, sides, pkg, sn, &ms));
                if emit {
                    let sn = *rng.pick(&SVC_NAMES);
                    out.push(manual_line(rng, transport, sides, pkg, sn, &ms));
                }
            }
        }
    }
    // every single method shape × kind × builder option combination (1-method services)
    for k in 0..METHODS.len() {
        for kind in 0..4u8 {
            let (cs, ss) = (kind & 2 != 0, kind & 1 != 0);
            for opt in 0..4u8 {
                let (arc, stubs) = (opt & 1 != 0, opt & 2 != 0);
                let pkg = *rng.pick(&PACKAGES);
                let name = *rng.pick(&SVC_NAMES);
                out.push(gen_line(rng, true, arc, stubs, true, "both", pkg, name, name, &[(k, cs, ss)]));
                out.push(prost_line(rng, true, arc, stubs, "both", pkg, name, &[(k, cs, ss)]));
            }
        }
    }

    // ---- random descriptors
    let nrand = if thorough { 30000 } else { 500 };
    for _ in 0..nrand {
        let n = match rng.below(10) {
            0 => 0,
            1..=3 => 1,
            4..=6 => 2 + rng.below(3) as usize,
            _ => 5 + rng.below(10) as usize,
        };
        let ms: Vec<(usize, bool, bool)> = pick_methods(rng, n).into_iter().map(|k| (k, rng.chance(1, 2), rng.chance(1, 2))).collect();
        let pkg = *rng.pick(&PACKAGES);
        let name = *rng.pick(&SVC_NAMES);
        let sides = if rng.chance(2, 3) { "both" } else { *rng.pick(&SIDES) };
        let (emit, arc, stubs, transport) = (rng.chance(3, 4), rng.chance(1, 3), rng.chance(1, 3), rng.chance(1, 2));
        match rng.below(5) {
            0 | 1 => {
                let ident = if rng.chance(1, 2) { name } else { *rng.pick(&SVC_NAMES) };
                out.push(gen_line(rng, emit, arc, stubs, transport, sides, pkg, name, ident, &ms))
            }
            2 => out.push(manual_line(rng, transport, sides, pkg, name, &ms)),
            _ => out.push(prost_line(rng, emit, arc, stubs, sides, pkg, name, &ms)),
        }
    }

    // ---- end to end through the compiled pool: every method of every pool service, alone,
    // among all others, and absent
    let n = POOL.len();
    let all: Vec<usize> = (0..n).collect();
    for i in 0..n {
        for j in 0..POOL[i].2.len() {
            out.push(e2e_line("routes", Wrap::Probe, &[i], i, j, 3));
            out.push(e2e_line("builder", Wrap::ALL[(i + j) % 4], &all, i, j, (i + 2 * j) % 7));
            let without: Vec<usize> = all.iter().copied().filter(|x| *x != i).collect();
            out.push(e2e_line("routes", Wrap::ALL[(i + j + 1) % 4], &without, i, j, 1));
        }
    }
    let ne2e = if thorough { 15000 } else { 400 };
    for _ in 0..ne2e {
        let k = 1 + rng.below(n as u64) as usize;
        let mut order = all.clone();
        for x in (1..order.len()).rev() {
            let y = rng.below(x as u64 + 1) as usize;
            order.swap(x, y);
        }
        order.truncate(k);
        let i = if rng.chance(4, 5) { *rng.pick(&order) } else { rng.below(n as u64) as usize };
        let j = rng.below(POOL[i].2.len() as u64) as usize;
        let api = if rng.chance(1, 2) { "routes" } else { "builder" };
        out.push(e2e_line(api, *rng.pick(&Wrap::ALL), &order, i, j, rng.below(40) as usize));
    }
    out
}

pub fn execute(case: &str) -> String {
    let t: Vec<&str> = case.split(' ').collect();
    match t[0] {
        "gen" => run_gen(&t),
        "manual" => run_manual(&t),
        "prost" => run_prost(&t),
        "e2e" => run_e2e(&t),
        "regen" => run_regen(),
        _ => "bad-case".into(),
    }
}
