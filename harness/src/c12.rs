//! C12 — interceptors change only what they change and can veto a call.
//!
//! Drives the real `tonic::service::interceptor::InterceptedService` (through `new` or through
//! `InterceptorLayer`) around a recording inner service, with a scripted stateful interceptor.
//!
//! case    := KIND via nscripts script* ncalls call*
//! script  := nops op* ( ok | rej ctor code msg details src hdrs )
//! op      := hins n v s | happ n v s | hrem n | mins n v | mapp n v | mrem n
//!          | bins n raw | bapp n raw | brem n | clear | cnt n | xset id v | xrm id | xclear
//! call    := method version uri hdrs ext body resp
//! hdrs    := count (name value sens)*          ext := count (id value)*
//! body    := nchunks chunk* ( notr | tr hdrs )
//! resp    := r status version hdrs ext body | e n
//!
//! observed := per call: `isaw hdrs xext` (`iret hdrs xext` | `irej code msg details hdrs`)
//!             (`inner method version uri hdrs xext body` | `noinner`)
//!             (`out status version hdrs xext eos szlo szhi body` | `outerr n`), then `calls n`
//! where xext := total-len count (id value)*, header lists sorted by name (per-name order kept).
use crate::common::*;
use bytes::Bytes;
use http::{HeaderMap, HeaderName, HeaderValue};
use http_body::{Body, Frame, SizeHint};
use std::collections::VecDeque;
use std::pin::Pin;
use std::sync::{Arc, Mutex};
use std::task::{Context, Poll, Waker};
use tonic::metadata::{MetadataKey, MetadataMap, MetadataValue};
use tonic::service::interceptor::{InterceptedService, InterceptorLayer};
use tonic::{Code, Status};
use tower_layer::Layer;
use tower_service::Service;

#[path = "c12_x.rs"]
mod x;

// ---------------------------------------------------------------------------------------------
// case data

#[derive(Clone, Debug)]
struct H(Vec<(Vec<u8>, Vec<u8>, bool)>);

#[derive(Clone, Debug)]
enum Op {
    HIns(Vec<u8>, Vec<u8>, bool),
    HApp(Vec<u8>, Vec<u8>, bool),
    HRem(Vec<u8>),
    MIns(Vec<u8>, Vec<u8>),
    MApp(Vec<u8>, Vec<u8>),
    MRem(Vec<u8>),
    BIns(Vec<u8>, Vec<u8>),
    BApp(Vec<u8>, Vec<u8>),
    BRem(Vec<u8>),
    Clear,
    Cnt(Vec<u8>),
    XSet(u8, Vec<u8>),
    XRm(u8),
    XClear,
}

#[derive(Clone, Debug)]
struct Rej {
    ctor: u8,
    code: i32,
    msg: Vec<u8>,
    details: Vec<u8>,
    src: bool,
    md: H,
}

#[derive(Clone, Debug)]
struct Script {
    ops: Vec<Op>,
    rej: Option<Rej>,
}

#[derive(Clone, Debug)]
struct BodyScript {
    chunks: Vec<Vec<u8>>,
    trailers: Option<H>,
}

#[derive(Clone, Debug)]
enum Resp {
    R { status: u16, version: u8, hdrs: H, ext: Vec<(u8, Vec<u8>)>, body: BodyScript },
    E(u32),
}

#[derive(Clone, Debug)]
struct Call {
    /// what the wrapped service's `poll_ready` says before this call: 0 ready, 1 pending, 2+n `Err(n)`
    ready: u32,
    /// `async` kind only: polls the wrapped service's future stays `Pending` (`!d<k>`); `Pending` polls before every
    /// frame of its response body (`!w<k>`); hint mode of that body (`!h<m>`, see c12_x.rs); future polled only after
    /// all calls have been made (`!l`)
    delay: u32,
    bwait: u32,
    hint: u8,
    late: bool,
    method: Vec<u8>,
    version: u8,
    uri: Vec<u8>,
    hdrs: H,
    ext: Vec<(u8, Vec<u8>)>,
    body: BodyScript,
    resp: Resp,
}

#[derive(Clone, Debug)]
struct Case {
    kind: String,
    via: String,
    scripts: Vec<Script>,
    calls: Vec<Call>,
}

// ---------------------------------------------------------------------------------------------
// rendering of cases

fn r_h(h: &H, out: &mut Vec<String>) {
    out.push(h.0.len().to_string());
    for (n, v, s) in &h.0 {
        out.push(hex(n));
        out.push(hex(v));
        out.push(if *s { "1".into() } else { "0".into() });
    }
}
fn r_ext(x: &[(u8, Vec<u8>)], out: &mut Vec<String>) {
    out.push(x.len().to_string());
    for (id, v) in x {
        out.push(id.to_string());
        out.push(hex(v));
    }
}
fn r_body(b: &BodyScript, out: &mut Vec<String>) {
    out.push(b.chunks.len().to_string());
    for c in &b.chunks {
        out.push(hex(c));
    }
    match &b.trailers {
        None => out.push("notr".into()),
        Some(h) => {
            out.push("tr".into());
            r_h(h, out);
        }
    }
}
fn r_op(op: &Op, out: &mut Vec<String>) {
    let b = |s: bool| if s { "1".to_string() } else { "0".to_string() };
    match op {
        Op::HIns(n, v, s) => out.extend(["hins".into(), hex(n), hex(v), b(*s)]),
        Op::HApp(n, v, s) => out.extend(["happ".into(), hex(n), hex(v), b(*s)]),
        Op::HRem(n) => out.extend(["hrem".into(), hex(n)]),
        Op::MIns(n, v) => out.extend(["mins".into(), hex(n), hex(v)]),
        Op::MApp(n, v) => out.extend(["mapp".into(), hex(n), hex(v)]),
        Op::MRem(n) => out.extend(["mrem".into(), hex(n)]),
        Op::BIns(n, v) => out.extend(["bins".into(), hex(n), hex(v)]),
        Op::BApp(n, v) => out.extend(["bapp".into(), hex(n), hex(v)]),
        Op::BRem(n) => out.extend(["brem".into(), hex(n)]),
        Op::Clear => out.push("clear".into()),
        Op::Cnt(n) => out.extend(["cnt".into(), hex(n)]),
        Op::XSet(id, v) => out.extend(["xset".into(), id.to_string(), hex(v)]),
        Op::XRm(id) => out.extend(["xrm".into(), id.to_string()]),
        Op::XClear => out.push("xclear".into()),
    }
}
fn render(c: &Case) -> String {
    let mut o: Vec<String> = vec![c.kind.clone(), c.via.clone(), c.scripts.len().to_string()];
    for s in &c.scripts {
        o.push(s.ops.len().to_string());
        for op in &s.ops {
            r_op(op, &mut o);
        }
        match &s.rej {
            None => o.push("ok".into()),
            Some(r) => {
                o.extend([
                    "rej".into(),
                    r.ctor.to_string(),
                    r.code.to_string(),
                    hex(&r.msg),
                    hex(&r.details),
                    if r.src { "1".into() } else { "0".into() },
                ]);
                r_h(&r.md, &mut o);
            }
        }
    }
    o.push(c.calls.len().to_string());
    for k in &c.calls {
        if k.ready == 1 {
            o.push("!p".into());
        } else if k.ready >= 2 {
            o.push(format!("!e{}", k.ready - 2));
        }
        if k.delay > 0 {
            o.push(format!("!d{}", k.delay));
        }
        if k.bwait > 0 {
            o.push(format!("!w{}", k.bwait));
        }
        if k.hint > 0 {
            o.push(format!("!h{}", k.hint));
        }
        if k.late {
            o.push("!l".into());
        }
        o.extend([hex(&k.method), k.version.to_string(), hex(&k.uri)]);
        r_h(&k.hdrs, &mut o);
        r_ext(&k.ext, &mut o);
        r_body(&k.body, &mut o);
        match &k.resp {
            Resp::E(n) => o.extend(["e".into(), n.to_string()]),
            Resp::R { status, version, hdrs, ext, body } => {
                o.extend(["r".into(), status.to_string(), version.to_string()]);
                r_h(hdrs, &mut o);
                r_ext(ext, &mut o);
                r_body(body, &mut o);
            }
        }
    }
    o.join(" ")
}

// ---------------------------------------------------------------------------------------------
// parsing of cases

struct Toks<'a> {
    t: Vec<&'a str>,
    i: usize,
}
impl<'a> Toks<'a> {
    fn next(&mut self) -> Option<&'a str> {
        let r = self.t.get(self.i).copied();
        self.i += 1;
        r
    }
    fn num<T: std::str::FromStr>(&mut self) -> Option<T> {
        self.next()?.parse().ok()
    }
    fn bytes(&mut self) -> Option<Vec<u8>> {
        unhex(self.next()?)
    }
    fn flag(&mut self) -> Option<bool> {
        match self.next()? {
            "0" => Some(false),
            "1" => Some(true),
            _ => None,
        }
    }
    fn h(&mut self) -> Option<H> {
        let n: usize = self.num()?;
        let mut v = Vec::new();
        for _ in 0..n {
            v.push((self.bytes()?, self.bytes()?, self.flag()?));
        }
        Some(H(v))
    }
    fn ext(&mut self) -> Option<Vec<(u8, Vec<u8>)>> {
        let n: usize = self.num()?;
        let mut v = Vec::new();
        for _ in 0..n {
            v.push((self.num()?, self.bytes()?));
        }
        Some(v)
    }
    fn body(&mut self) -> Option<BodyScript> {
        let n: usize = self.num()?;
        let mut chunks = Vec::new();
        for _ in 0..n {
            chunks.push(self.bytes()?);
        }
        let trailers = match self.next()? {
            "notr" => None,
            "tr" => Some(self.h()?),
            _ => return None,
        };
        Some(BodyScript { chunks, trailers })
    }
    fn op(&mut self) -> Option<Op> {
        Some(match self.next()? {
            "hins" => Op::HIns(self.bytes()?, self.bytes()?, self.flag()?),
            "happ" => Op::HApp(self.bytes()?, self.bytes()?, self.flag()?),
            "hrem" => Op::HRem(self.bytes()?),
            "mins" => Op::MIns(self.bytes()?, self.bytes()?),
            "mapp" => Op::MApp(self.bytes()?, self.bytes()?),
            "mrem" => Op::MRem(self.bytes()?),
            "bins" => Op::BIns(self.bytes()?, self.bytes()?),
            "bapp" => Op::BApp(self.bytes()?, self.bytes()?),
            "brem" => Op::BRem(self.bytes()?),
            "clear" => Op::Clear,
            "cnt" => Op::Cnt(self.bytes()?),
            "xset" => Op::XSet(self.num()?, self.bytes()?),
            "xrm" => Op::XRm(self.num()?),
            "xclear" => Op::XClear,
            _ => return None,
        })
    }
}

fn parse(case: &str) -> Option<Case> {
    let mut t = Toks { t: case.split(' ').filter(|s| !s.is_empty()).collect(), i: 0 };
    let kind = t.next()?.to_string();
    let via = t.next()?.to_string();
    let ns: usize = t.num()?;
    let mut scripts = Vec::new();
    for _ in 0..ns {
        let nops: usize = t.num()?;
        let mut ops = Vec::new();
        for _ in 0..nops {
            ops.push(t.op()?);
        }
        let rej = match t.next()? {
            "ok" => None,
            "rej" => Some(Rej {
                ctor: t.num()?,
                code: t.num()?,
                msg: t.bytes()?,
                details: t.bytes()?,
                src: t.flag()?,
                md: t.h()?,
            }),
            _ => return None,
        };
        scripts.push(Script { ops, rej });
    }
    let nc: usize = t.num()?;
    let mut calls = Vec::new();
    for _ in 0..nc {
        // optional markers: `!p` pending, `!e<n>` error n (default: ready); `!d<k>` `!w<k>` `!h<m>` `!l` (async kind)
        let mut ready = 0u32;
        let (mut delay, mut bwait, mut hint, mut late) = (0u32, 0u32, 0u8, false);
        while let Some(tok) = t.t.get(t.i).copied() {
            let Some(m) = tok.strip_prefix('!') else { break };
            t.i += 1;
            if m == "p" {
                ready = 1;
            } else if m == "l" {
                late = true;
            } else if let Some(n) = m.strip_prefix('e') {
                ready = 2 + n.parse::<u32>().ok()?;
            } else if let Some(n) = m.strip_prefix('d') {
                delay = n.parse().ok()?;
            } else if let Some(n) = m.strip_prefix('w') {
                bwait = n.parse().ok()?;
            } else if let Some(n) = m.strip_prefix('h') {
                hint = n.parse().ok()?;
                if hint > 4 {
                    return None;
                }
            } else {
                return None;
            }
        }
        let method = t.bytes()?;
        let version = t.num()?;
        let uri = t.bytes()?;
        let hdrs = t.h()?;
        let ext = t.ext()?;
        let body = t.body()?;
        let resp = match t.next()? {
            "e" => Resp::E(t.num()?),
            "r" => Resp::R { status: t.num()?, version: t.num()?, hdrs: t.h()?, ext: t.ext()?, body: t.body()? },
            _ => return None,
        };
        calls.push(Call { ready, delay, bwait, hint, late, method, version, uri, hdrs, ext, body, resp });
    }
    if t.i != t.t.len() {
        return None;
    }
    Some(Case { kind, via, scripts, calls })
}

// ---------------------------------------------------------------------------------------------
// real objects

#[derive(Clone)]
struct Ext0(Vec<u8>);
#[derive(Clone)]
struct Ext1(Vec<u8>);
#[derive(Clone)]
struct Ext2(Vec<u8>);
#[derive(Clone)]
struct Ext3(Vec<u8>);

fn ext_set(x: &mut http::Extensions, id: u8, v: Vec<u8>) {
    match id {
        0 => drop(x.insert(Ext0(v))),
        1 => drop(x.insert(Ext1(v))),
        2 => drop(x.insert(Ext2(v))),
        _ => drop(x.insert(Ext3(v))),
    }
}
fn ext_rm(x: &mut http::Extensions, id: u8) {
    match id {
        0 => drop(x.remove::<Ext0>()),
        1 => drop(x.remove::<Ext1>()),
        2 => drop(x.remove::<Ext2>()),
        _ => drop(x.remove::<Ext3>()),
    }
}
fn mk_ext(x: &[(u8, Vec<u8>)]) -> http::Extensions {
    let mut e = http::Extensions::new();
    for (id, v) in x {
        ext_set(&mut e, *id, v.clone());
    }
    e
}
fn show_ext(x: &http::Extensions) -> String {
    let mut items: Vec<String> = Vec::new();
    if let Some(v) = x.get::<Ext0>() {
        items.push(format!("0 {}", hex(&v.0)));
    }
    if let Some(v) = x.get::<Ext1>() {
        items.push(format!("1 {}", hex(&v.0)));
    }
    if let Some(v) = x.get::<Ext2>() {
        items.push(format!("2 {}", hex(&v.0)));
    }
    if let Some(v) = x.get::<Ext3>() {
        items.push(format!("3 {}", hex(&v.0)));
    }
    let mut s = format!("{} {}", x.len(), items.len());
    for i in items {
        s.push(' ');
        s.push_str(&i);
    }
    s
}

fn mk_headers(h: &H) -> Option<HeaderMap> {
    let mut m = HeaderMap::new();
    for (n, v, s) in &h.0 {
        let name = HeaderName::from_bytes(n).ok()?;
        let mut val = HeaderValue::from_bytes(v).ok()?;
        val.set_sensitive(*s);
        m.append(name, val);
    }
    Some(m)
}

fn show_headers(m: &HeaderMap) -> String {
    let mut keys: Vec<&HeaderName> = m.keys().collect();
    keys.sort_by(|a, b| a.as_str().as_bytes().cmp(b.as_str().as_bytes()));
    keys.dedup();
    let mut s = m.len().to_string();
    for k in keys {
        for v in m.get_all(k) {
            s.push_str(&format!(
                " {} {} {}",
                hex(k.as_str().as_bytes()),
                hex(v.as_bytes()),
                if v.is_sensitive() { 1 } else { 0 }
            ));
        }
    }
    s
}

fn version_of(v: u8) -> Option<http::Version> {
    Some(match v {
        9 => http::Version::HTTP_09,
        10 => http::Version::HTTP_10,
        11 => http::Version::HTTP_11,
        2 => http::Version::HTTP_2,
        3 => http::Version::HTTP_3,
        _ => return None,
    })
}
fn version_tok(v: http::Version) -> &'static str {
    if v == http::Version::HTTP_09 {
        "9"
    } else if v == http::Version::HTTP_10 {
        "10"
    } else if v == http::Version::HTTP_11 {
        "11"
    } else if v == http::Version::HTTP_2 {
        "2"
    } else if v == http::Version::HTTP_3 {
        "3"
    } else {
        "?"
    }
}

/// A body that yields scripted frames; counts polls after the end.
struct ScriptBody {
    frames: VecDeque<Frame<Bytes>>,
    remaining_data: u64,
}
impl ScriptBody {
    fn new(b: &BodyScript) -> Option<Self> {
        let mut frames = VecDeque::new();
        let mut n = 0u64;
        for c in &b.chunks {
            n += c.len() as u64;
            frames.push_back(Frame::data(Bytes::from(c.clone())));
        }
        if let Some(t) = &b.trailers {
            frames.push_back(Frame::trailers(mk_headers(t)?));
        }
        Some(ScriptBody { frames, remaining_data: n })
    }
}
impl Default for ScriptBody {
    fn default() -> Self {
        ScriptBody { frames: VecDeque::new(), remaining_data: 0 }
    }
}
impl Body for ScriptBody {
    type Data = Bytes;
    type Error = std::convert::Infallible;
    fn poll_frame(mut self: Pin<&mut Self>, _cx: &mut Context<'_>) -> Poll<Option<Result<Frame<Bytes>, Self::Error>>> {
        match self.frames.pop_front() {
            Some(f) => {
                if let Some(d) = f.data_ref() {
                    self.remaining_data -= d.len() as u64;
                }
                Poll::Ready(Some(Ok(f)))
            }
            None => Poll::Ready(None),
        }
    }
    fn is_end_stream(&self) -> bool {
        self.frames.is_empty()
    }
    fn size_hint(&self) -> SizeHint {
        SizeHint::with_exact(self.remaining_data)
    }
}

/// Drain any body: `nchunks chunk* (notr | tr hdrs)`; more than one trailers frame, data after
/// trailers or a pending poll are reported literally so they cannot be mistaken for the script.
fn drain<B: Body<Data = Bytes> + Unpin>(mut b: B) -> String
where
    B::Error: std::fmt::Debug,
{
    let mut cx = Context::from_waker(Waker::noop());
    let mut chunks: Vec<String> = Vec::new();
    let mut trailers: Option<String> = None;
    let mut odd = String::new();
    for _ in 0..10_000 {
        match Pin::new(&mut b).poll_frame(&mut cx) {
            Poll::Pending => {
                odd.push_str(" pending");
                break;
            }
            Poll::Ready(None) => break,
            Poll::Ready(Some(Err(_))) => {
                odd.push_str(" bodyerr");
                break;
            }
            Poll::Ready(Some(Ok(f))) => {
                if f.is_data() {
                    if trailers.is_some() {
                        odd.push_str(" data-after-trailers");
                    }
                    chunks.push(hex(&f.into_data().ok().unwrap()));
                } else if f.is_trailers() {
                    if trailers.is_some() {
                        odd.push_str(" second-trailers");
                    }
                    trailers = Some(show_headers(&f.into_trailers().ok().unwrap()));
                }
            }
        }
    }
    let mut s = chunks.len().to_string();
    for c in chunks {
        s.push(' ');
        s.push_str(&c);
    }
    match trailers {
        None => s.push_str(" notr"),
        Some(t) => {
            s.push_str(" tr ");
            s.push_str(&t);
        }
    }
    s.push_str(&odd);
    s
}

#[derive(Debug)]
struct InnerErr(u32);

type Log = Arc<Mutex<Vec<String>>>;

/// The wrapped service: records what it receives, answers from the per-call script.
struct Recorder {
    log: Log,
    calls: Arc<Mutex<usize>>,
    resps: Arc<Vec<Resp>>,
    ready: Arc<Vec<u32>>,
    cur: Arc<Mutex<usize>>,
}
impl Service<http::Request<ScriptBody>> for Recorder {
    type Response = http::Response<ScriptBody>;
    type Error = InnerErr;
    type Future = std::future::Ready<Result<Self::Response, Self::Error>>;
    fn poll_ready(&mut self, _cx: &mut Context<'_>) -> Poll<Result<(), Self::Error>> {
        match self.ready[*self.cur.lock().unwrap()] {
            0 => Poll::Ready(Ok(())),
            1 => Poll::Pending,
            n => Poll::Ready(Err(InnerErr(n - 2))),
        }
    }
    fn call(&mut self, req: http::Request<ScriptBody>) -> Self::Future {
        *self.calls.lock().unwrap() += 1;
        let (parts, body) = req.into_parts();
        let line = format!(
            "inner {} {} {} {} {} {}",
            hex(parts.method.as_str().as_bytes()),
            version_tok(parts.version),
            hex(parts.uri.to_string().as_bytes()),
            show_headers(&parts.headers),
            show_ext(&parts.extensions),
            drain(body)
        );
        self.log.lock().unwrap().push(line);
        let idx = *self.cur.lock().unwrap();
        let r = match &self.resps[idx] {
            Resp::E(n) => Err(InnerErr(*n)),
            Resp::R { status, version, hdrs, ext, body } => {
                let mut res = http::Response::new(ScriptBody::new(body).expect("resp body"));
                *res.status_mut() = http::StatusCode::from_u16(*status).expect("status");
                *res.version_mut() = version_of(*version).expect("version");
                *res.headers_mut() = mk_headers(hdrs).expect("resp headers");
                *res.extensions_mut() = mk_ext(ext);
                Ok(res)
            }
        };
        std::future::ready(r)
    }
}

fn code_of(n: i32) -> Code {
    Code::from_i32(n)
}

fn mk_status(r: &Rej) -> Status {
    let msg = String::from_utf8(r.msg.clone()).expect("status message must be UTF-8");
    let md = MetadataMap::from_headers(mk_headers(&r.md).expect("status metadata"));
    let mut st = match r.ctor % 4 {
        0 => {
            let mut st = Status::new(code_of(r.code), msg);
            if !r.details.is_empty() {
                st = Status::with_details(code_of(r.code), st.message().to_string(), Bytes::from(r.details.clone()));
            }
            *st.metadata_mut() = md;
            st
        }
        1 => Status::with_details_and_metadata(code_of(r.code), msg, Bytes::from(r.details.clone()), md),
        2 => {
            if r.details.is_empty() {
                Status::with_metadata(code_of(r.code), msg, md)
            } else {
                Status::with_details_and_metadata(code_of(r.code), msg, Bytes::from(r.details.clone()), md)
            }
        }
        _ => {
            let st = Status::with_details_and_metadata(code_of(r.code), msg, Bytes::from(r.details.clone()), md);
            st.clone()
        }
    };
    if r.src {
        st.set_source(Arc::new(std::io::Error::new(std::io::ErrorKind::Other, "source")));
    }
    st
}

fn apply_op(op: &Op, count: usize, req: tonic::Request<()>) -> tonic::Request<()> {
    let raw = |req: tonic::Request<()>, f: &dyn Fn(&mut HeaderMap)| {
        let (md, ext, ()) = req.into_parts();
        let mut h = md.into_headers();
        f(&mut h);
        tonic::Request::from_parts(MetadataMap::from_headers(h), ext, ())
    };
    let hv = |v: &Vec<u8>, s: bool| {
        let mut val = HeaderValue::from_bytes(v).expect("op value");
        val.set_sensitive(s);
        val
    };
    let mut req = req;
    match op {
        Op::HIns(n, v, s) => raw(req, &|h| {
            h.insert(HeaderName::from_bytes(n).expect("op name"), hv(v, *s));
        }),
        Op::HApp(n, v, s) => raw(req, &|h| {
            h.append(HeaderName::from_bytes(n).expect("op name"), hv(v, *s));
        }),
        Op::HRem(n) => raw(req, &|h| {
            h.remove(HeaderName::from_bytes(n).expect("op name"));
        }),
        Op::MIns(n, v) => {
            let k = MetadataKey::<tonic::metadata::Ascii>::from_bytes(n).expect("ascii key");
            let val = MetadataValue::try_from(&v[..]).expect("ascii value");
            req.metadata_mut().insert(k, val);
            req
        }
        Op::MApp(n, v) => {
            let k = MetadataKey::<tonic::metadata::Ascii>::from_bytes(n).expect("ascii key");
            let val = MetadataValue::try_from(&v[..]).expect("ascii value");
            req.metadata_mut().append(k, val);
            req
        }
        Op::MRem(n) => {
            let k = MetadataKey::<tonic::metadata::Ascii>::from_bytes(n).expect("ascii key");
            req.metadata_mut().remove(k);
            req
        }
        Op::BIns(n, v) => {
            let k = MetadataKey::<tonic::metadata::Binary>::from_bytes(n).expect("bin key");
            req.metadata_mut().insert_bin(k, MetadataValue::from_bytes(v));
            req
        }
        Op::BApp(n, v) => {
            let k = MetadataKey::<tonic::metadata::Binary>::from_bytes(n).expect("bin key");
            req.metadata_mut().append_bin(k, MetadataValue::from_bytes(v));
            req
        }
        Op::BRem(n) => {
            let k = MetadataKey::<tonic::metadata::Binary>::from_bytes(n).expect("bin key");
            req.metadata_mut().remove_bin(k);
            req
        }
        Op::Clear => {
            req.metadata_mut().clear();
            req
        }
        Op::Cnt(n) => raw(req, &|h| {
            h.insert(
                HeaderName::from_bytes(n).expect("op name"),
                HeaderValue::from_str(&count.to_string()).unwrap(),
            );
        }),
        Op::XSet(id, v) => {
            ext_set(req.extensions_mut(), *id, v.clone());
            req
        }
        Op::XRm(id) => {
            ext_rm(req.extensions_mut(), *id);
            req
        }
        Op::XClear => {
            req.extensions_mut().clear();
            req
        }
    }
}

fn show_status_fields(st: &Status) -> String {
    format!(
        "{} {} {} {}",
        i32::from(st.code()),
        hex(st.message().as_bytes()),
        hex(st.details()),
        show_headers(&st.metadata().clone().into_headers())
    )
}

fn ready<F: std::future::Future + Unpin>(mut f: F) -> Option<F::Output> {
    let mut cx = Context::from_waker(Waker::noop());
    match Pin::new(&mut f).poll(&mut cx) {
        Poll::Ready(v) => Some(v),
        Poll::Pending => None,
    }
}

pub fn execute(case: &str) -> String {
    if case.starts_with("client ") {
        return execute_client(case);
    }
    if case.starts_with("routed ") {
        return execute_routed(case);
    }
    let c = match parse(case) {
        Some(c) => c,
        None => return "bad-case".into(),
    };
    if c.kind == "async" {
        return x::execute_async(&c);
    }
    if c.kind == "gsrv" {
        return x::execute_gsrv(&c);
    }
    if c.calls.iter().any(|k| k.delay > 0 || k.bwait > 0 || k.hint > 0 || k.late) {
        return "bad-case".into();
    }
    let log: Log = Arc::new(Mutex::new(Vec::new()));
    let calls = Arc::new(Mutex::new(0usize));
    let cur = Arc::new(Mutex::new(0usize));
    let resps: Arc<Vec<Resp>> = Arc::new(c.calls.iter().map(|k| k.resp.clone()).collect());
    let readiness: Arc<Vec<u32>> = Arc::new(c.calls.iter().map(|k| k.ready).collect());
    let inner = Recorder { log: log.clone(), calls: calls.clone(), resps, ready: readiness, cur: cur.clone() };

    // the scripted interceptor: FnMut with a call counter as its state
    let scripts = c.scripts.clone();
    let ilog = log.clone();
    let mut count = 0usize;
    let interceptor = move |req: tonic::Request<()>| -> Result<tonic::Request<()>, Status> {
        let mine = count;
        count += 1;
        ilog.lock().unwrap().push(format!(
            "isaw {} {}",
            show_headers(&req.metadata().clone().into_headers()),
            show_ext(req.extensions())
        ));
        if scripts.is_empty() {
            ilog.lock().unwrap().push(format!(
                "iret {} {}",
                show_headers(&req.metadata().clone().into_headers()),
                show_ext(req.extensions())
            ));
            return Ok(req);
        }
        let sc = &scripts[mine % scripts.len()];
        let mut req = req;
        for op in &sc.ops {
            req = apply_op(op, mine, req);
        }
        match &sc.rej {
            None => {
                ilog.lock().unwrap().push(format!(
                    "iret {} {}",
                    show_headers(&req.metadata().clone().into_headers()),
                    show_ext(req.extensions())
                ));
                Ok(req)
            }
            Some(r) => {
                let st = mk_status(r);
                ilog.lock().unwrap().push(format!("irej {}", show_status_fields(&st)));
                Err(st)
            }
        }
    };

    // Box the closure so that both construction paths have one type.
    let boxed: Box<dyn FnMut(tonic::Request<()>) -> Result<tonic::Request<()>, Status> + Send> = Box::new(interceptor);
    let shared = SharedIcpt(Arc::new(Mutex::new(boxed)));
    let mut svc: InterceptedService<Recorder, SharedIcpt> = match c.via.as_str() {
        "layer" => InterceptorLayer::new(shared).layer(inner),
        _ => InterceptedService::new(inner, shared),
    };

    for (idx, k) in c.calls.iter().enumerate() {
        *cur.lock().unwrap() = idx;
        let before = *calls.lock().unwrap();
        let body = match ScriptBody::new(&k.body) {
            Some(b) => b,
            None => return "bad-case".into(),
        };
        let mut req = http::Request::new(body);
        let (m, v, u, h) = match (
            http::Method::from_bytes(&k.method).ok(),
            version_of(k.version),
            std::str::from_utf8(&k.uri).ok().and_then(|s| s.parse::<http::Uri>().ok()),
            mk_headers(&k.hdrs),
        ) {
            (Some(m), Some(v), Some(u), Some(h)) => (m, v, u, h),
            _ => return "bad-case".into(),
        };
        *req.method_mut() = m;
        *req.version_mut() = v;
        *req.uri_mut() = u;
        *req.headers_mut() = h;
        *req.extensions_mut() = mk_ext(&k.ext);

        let mut cx = Context::from_waker(Waker::noop());
        match svc.poll_ready(&mut cx) {
            Poll::Ready(Ok(())) => {}
            Poll::Pending => {
                // a tower caller does not call a service that is not ready
                log.lock().unwrap().push("notready pending".into());
                continue;
            }
            Poll::Ready(Err(InnerErr(n))) => {
                log.lock().unwrap().push(format!("notready err {}", n));
                continue;
            }
        }
        let fut = Box::pin(svc.call(req));
        // everything the future needs has happened synchronously in `call` for the accept
        // path; the reject path builds the response on first poll
        let after_call = *calls.lock().unwrap();
        let out = ready(fut);
        let after = *calls.lock().unwrap();
        if after == before {
            log.lock().unwrap().push("noinner".into());
        } else if after != before + 1 || after_call != after {
            log.lock().unwrap().push(format!("inner-calls {}", after - before));
        }
        let line = match out {
            None => "out-pending".to_string(),
            Some(Err(InnerErr(n))) => format!("outerr {}", n),
            Some(Ok(res)) => {
                let (parts, body) = res.into_parts();
                let eos = body.is_end_stream();
                let sh = body.size_hint();
                format!(
                    "out {} {} {} {} {} {} {} {}",
                    parts.status.as_u16(),
                    version_tok(parts.version),
                    show_headers(&parts.headers),
                    show_ext(&parts.extensions),
                    if eos { 1 } else { 0 },
                    sh.lower(),
                    opt_tok(sh.upper().map(|x| x as u128)),
                    drain(Box::pin(body))
                )
            }
        };
        log.lock().unwrap().push(line);
    }
    let mut out = log.lock().unwrap().join(" ");
    if !out.is_empty() {
        out.push(' ');
    }
    out.push_str(&format!("calls {}", *calls.lock().unwrap()));
    out
}

/// `Interceptor` is implemented for `FnMut`; the layer needs `Clone`, so share the closure.
#[derive(Clone)]
struct SharedIcpt(Arc<Mutex<Box<dyn FnMut(tonic::Request<()>) -> Result<tonic::Request<()>, Status> + Send>>>);
impl tonic::service::Interceptor for SharedIcpt {
    fn call(&mut self, request: tonic::Request<()>) -> Result<tonic::Request<()>, Status> {
        (self.0.lock().unwrap())(request)
    }
}

// ---------------------------------------------------------------------------------------------
// client kind: tonic::client::Grpc<InterceptedService<Mock, F>>::server_streaming
//
// case  := client via nscripts script* ncalls ccall*
// ccall := origin-prefix origin-path origin-has-query path hdrs ext msg rhdrs rext
// observed per call: isaw.. (iret..|irej..) (inner..|noinner)
//                    (cok hdrs xext | cerr code msg details hdrs | cpending), then `calls n`

#[derive(Clone, Debug)]
struct CCall {
    prefix: Vec<u8>,
    opath: Vec<u8>,
    oquery: bool,
    path: Vec<u8>,
    hdrs: H,
    ext: Vec<(u8, Vec<u8>)>,
    msg: Vec<u8>,
    rhdrs: H,
    rext: Vec<(u8, Vec<u8>)>,
}

struct CCase {
    via: String,
    scripts: Vec<Script>,
    calls: Vec<CCall>,
}

fn parse_scripts(t: &mut Toks) -> Option<Vec<Script>> {
    let ns: usize = t.num()?;
    let mut scripts = Vec::new();
    for _ in 0..ns {
        let nops: usize = t.num()?;
        let mut ops = Vec::new();
        for _ in 0..nops {
            ops.push(t.op()?);
        }
        let rej = match t.next()? {
            "ok" => None,
            "rej" => Some(Rej { ctor: t.num()?, code: t.num()?, msg: t.bytes()?, details: t.bytes()?, src: t.flag()?, md: t.h()? }),
            _ => return None,
        };
        scripts.push(Script { ops, rej });
    }
    Some(scripts)
}

fn parse_client(case: &str) -> Option<CCase> {
    let mut t = Toks { t: case.split(' ').filter(|s| !s.is_empty()).collect(), i: 0 };
    if t.next()? != "client" {
        return None;
    }
    let via = t.next()?.to_string();
    let scripts = parse_scripts(&mut t)?;
    let nc: usize = t.num()?;
    let mut calls = Vec::new();
    for _ in 0..nc {
        calls.push(CCall {
            prefix: t.bytes()?,
            opath: t.bytes()?,
            oquery: t.flag()?,
            path: t.bytes()?,
            hdrs: t.h()?,
            ext: t.ext()?,
            msg: t.bytes()?,
            rhdrs: t.h()?,
            rext: t.ext()?,
        });
    }
    if t.i != t.t.len() {
        return None;
    }
    Some(CCase { via, scripts, calls })
}

fn render_client(c: &CCase) -> String {
    let mut o: Vec<String> = vec!["client".into(), c.via.clone(), c.scripts.len().to_string()];
    for s in &c.scripts {
        o.push(s.ops.len().to_string());
        for op in &s.ops {
            r_op(op, &mut o);
        }
        match &s.rej {
            None => o.push("ok".into()),
            Some(r) => {
                o.extend(["rej".into(), r.ctor.to_string(), r.code.to_string(), hex(&r.msg), hex(&r.details), if r.src { "1".into() } else { "0".into() }]);
                r_h(&r.md, &mut o);
            }
        }
    }
    o.push(c.calls.len().to_string());
    for k in &c.calls {
        o.extend([hex(&k.prefix), hex(&k.opath), if k.oquery { "1".into() } else { "0".into() }, hex(&k.path)]);
        r_h(&k.hdrs, &mut o);
        r_ext(&k.ext, &mut o);
        o.push(hex(&k.msg));
        r_h(&k.rhdrs, &mut o);
        r_ext(&k.rext, &mut o);
    }
    o.join(" ")
}

#[derive(Default, Clone)]
struct RawCodec;
struct RawEnc;
struct RawDec;
impl tonic::codec::Codec for RawCodec {
    type Encode = Vec<u8>;
    type Decode = Vec<u8>;
    type Encoder = RawEnc;
    type Decoder = RawDec;
    fn encoder(&mut self) -> RawEnc {
        RawEnc
    }
    fn decoder(&mut self) -> RawDec {
        RawDec
    }
}
impl tonic::codec::Encoder for RawEnc {
    type Item = Vec<u8>;
    type Error = Status;
    fn encode(&mut self, item: Vec<u8>, dst: &mut tonic::codec::EncodeBuf<'_>) -> Result<(), Status> {
        use bytes::BufMut;
        dst.put_slice(&item);
        Ok(())
    }
}
impl tonic::codec::Decoder for RawDec {
    type Item = Vec<u8>;
    type Error = Status;
    fn decode(&mut self, src: &mut tonic::codec::DecodeBuf<'_>) -> Result<Option<Vec<u8>>, Status> {
        use bytes::Buf;
        let n = src.remaining();
        let mut v = vec![0u8; n];
        src.copy_to_slice(&mut v);
        Ok(Some(v))
    }
}

impl std::fmt::Display for InnerErr {
    fn fmt(&self, f: &mut std::fmt::Formatter<'_>) -> std::fmt::Result {
        write!(f, "inner error {}", self.0)
    }
}
impl std::error::Error for InnerErr {}

/// The transport under the client-side interceptor: records the request, answers trailers-only.
struct ClientMock {
    /// show only the harness's own extension types (the generated client adds `GrpcMethod`)
    known_only: bool,
    log: Log,
    calls: Arc<Mutex<usize>>,
    resps: Arc<Vec<(H, Vec<(u8, Vec<u8>)>)>>,
    cur: Arc<Mutex<usize>>,
}
impl Service<http::Request<tonic::body::Body>> for ClientMock {
    type Response = http::Response<ScriptBody>;
    type Error = InnerErr;
    type Future = std::future::Ready<Result<Self::Response, Self::Error>>;
    fn poll_ready(&mut self, _cx: &mut Context<'_>) -> Poll<Result<(), Self::Error>> {
        Poll::Ready(Ok(()))
    }
    fn call(&mut self, req: http::Request<tonic::body::Body>) -> Self::Future {
        *self.calls.lock().unwrap() += 1;
        let (parts, body) = req.into_parts();
        let line = format!(
            "inner {} {} {} {} {} {}",
            hex(parts.method.as_str().as_bytes()),
            version_tok(parts.version),
            hex(parts.uri.to_string().as_bytes()),
            show_headers(&parts.headers),
            if self.known_only { show_ext_known(&parts.extensions) } else { show_ext(&parts.extensions) },
            drain(body)
        );
        self.log.lock().unwrap().push(line);
        let idx = *self.cur.lock().unwrap();
        let (h, x) = &self.resps[idx];
        let mut res = http::Response::new(ScriptBody::new(&BodyScript { chunks: vec![], trailers: None }).unwrap());
        *res.version_mut() = http::Version::HTTP_2;
        *res.headers_mut() = mk_headers(h).expect("resp headers");
        *res.extensions_mut() = mk_ext(x);
        std::future::ready(Ok(res))
    }
}

fn block_on<F: std::future::Future>(f: F) -> Option<F::Output> {
    let mut f = Box::pin(f);
    let mut cx = Context::from_waker(Waker::noop());
    for _ in 0..1000 {
        if let Poll::Ready(v) = f.as_mut().poll(&mut cx) {
            return Some(v);
        }
    }
    None
}

fn make_interceptor(scripts: Vec<Script>, ilog: Log, known_only: bool) -> SharedIcpt {
    let sx = move |x: &http::Extensions| if known_only { show_ext_known(x) } else { show_ext(x) };
    let mut count = 0usize;
    let interceptor = move |req: tonic::Request<()>| -> Result<tonic::Request<()>, Status> {
        let mine = count;
        count += 1;
        ilog.lock().unwrap().push(format!(
            "isaw {} {}",
            show_headers(&req.metadata().clone().into_headers()),
            sx(req.extensions())
        ));
        let mut req = req;
        let mut rej = None;
        if !scripts.is_empty() {
            let sc = &scripts[mine % scripts.len()];
            for op in &sc.ops {
                req = apply_op(op, mine, req);
            }
            rej = sc.rej.clone();
        }
        match rej {
            None => {
                ilog.lock().unwrap().push(format!(
                    "iret {} {}",
                    show_headers(&req.metadata().clone().into_headers()),
                    sx(req.extensions())
                ));
                Ok(req)
            }
            Some(r) => {
                let st = mk_status(&r);
                ilog.lock().unwrap().push(format!("irej {}", show_status_fields(&st)));
                Err(st)
            }
        }
    };
    let boxed: Box<dyn FnMut(tonic::Request<()>) -> Result<tonic::Request<()>, Status> + Send> = Box::new(interceptor);
    SharedIcpt(Arc::new(Mutex::new(boxed)))
}

fn execute_client(case: &str) -> String {
    let c = match parse_client(case) {
        Some(c) => c,
        None => return "bad-case".into(),
    };
    let log: Log = Arc::new(Mutex::new(Vec::new()));
    let calls = Arc::new(Mutex::new(0usize));
    let cur = Arc::new(Mutex::new(0usize));
    let resps = Arc::new(c.calls.iter().map(|k| (k.rhdrs.clone(), k.rext.clone())).collect::<Vec<_>>());
    let generated = c.via == "gen";
    let shared = make_interceptor(c.scripts.clone(), log.clone(), generated);
    // one client per origin would reset the interceptor; keep one service and re-wrap the
    // (cheaply cloneable) handle: InterceptedService is Clone when both parts are.
    let mock = SharedMock(Arc::new(Mutex::new(ClientMock { known_only: generated, log: log.clone(), calls: calls.clone(), resps, cur: cur.clone() })));
    let svc: InterceptedService<SharedMock, SharedIcpt> = match c.via.as_str() {
        "layer" => InterceptorLayer::new(shared.clone()).layer(mock.clone()),
        _ => InterceptedService::new(mock.clone(), shared.clone()),
    };
    for (idx, k) in c.calls.iter().enumerate() {
        *cur.lock().unwrap() = idx;
        let before = *calls.lock().unwrap();
        let mut origin = k.prefix.clone();
        origin.extend_from_slice(&k.opath);
        if k.oquery {
            origin.extend_from_slice(b"?q=1");
        }
        let origin: http::Uri = match std::str::from_utf8(&origin).ok().and_then(|s| s.parse().ok()) {
            Some(u) => u,
            None => return "bad-case".into(),
        };
        let path: http::uri::PathAndQuery = match std::str::from_utf8(&k.path).ok().and_then(|s| s.parse().ok()) {
            Some(p) => p,
            None => return "bad-case".into(),
        };
        let md = match mk_headers(&k.hdrs) {
            Some(h) => MetadataMap::from_headers(h),
            None => return "bad-case".into(),
        };
        let res = if generated {
            // tonic-build's generated constructor and method: `HealthClient::with_interceptor(t, f).watch(req)`
            use prost::Message;
            let msg = match tonic_health::pb::HealthCheckRequest::decode(&k.msg[..]) {
                Ok(m) if m.encode_to_vec() == k.msg => m,
                _ => return "bad-case".into(),
            };
            if !k.prefix.is_empty() || k.opath != b"/" || k.oquery || k.path != b"/grpc.health.v1.Health/Watch" {
                return "bad-case".into();
            }
            let mut client = tonic_health::pb::health_client::HealthClient::with_interceptor(mock.clone(), shared.clone());
            let mut req = tonic::Request::new(msg);
            *req.metadata_mut() = md;
            *req.extensions_mut() = mk_ext(&k.ext);
            block_on(async { client.watch(req).await }).map(|r| {
                r.map(|resp| {
                    let (md, _stream, ext) = resp.into_parts();
                    format!("cok {} {}", show_headers(&md.into_headers()), show_ext(&ext))
                })
            })
        } else {
            let mut client = tonic::client::Grpc::with_origin(svc.clone(), origin);
            let mut req = tonic::Request::new(k.msg.clone());
            *req.metadata_mut() = md;
            *req.extensions_mut() = mk_ext(&k.ext);
            block_on(async {
                client.ready().await.map_err(|_| Status::internal("not ready"))?;
                client.server_streaming::<Vec<u8>, Vec<u8>, RawCodec>(req, path, RawCodec).await
            })
            .map(|r| {
                r.map(|resp| {
                    let (md, _stream, ext) = resp.into_parts();
                    format!("cok {} {}", show_headers(&md.into_headers()), show_ext(&ext))
                })
            })
        };
        let after = *calls.lock().unwrap();
        if after == before {
            log.lock().unwrap().push("noinner".into());
        } else if after != before + 1 {
            log.lock().unwrap().push(format!("inner-calls {}", after - before));
        }
        let line = match res {
            None => "cpending".to_string(),
            Some(Ok(line)) => line,
            Some(Err(st)) => format!("cerr {}", show_status_fields(&st)),
        };
        log.lock().unwrap().push(line);
    }
    let mut out = log.lock().unwrap().join(" ");
    if !out.is_empty() {
        out.push(' ');
    }
    out.push_str(&format!("calls {}", *calls.lock().unwrap()));
    out
}

#[derive(Clone)]
struct SharedMock(Arc<Mutex<ClientMock>>);
impl Service<http::Request<tonic::body::Body>> for SharedMock {
    type Response = http::Response<ScriptBody>;
    type Error = InnerErr;
    type Future = std::future::Ready<Result<Self::Response, Self::Error>>;
    fn poll_ready(&mut self, cx: &mut Context<'_>) -> Poll<Result<(), Self::Error>> {
        self.0.lock().unwrap().poll_ready(cx)
    }
    fn call(&mut self, req: http::Request<tonic::body::Body>) -> Self::Future {
        self.0.lock().unwrap().call(req)
    }
}

// ---------------------------------------------------------------------------------------------
// routed kind: Routes::new(InterceptedService<Named, F>) (+ a second, unrelated service), i.e. the
// composition a generated `XServer::with_interceptor` value goes through in `Server::add_service`.
// Same grammar as the plain kinds; the URI of each call is `path[?query]`, responses are `r` only.
// observed per call: (`isaw..` (`iret..`|`irej..`) | `noicpt`) (`inner..`|`noinner`) [`other`] `out..`
// (extension lists show only the harness's own marker types: axum adds private ones).

const ROUTED_NAME: &str = "pkg.Svc";

fn show_ext_known(x: &http::Extensions) -> String {
    let full = show_ext(x);
    let mut it = full.splitn(3, ' ');
    let _total = it.next();
    let k = it.next().unwrap_or("0");
    let rest = it.next();
    match rest {
        Some(r) => format!("{} {} {}", k, k, r),
        None => format!("{} {}", k, k),
    }
}

#[derive(Clone)]
struct NamedRecorder {
    log: Log,
    calls: Arc<Mutex<usize>>,
    resps: Arc<Vec<Resp>>,
    cur: Arc<Mutex<usize>>,
}
impl tonic::server::NamedService for NamedRecorder {
    const NAME: &'static str = ROUTED_NAME;
}
impl Service<http::Request<tonic::body::Body>> for NamedRecorder {
    type Response = http::Response<tonic::body::Body>;
    type Error = std::convert::Infallible;
    type Future = std::future::Ready<Result<Self::Response, Self::Error>>;
    fn poll_ready(&mut self, _cx: &mut Context<'_>) -> Poll<Result<(), Self::Error>> {
        Poll::Ready(Ok(()))
    }
    fn call(&mut self, req: http::Request<tonic::body::Body>) -> Self::Future {
        *self.calls.lock().unwrap() += 1;
        let (parts, body) = req.into_parts();
        let line = format!(
            "inner {} {} {} {} {} {}",
            hex(parts.method.as_str().as_bytes()),
            version_tok(parts.version),
            hex(parts.uri.to_string().as_bytes()),
            show_headers(&parts.headers),
            show_ext_known(&parts.extensions),
            drain(body)
        );
        self.log.lock().unwrap().push(line);
        let idx = *self.cur.lock().unwrap();
        let res = match &self.resps[idx] {
            Resp::E(_) => http::Response::new(tonic::body::Body::empty()),
            Resp::R { status, version, hdrs, ext, body } => {
                let mut res = http::Response::new(tonic::body::Body::new(ScriptBody::new(body).expect("resp body")));
                *res.status_mut() = http::StatusCode::from_u16(*status).expect("status");
                *res.version_mut() = version_of(*version).expect("version");
                *res.headers_mut() = mk_headers(hdrs).expect("resp headers");
                *res.extensions_mut() = mk_ext(ext);
                res
            }
        };
        std::future::ready(Ok(res))
    }
}

#[derive(Clone)]
struct OtherSvc(Log);
impl tonic::server::NamedService for OtherSvc {
    const NAME: &'static str = "other.Svc";
}
impl Service<http::Request<tonic::body::Body>> for OtherSvc {
    type Response = http::Response<tonic::body::Body>;
    type Error = std::convert::Infallible;
    type Future = std::future::Ready<Result<Self::Response, Self::Error>>;
    fn poll_ready(&mut self, _cx: &mut Context<'_>) -> Poll<Result<(), Self::Error>> {
        Poll::Ready(Ok(()))
    }
    fn call(&mut self, _req: http::Request<tonic::body::Body>) -> Self::Future {
        self.0.lock().unwrap().push("other".into());
        let mut res = http::Response::new(tonic::body::Body::empty());
        *res.status_mut() = http::StatusCode::IM_A_TEAPOT;
        std::future::ready(Ok(res))
    }
}

fn execute_routed(case: &str) -> String {
    let c = match parse(case) {
        Some(c) => c,
        None => return "bad-case".into(),
    };
    let log: Log = Arc::new(Mutex::new(Vec::new()));
    let calls = Arc::new(Mutex::new(0usize));
    let cur = Arc::new(Mutex::new(0usize));
    let resps: Arc<Vec<Resp>> = Arc::new(c.calls.iter().map(|k| k.resp.clone()).collect());
    let inner = NamedRecorder { log: log.clone(), calls: calls.clone(), resps, cur: cur.clone() };
    let shared = make_interceptor(c.scripts.clone(), log.clone(), true);
    let mut routes = match c.via.as_str() {
        "layer" => tonic::service::Routes::new(InterceptorLayer::new(shared).layer(inner)).add_service(OtherSvc(log.clone())),
        "builder" => {
            let mut b = tonic::service::Routes::builder();
            b.add_service(OtherSvc(log.clone()));
            b.add_service(InterceptedService::new(inner, shared));
            b.routes()
        }
        _ => tonic::service::Routes::new(InterceptedService::new(inner, shared)).add_service(OtherSvc(log.clone())),
    };
    for (idx, k) in c.calls.iter().enumerate() {
        *cur.lock().unwrap() = idx;
        let before = *calls.lock().unwrap();
        let log_before = log.lock().unwrap().len();
        let body = match ScriptBody::new(&k.body) {
            Some(b) => b,
            None => return "bad-case".into(),
        };
        let mut req = http::Request::new(body);
        let (m, v, u, h) = match (
            http::Method::from_bytes(&k.method).ok(),
            version_of(k.version),
            std::str::from_utf8(&k.uri).ok().and_then(|s| s.parse::<http::Uri>().ok()),
            mk_headers(&k.hdrs),
        ) {
            (Some(m), Some(v), Some(u), Some(h)) => (m, v, u, h),
            _ => return "bad-case".into(),
        };
        *req.method_mut() = m;
        *req.version_mut() = v;
        *req.uri_mut() = u;
        *req.headers_mut() = h;
        *req.extensions_mut() = mk_ext(&k.ext);
        let mut cx = Context::from_waker(Waker::noop());
        match Service::<http::Request<ScriptBody>>::poll_ready(&mut routes, &mut cx) {
            Poll::Ready(Ok(())) => {}
            _ => {
                log.lock().unwrap().push("not-ready".into());
                continue;
            }
        }
        let out = block_on(routes.call(req));
        let after = *calls.lock().unwrap();
        {
            let mut l = log.lock().unwrap();
            let icpt_ran = l.len() > log_before && l[log_before].starts_with("isaw");
            if !icpt_ran {
                l.insert(log_before, "noicpt".into());
            }
            if after == before {
                // keep the order: decision, then inner/noinner
                let pos = l.len() - l[log_before..].iter().rev().take_while(|x| x.as_str() == "other").count();
                l.insert(pos, "noinner".into());
            } else if after != before + 1 {
                l.push(format!("inner-calls {}", after - before));
            }
        }
        let line = match out {
            None => "out-pending".to_string(),
            Some(Err(e)) => match e {},
            Some(Ok(res)) => {
                let (parts, body) = res.into_parts();
                let eos = body.is_end_stream();
                let sh = body.size_hint();
                format!(
                    "out {} {} {} {} {} {} {} {}",
                    parts.status.as_u16(),
                    version_tok(parts.version),
                    show_headers(&parts.headers),
                    show_ext_known(&parts.extensions),
                    if eos { 1 } else { 0 },
                    sh.lower(),
                    opt_tok(sh.upper().map(|x| x as u128)),
                    drain(body)
                )
            }
        };
        log.lock().unwrap().push(line);
    }
    let mut out = log.lock().unwrap().join(" ");
    if !out.is_empty() {
        out.push(' ');
    }
    out.push_str(&format!("calls {}", *calls.lock().unwrap()));
    out
}

// ---------------------------------------------------------------------------------------------
// generators

const RESERVED: [&str; 6] = ["te", "user-agent", "content-type", "grpc-message", "grpc-message-type", "grpc-status"];
const ASCII_NAMES: [&str; 25] = [
    "x-a",
    "x-b",
    "x-c",
    "authorization",
    "host",
    "grpc-timeout",
    "grpc-encoding",
    "grpc-accept-encoding",
    "grpc-foo",
    "X-A",
    "Content-Type",
    "TE",
    "!#$%&'*+-.^_`|~0z",
    "a",
    "x-binx",
    "bin",
    // request headers other middleware gives a meaning to (seed C12e: CORS preflight shape)
    "origin",
    "access-control-request-method",
    "access-control-request-headers",
    "accept",
    "cookie",
    "upgrade",
    "connection",
    "content-length",
    "x-forwarded-for",
];
const BIN_NAMES: [&str; 6] = ["x-bin", "trace-bin", "grpc-status-details-bin", "a-bin", "-bin", "X-Trace-BIN"];

fn long_name(rng: &mut Rng) -> Vec<u8> {
    let n = *rng.pick(&[63usize, 64, 65, 200]);
    let mut v: Vec<u8> = (0..n).map(|_| b'a' + rng.below(26) as u8).collect();
    v[0] = b'l';
    v
}

fn gen_ascii_name(rng: &mut Rng) -> Vec<u8> {
    match rng.below(20) {
        0..=6 => rng.pick(&RESERVED).as_bytes().to_vec(),
        7..=17 => rng.pick(&ASCII_NAMES).as_bytes().to_vec(),
        18 => long_name(rng),
        _ => {
            let n = rng.range(1, 6) as usize;
            (0..n).map(|_| *rng.pick(b"abcxyz019-_.")).collect::<Vec<u8>>()
        }
    }
}
fn is_bin_name(n: &[u8]) -> bool {
    n.to_ascii_lowercase().ends_with(b"-bin")
}
fn gen_bin_name(rng: &mut Rng) -> Vec<u8> {
    rng.pick(&BIN_NAMES).as_bytes().to_vec()
}
fn gen_any_name(rng: &mut Rng) -> Vec<u8> {
    if rng.chance(1, 4) {
        gen_bin_name(rng)
    } else {
        let mut n = gen_ascii_name(rng);
        if is_bin_name(&n) {
            n.push(b'x');
        }
        n
    }
}

fn gen_value(rng: &mut Rng) -> Vec<u8> {
    match rng.below(14) {
        0 => vec![],
        1 => b"v".to_vec(),
        2 => b"a b".to_vec(),
        3 => b"trailers".to_vec(),
        4 => b"application/grpc".to_vec(),
        5 => b"AAAA".to_vec(),
        6 => b"AA==".to_vec(),
        7 => b"!!!".to_vec(),
        8 => b"%41%zz%".to_vec(),
        9 => vec![0x80, 0xff, 0xc3, 0xa9],
        10 => b"a\tb".to_vec(),
        11 => {
            let n = *rng.pick(&[255usize, 256, 300, 1024]);
            (0..n).map(|_| b'!' + rng.below(90) as u8).collect()
        }
        _ => {
            let n = rng.range(1, 12) as usize;
            (0..n)
                .map(|_| {
                    let b = rng.next() as u8;
                    if (b >= 32 && b != 127) || b == 9 {
                        b
                    } else {
                        b'.'
                    }
                })
                .collect()
        }
    }
}

/// header list with many repeated names; `focus` names are used with high probability
fn gen_hdrs(rng: &mut Rng, max: u64, focus: &[Vec<u8>]) -> H {
    let n = match rng.below(8) {
        0 => 0,
        1 => 1,
        _ => rng.range(1, max.max(1)),
    };
    let mut v: Vec<(Vec<u8>, Vec<u8>, bool)> = Vec::new();
    for _ in 0..n {
        let name = if !v.is_empty() && rng.chance(2, 5) {
            let mut nm = rng.pick(&v).0.clone();
            if rng.chance(1, 4) {
                nm = nm.to_ascii_uppercase();
            }
            nm
        } else if !focus.is_empty() && rng.chance(1, 2) {
            rng.pick(focus).clone()
        } else {
            gen_any_name(rng)
        };
        v.push((name, gen_value(rng), rng.chance(1, 6)));
    }
    H(v)
}

fn gen_ext(rng: &mut Rng) -> Vec<(u8, Vec<u8>)> {
    let mut v = Vec::new();
    for id in 0..4u8 {
        if rng.chance(1, 3) {
            let n = rng.below(4) as usize;
            v.push((id, rng.bytes(n)));
        }
    }
    // order of insertion varies
    if rng.chance(1, 2) {
        v.reverse();
    }
    v
}

fn gen_body(rng: &mut Rng) -> BodyScript {
    let n = match rng.below(6) {
        0 => 0,
        1 => 1,
        _ => rng.range(1, 4),
    };
    let mut chunks = Vec::new();
    for _ in 0..n {
        let len = *rng.pick(&[0usize, 1, 4, 5, 6, 17]);
        chunks.push(rng.bytes(len));
    }
    let trailers = if rng.chance(1, 3) { Some(gen_hdrs(rng, 3, &[b"grpc-status".to_vec()])) } else { None };
    BodyScript { chunks, trailers }
}

fn present_names(h: &H) -> Vec<Vec<u8>> {
    let mut v: Vec<Vec<u8>> = h.0.iter().map(|e| e.0.to_ascii_lowercase()).collect();
    v.sort();
    v.dedup();
    v
}

fn gen_op(rng: &mut Rng, present: &[Vec<u8>]) -> Op {
    // 60 %: a name that is present in (one of) the request(s)
    let pick_name = |rng: &mut Rng, want_bin: Option<bool>| -> Vec<u8> {
        for _ in 0..8 {
            let n = if !present.is_empty() && rng.chance(3, 5) {
                let mut n = rng.pick(present).clone();
                if rng.chance(1, 5) {
                    n = n.to_ascii_uppercase();
                }
                n
            } else {
                gen_any_name(rng)
            };
            match want_bin {
                None => return n,
                Some(b) if is_bin_name(&n) == b => return n,
                _ => {}
            }
        }
        match want_bin {
            Some(true) => b"x-bin".to_vec(),
            _ => b"x-a".to_vec(),
        }
    };
    match rng.below(20) {
        0 | 1 => Op::HIns(pick_name(rng, None), gen_value(rng), rng.chance(1, 5)),
        2 | 3 => Op::HApp(pick_name(rng, None), gen_value(rng), rng.chance(1, 5)),
        4 | 5 => Op::HRem(pick_name(rng, None)),
        6 | 7 => Op::MIns(pick_name(rng, Some(false)), gen_value(rng)),
        8 => Op::MApp(pick_name(rng, Some(false)), gen_value(rng)),
        9 => Op::MRem(pick_name(rng, Some(false))),
        10 | 11 => {
            let n = *rng.pick(&[0usize, 1, 2, 3, 4, 7]);
            Op::BIns(pick_name(rng, Some(true)), rng.bytes(n))
        }
        12 => {
            let n = *rng.pick(&[0usize, 1, 2, 3, 4, 7]);
            Op::BApp(pick_name(rng, Some(true)), rng.bytes(n))
        }
        13 => Op::BRem(pick_name(rng, Some(true))),
        14 => {
            if rng.chance(1, 3) {
                Op::Clear
            } else {
                Op::Cnt(pick_name(rng, Some(false)))
            }
        }
        15 => Op::Cnt(b"x-count".to_vec()),
        16 | 17 => {
            let n = rng.below(4) as usize;
            Op::XSet(rng.below(4) as u8, rng.bytes(n))
        }
        18 => Op::XRm(rng.below(4) as u8),
        _ => {
            if rng.chance(1, 2) {
                Op::XClear
            } else {
                Op::XRm(rng.below(4) as u8)
            }
        }
    }
}

const MESSAGES: [&str; 16] = [
    "",
    "ok",
    "Blocked by the interceptor",
    "a b",
    "%",
    "%41",
    "100% sure?",
    "h\u{e9}llo \u{2713} \u{1F600}",
    "line1\nline2\r\ttab\u{0}nul",
    "\u{7f}del",
    "\"#<>`?{}",
    "~!$&'()*+,-./:;=@[\\]^_|",
    " ",
    "\u{80}\u{7ff}\u{800}\u{ffff}\u{10000}",
    "trailing space ",
    "%%%",
];

fn gen_message(rng: &mut Rng) -> Vec<u8> {
    match rng.below(20) {
        0..=13 => rng.pick(&MESSAGES).as_bytes().to_vec(),
        14 => (0u8..128).map(|b| b as char).collect::<String>().into_bytes(),
        15 => "x".repeat(*rng.pick(&[255usize, 256, 1000])).into_bytes(),
        // well beyond 32 KiB: a long status message must arrive whole
        16 if rng.chance(1, 4) => {
            let mut m = "y".repeat(*rng.pick(&[8192usize, 40000, 70000])).into_bytes();
            m.extend_from_slice("\u{e9}% ".as_bytes());
            m
        }
        _ => {
            let n = rng.range(1, 10);
            let mut s = String::new();
            for _ in 0..n {
                let c = match rng.below(4) {
                    0 => char::from_u32(rng.below(128) as u32).unwrap(),
                    1 => char::from_u32(0x80 + rng.below(0x700) as u32).unwrap(),
                    2 => char::from_u32(0x800 + rng.below(0x5000) as u32).unwrap_or('x'),
                    _ => *rng.pick(&['%', ' ', '{', '}', 'a', 'Z', '0', '~']),
                };
                s.push(c);
            }
            s.into_bytes()
        }
    }
}

fn gen_details(rng: &mut Rng) -> Vec<u8> {
    match rng.below(10) {
        0..=3 => vec![],
        4 => vec![0],
        5 => vec![0xfb, 0xff],
        6 => vec![0xfb, 0xff, 0xbf],
        7 => vec![1, 2, 3, 4],
        8 if rng.chance(1, 8) => {
            let n = *rng.pick(&[8191usize, 40000, 70001]);
            rng.bytes(n)
        }
        _ => {
            let n = rng.range(1, 40) as usize;
            rng.bytes(n)
        }
    }
}

fn gen_rej(rng: &mut Rng) -> Rej {
    let code = match rng.below(20) {
        0 => 17,
        1 => 99,
        2 => 18,
        _ => rng.below(17) as i32,
    };
    let focus: Vec<Vec<u8>> = ["grpc-status", "grpc-message", "grpc-status-details-bin", "content-type", "x-a", "x-bin", "te"]
        .iter()
        .map(|s| s.as_bytes().to_vec())
        .collect();
    let md = if rng.chance(1, 2) { H(vec![]) } else { gen_hdrs(rng, 5, &focus) };
    Rej { ctor: rng.below(4) as u8, code, msg: gen_message(rng), details: gen_details(rng), src: rng.chance(1, 5), md }
}

const METHODS: [&str; 9] = ["POST", "GET", "OPTIONS", "PUT", "DELETE", "HEAD", "CONNECT", "PATCH", "FOO-BAR"];
const VERSIONS: [u8; 5] = [9, 10, 11, 2, 3];
const URIS: [&str; 12] = [
    "/",
    "/pkg.Service/Method",
    "/a/b?x=1&y=2",
    "http://example.com:50051/helloworld.Greeter/SayHello",
    "https://user@host/p?q",
    "*",
    "example.com:443",
    "/%41%2f?%3f",
    "http://[::1]:8080/x",
    "/a//b/../c",
    "http://example.com",
    "/very/long/path/segment/segment/segment/segment/segment/segment?with=query&and=more",
];

fn canon_uri(s: &str) -> Vec<u8> {
    s.parse::<http::Uri>().expect("generator URIs parse").to_string().into_bytes()
}

fn gen_resp(rng: &mut Rng) -> Resp {
    if rng.chance(1, 8) {
        return Resp::E(rng.below(1000) as u32);
    }
    let focus: Vec<Vec<u8>> = ["grpc-status", "content-type", "x-a"].iter().map(|s| s.as_bytes().to_vec()).collect();
    Resp::R {
        status: *rng.pick(&[200u16, 200, 200, 204, 404, 503, 100, 999]),
        version: *rng.pick(&VERSIONS),
        hdrs: gen_hdrs(rng, 4, &focus),
        ext: gen_ext(rng),
        body: gen_body(rng),
    }
}

fn gen_call(rng: &mut Rng) -> Call {
    let focus: Vec<Vec<u8>> = RESERVED.iter().map(|s| s.as_bytes().to_vec()).collect();
    Call {
        ready: 0,
        delay: 0,
        bwait: 0,
        hint: 0,
        late: false,
        method: rng.pick(&METHODS).as_bytes().to_vec(),
        version: *rng.pick(&VERSIONS),
        uri: canon_uri(*rng.pick(&URIS)),
        hdrs: gen_hdrs(rng, 9, &focus),
        ext: gen_ext(rng),
        body: gen_body(rng),
        resp: gen_resp(rng),
    }
}

fn gen_script(rng: &mut Rng, present: &[Vec<u8>], reject_pct: u64) -> Script {
    let nops = match rng.below(6) {
        0 => 0,
        1 => 1,
        _ => rng.range(1, 6),
    };
    let ops = (0..nops).map(|_| gen_op(rng, present)).collect();
    let rej = if rng.below(100) < reject_pct { Some(gen_rej(rng)) } else { None };
    Script { ops, rej }
}

fn via(rng: &mut Rng) -> String {
    if rng.chance(1, 2) { "new".into() } else { "layer".into() }
}

fn simple_call(hdrs: H) -> Call {
    Call {
        ready: 0,
        delay: 0,
        bwait: 0,
        hint: 0,
        late: false,
        method: b"POST".to_vec(),
        version: 2,
        uri: canon_uri("/pkg.Service/Method"),
        hdrs,
        ext: vec![(1, vec![7])],
        body: BodyScript { chunks: vec![vec![0, 0, 0, 0, 1, 9]], trailers: None },
        resp: Resp::R {
            status: 200,
            version: 2,
            hdrs: H(vec![(b"content-type".to_vec(), b"application/grpc".to_vec(), false)]),
            ext: vec![],
            body: BodyScript {
                chunks: vec![vec![0, 0, 0, 0, 0]],
                trailers: Some(H(vec![(b"grpc-status".to_vec(), b"0".to_vec(), false)])),
            },
        },
    }
}

fn hb(n: &str, v: &str) -> (Vec<u8>, Vec<u8>, bool) {
    (n.as_bytes().to_vec(), v.as_bytes().to_vec(), false)
}

fn no_encoding_names(h: &mut H) {
    h.0.retain(|e| e.0.to_ascii_lowercase() != b"grpc-encoding");
}

fn gen_client_case(rng: &mut Rng) -> CCase {
    let ncalls = match rng.below(3) {
        0 => 1,
        _ => rng.range(1, 3),
    };
    let mut calls = Vec::new();
    for _ in 0..ncalls {
        let focus: Vec<Vec<u8>> = RESERVED.iter().map(|s| s.as_bytes().to_vec()).collect();
        let opath = rng.pick(&["", "", "/", "/base", "/base/", "/a/b"]).as_bytes().to_vec();
        let oquery = !opath.is_empty() && rng.chance(1, 4);
        let mut rh: Vec<(Vec<u8>, Vec<u8>, bool)> = Vec::new();
        rh.push(hb("grpc-status", *rng.pick(&["0", "0", "0", "5", "16", "99", "x", "", "00", "1 "])));
        if rng.chance(1, 6) {
            rh.push(hb("grpc-status", "13"));
        }
        if rng.chance(1, 2) {
            rh.push(hb("grpc-message", *rng.pick(&["", "hello", "a%20b", "%E2%9C%93", "100%", "%zz", "%4", "%", "%41%42c", "%e2%9c%93"])));
        }
        if rng.chance(1, 3) {
            rh.push(hb("grpc-status-details-bin", *rng.pick(&["", "AAAA", "AQID", "AA==", "AA", "+/8"])));
        }
        for _ in 0..rng.below(3) {
            rh.push(hb(*rng.pick(&["x-a", "x-bin", "content-type", "grpc-foo", "te", "x-a"]), *rng.pick(&["1", "AAAA", "application/grpc", ""])));
        }
        if rng.chance(1, 10) {
            rh.push(hb("grpc-encoding", "identity"));
        }
        if rng.chance(1, 2) {
            rh.reverse();
        }
        let n = rng.below(20) as usize;
        calls.push(CCall {
            prefix: rng.pick(&["http://example.com", "https://h:50051", "http://[::1]:8080"]).as_bytes().to_vec(),
            opath,
            oquery,
            path: rng.pick(&["/pkg.Svc/Method", "/s/m", "/pkg.Svc/Method?x=1"]).as_bytes().to_vec(),
            hdrs: gen_hdrs(rng, 7, &focus),
            ext: gen_ext(rng),
            msg: rng.bytes(n),
            rhdrs: H(rh),
            rext: gen_ext(rng),
        });
    }
    let mut present: Vec<Vec<u8>> = calls.iter().flat_map(|c| present_names(&c.hdrs)).collect();
    present.push(b"te".to_vec());
    present.push(b"content-type".to_vec());
    present.sort();
    present.dedup();
    let nscripts = rng.range(0, 2);
    let mut scripts: Vec<Script> = (0..nscripts).map(|_| gen_script(rng, &present, 45)).collect();
    for sc in &mut scripts {
        if let Some(r) = &mut sc.rej {
            no_encoding_names(&mut r.md);
        }
    }
    CCase { via: via(rng), scripts, calls }
}

const ROUTED_PATHS: [&str; 16] = [
    "/pkg.Svc/M",
    "/pkg.Svc/M",
    "/pkg.Svc/Method",
    "/pkg.Svc/a/b",
    "/pkg.Svc//x",
    "/pkg.Svc/M?x=1",
    "/pkg.Svc/%2F",
    "/",
    "/pkg.Svc",
    "/pkg.Svc/",
    "/pkg.Svc2/M",
    "/pkg.Sv/M",
    "/pkg.svc/M",
    "//pkg.Svc/M",
    "/x/pkg.Svc/M",
    "/other.Svc/M",
];

fn gen_routed_case(rng: &mut Rng) -> Case {
    let ncalls = rng.range(1, 5);
    let mut calls = Vec::new();
    for _ in 0..ncalls {
        let mut k = gen_call(rng);
        k.method = rng.pick(&["POST", "POST", "GET", "OPTIONS", "PUT", "DELETE", "PATCH", "HEAD"]).as_bytes().to_vec();
        k.uri = canon_uri(*rng.pick(&ROUTED_PATHS));
        if let Resp::E(_) = k.resp {
            k.resp = Resp::R { status: 200, version: 2, hdrs: H(vec![]), ext: vec![], body: gen_body(rng) };
        }
        calls.push(k);
    }
    let mut present: Vec<Vec<u8>> = calls.iter().flat_map(|c| present_names(&c.hdrs)).collect();
    present.sort();
    present.dedup();
    let nscripts = rng.range(0, 3);
    let scripts: Vec<Script> = (0..nscripts).map(|_| gen_script(rng, &present, 35)).collect();
    let via = rng.pick(&["new", "layer", "builder"]).to_string();
    Case { kind: "routed".into(), via, scripts, calls }
}

pub fn generate(tier: &str, rng: &mut Rng) -> Vec<String> {
    let thorough = tier == "thorough";
    let mut out: Vec<String> = Vec::new();
    let mut push = |c: Case| out.push(render(&c));

    // ---- corpus: witnesses
    // (1) status metadata carrying `grpc-status-details-bin` while `details` is empty
    for v in ["AAAA", "!!!", ""] {
        push(Case {
            kind: "corpus".into(),
            via: "new".into(),
            scripts: vec![Script {
                ops: vec![],
                rej: Some(Rej {
                    ctor: 1,
                    code: 7,
                    msg: b"no".to_vec(),
                    details: vec![],
                    src: false,
                    md: H(vec![hb("grpc-status-details-bin", v), hb("x-a", "1")]),
                }),
            }],
            calls: vec![simple_call(H(vec![hb("user-agent", "test-tonic")]))],
        });
    }
    // (2) tonic's own three unit tests, as cases
    push(Case {
        kind: "corpus".into(),
        via: "new".into(),
        scripts: vec![Script { ops: vec![], rej: None }],
        calls: vec![simple_call(H(vec![hb("user-agent", "test-tonic")]))],
    });
    push(Case {
        kind: "corpus".into(),
        via: "new".into(),
        scripts: vec![Script {
            ops: vec![],
            rej: Some(Rej { ctor: 0, code: 7, msg: b"Blocked by the interceptor".to_vec(), details: vec![], src: false, md: H(vec![]) }),
        }],
        calls: vec![simple_call(H(vec![]))],
    });
    {
        let mut k = simple_call(H(vec![]));
        k.method = b"OPTIONS".to_vec();
        push(Case { kind: "corpus".into(), via: "new".into(), scripts: vec![Script { ops: vec![], rej: None }], calls: vec![k] });
    }
    // request shapes that OTHER middleware treats specially must get no special treatment here (seed C12e):
    // every method x header sets (CORS preflight, CORS actual request, upgrade, health-check-ish GET) x an
    // interceptor that accepts unchanged / inserts a header / rejects
    {
        let heads: Vec<Vec<(Vec<u8>, Vec<u8>, bool)>> = vec![
            vec![hb("origin", "https://app.example"), hb("access-control-request-method", "POST")],
            vec![hb("origin", "https://app.example"), hb("access-control-request-method", "POST"), hb("access-control-request-headers", "x-grpc-web,content-type")],
            vec![hb("origin", "null")],
            vec![hb("access-control-request-method", "POST")],
            vec![hb("connection", "upgrade"), hb("upgrade", "websocket")],
            vec![hb("accept", "*/*"), hb("x-forwarded-for", "10.0.0.1")],
        ];
        for m in ["OPTIONS", "POST", "GET", "HEAD", "CONNECT"] {
            for h in &heads {
                for via in ["new", "layer"] {
                    for sc in 0..3 {
                        let mut k = simple_call(H(h.clone()));
                        k.method = m.as_bytes().to_vec();
                        let script = match sc {
                            0 => Script { ops: vec![], rej: None },
                            1 => Script { ops: vec![Op::HIns(b"x-seen-by-interceptor".to_vec(), b"1".to_vec(), false)], rej: None },
                            _ => Script { ops: vec![], rej: Some(Rej { ctor: 0, code: 16, msg: b"no credentials".to_vec(), details: vec![], src: false, md: H(vec![]) }) },
                        };
                        push(Case { kind: "corpus".into(), via: via.into(), scripts: vec![script], calls: vec![k] });
                    }
                }
            }
        }
    }
    // (3) every reserved name present twice, identity interceptor; then each removed / replaced
    {
        let all: Vec<(Vec<u8>, Vec<u8>, bool)> =
            RESERVED.iter().flat_map(|n| vec![hb(n, "one"), hb(n, "two")]).collect();
        push(Case {
            kind: "corpus".into(),
            via: "layer".into(),
            scripts: vec![Script { ops: vec![], rej: None }],
            calls: vec![simple_call(H(all.clone()))],
        });
        for n in RESERVED {
            for op in [
                Op::HRem(n.as_bytes().to_vec()),
                Op::HIns(n.as_bytes().to_vec(), b"new".to_vec(), false),
                Op::HApp(n.as_bytes().to_vec(), b"new".to_vec(), true),
                Op::MIns(n.as_bytes().to_vec(), b"new".to_vec()),
                Op::MApp(n.as_bytes().to_vec(), b"new".to_vec()),
                Op::MRem(n.as_bytes().to_vec()),
            ] {
                push(Case {
                    kind: "corpus".into(),
                    via: "new".into(),
                    scripts: vec![Script { ops: vec![op], rej: None }],
                    calls: vec![simple_call(H(all.clone()))],
                });
            }
        }
    }

    // ---- structured, systematic: method × version × uri (identity and one insert)
    for m in METHODS {
        for v in VERSIONS {
            for u in URIS {
                let mut k = simple_call(H(vec![hb("te", "trailers"), hb("x-a", "1")]));
                k.method = m.as_bytes().to_vec();
                k.version = v;
                k.uri = canon_uri(u);
                let ops = if rng.chance(1, 2) { vec![] } else { vec![gen_op(rng, &[b"te".to_vec(), b"x-a".to_vec()])] };
                push(Case { kind: "line".into(), via: via(rng), scripts: vec![Script { ops, rej: None }], calls: vec![k] });
            }
        }
    }
    // ---- structured, systematic: every code × message class × details class × metadata class
    let md_classes: Vec<H> = vec![
        H(vec![]),
        H(vec![hb("x-a", "1")]),
        H(vec![hb("x-a", "1"), hb("x-b", "2"), hb("x-a", "3")]),
        H(vec![hb("grpc-status", "0"), hb("grpc-message", "forged"), hb("content-type", "text/plain"), hb("x-a", "1")]),
        H(vec![hb("te", "x"), hb("user-agent", "ua"), hb("grpc-message-type", "t"), hb("x-bin", "AAAA")]),
        H(vec![hb("grpc-status-details-bin", "AAAA")]),
        H(vec![hb("grpc-status-details-bin", "AAAA"), hb("grpc-status-details-bin", "BBBB"), hb("grpc-foo", "bar")]),
        H(vec![(b"x-s".to_vec(), b"secret".to_vec(), true), hb("X-UP", "up")]),
    ];
    for code in 0..=18 {
        for (mi, msg) in MESSAGES.iter().enumerate() {
            for details in [vec![], vec![0u8], vec![0xfb, 0xff], vec![1, 2, 3], vec![9, 8, 7, 6]] {
                // full product in thorough; in quick a diagonal slice plus random picks
                let take = thorough || (mi + details.len() + (code + 1) as usize) % 5 == 0;
                if !take {
                    continue;
                }
                let md = if thorough {
                    md_classes[(mi + details.len() + (code + 1) as usize) % md_classes.len()].clone()
                } else {
                    rng.pick(&md_classes).clone()
                };
                push(Case {
                    kind: "status".into(),
                    via: via(rng),
                    scripts: vec![Script {
                        ops: vec![],
                        rej: Some(Rej { ctor: rng.below(4) as u8, code, msg: msg.as_bytes().to_vec(), details: details.clone(), src: rng.chance(1, 4), md }),
                    }],
                    calls: vec![simple_call(H(vec![hb("x-a", "1")]))],
                });
            }
        }
    }
    for md in &md_classes {
        for details in [vec![], vec![5u8, 6]] {
            for msg in ["", "m"] {
                push(Case {
                    kind: "status".into(),
                    via: via(rng),
                    scripts: vec![Script {
                        ops: vec![],
                        rej: Some(Rej { ctor: 1, code: 3, msg: msg.as_bytes().to_vec(), details: details.clone(), src: false, md: md.clone() }),
                    }],
                    calls: vec![simple_call(H(vec![]))],
                });
            }
        }
    }
    // every single message byte 0..=127 (percent-encode table through the real code)
    for b in 0u8..128 {
        push(Case {
            kind: "status".into(),
            via: "new".into(),
            scripts: vec![Script {
                ops: vec![],
                rej: Some(Rej { ctor: 0, code: (b % 17) as i32, msg: vec![b'a', b, b'z'], details: vec![], src: false, md: H(vec![]) }),
            }],
            calls: vec![simple_call(H(vec![]))],
        });
    }
    // ---- structured, systematic: name × op × presence
    let names: Vec<&str> = RESERVED.iter().copied().chain(["x-a", "grpc-timeout", "X-A", "x-bin", "grpc-status-details-bin"]).collect();
    for n in &names {
        let nb = n.as_bytes().to_vec();
        let lower = n.to_ascii_lowercase();
        let bin = is_bin_name(&nb);
        let mut ops: Vec<Op> = vec![
            Op::HIns(nb.clone(), b"new".to_vec(), false),
            Op::HIns(nb.clone(), b"".to_vec(), true),
            Op::HApp(nb.clone(), b"new".to_vec(), false),
            Op::HRem(nb.clone()),
            Op::Cnt(nb.clone()),
        ];
        if bin {
            ops.extend([Op::BIns(nb.clone(), vec![1, 2]), Op::BApp(nb.clone(), vec![]), Op::BApp(nb.clone(), vec![0xff]), Op::BRem(nb.clone())]);
        } else {
            ops.extend([Op::MIns(nb.clone(), b"new".to_vec()), Op::MApp(nb.clone(), b"new".to_vec()), Op::MRem(nb.clone())]);
        }
        for op in ops {
            for presence in 0..4 {
                let mut h = vec![hb("x-other", "o1")];
                if presence >= 1 {
                    h.push(hb(&lower, "old1"));
                }
                h.push(hb("x-other", "o2"));
                if presence >= 2 {
                    h.push(hb(&lower, "old2"));
                }
                if presence == 3 {
                    h.insert(0, (lower.as_bytes().to_vec(), b"old0".to_vec(), true));
                }
                for second in [None, Some(Op::HApp(nb.clone(), b"again".to_vec(), false)), Some(Op::Clear)] {
                    let mut o = vec![op.clone()];
                    if let Some(s) = second {
                        if rng.chance(1, 2) {
                            o.push(s);
                        } else {
                            o.insert(0, s);
                        }
                    }
                    push(Case {
                        kind: "ops".into(),
                        via: via(rng),
                        scripts: vec![Script { ops: o, rej: None }],
                        calls: vec![simple_call(H(h.clone()))],
                    });
                }
            }
        }
    }

    // ---- small-scope exhaustive: every ordered pair of operations over a small alphabet, on a
    // request that has / has not the names (insert-after-append, remove-after-insert, clear-then-…)
    {
        let mut alphabet: Vec<Op> = Vec::new();
        for n in ["te", "x-a"] {
            let nb = n.as_bytes().to_vec();
            alphabet.extend([
                Op::HIns(nb.clone(), b"hi".to_vec(), false),
                Op::HApp(nb.clone(), b"ha".to_vec(), true),
                Op::HRem(nb.clone()),
                Op::MIns(nb.clone(), b"mi".to_vec()),
                Op::MApp(nb.clone(), b"ma".to_vec()),
                Op::MRem(nb.clone()),
                Op::Cnt(nb.clone()),
            ]);
        }
        alphabet.push(Op::Clear);
        alphabet.extend([Op::BIns(b"x-bin".to_vec(), vec![1]), Op::BApp(b"x-bin".to_vec(), vec![2, 3]), Op::BRem(b"x-bin".to_vec())]);
        let full = H(vec![hb("te", "trailers"), hb("x-a", "1"), hb("x-bin", "AA"), hb("x-a", "2"), hb("grpc-status", "7"), hb("te", "t2")]);
        let sparse = H(vec![hb("grpc-status", "7")]);
        for a in &alphabet {
            for b in &alphabet {
                for h in [&full, &sparse] {
                    push(Case {
                        kind: "pairs".into(),
                        via: "new".into(),
                        scripts: vec![Script { ops: vec![a.clone(), b.clone()], rej: None }],
                        calls: vec![simple_call(h.clone())],
                    });
                }
            }
        }
    }

    // ---- structured, random: single calls
    let n_single = if thorough { 60_000 } else { 3_000 };
    for _ in 0..n_single {
        let call = gen_call(rng);
        let present = present_names(&call.hdrs);
        let script = gen_script(rng, &present, 30);
        let kind = if script.rej.is_some() { "reject" } else { "accept" };
        push(Case { kind: kind.into(), via: via(rng), scripts: vec![script], calls: vec![call] });
    }
    // ---- structured, random: sequences on one service value (stateful interceptor)
    let n_seq = if thorough { 15_000 } else { 800 };
    for _ in 0..n_seq {
        let ncalls = rng.range(2, 6);
        let calls: Vec<Call> = (0..ncalls).map(|_| gen_call(rng)).collect();
        let mut present: Vec<Vec<u8>> = calls.iter().flat_map(|c| present_names(&c.hdrs)).collect();
        present.sort();
        present.dedup();
        let nscripts = rng.range(0, 4);
        let scripts: Vec<Script> = (0..nscripts).map(|_| gen_script(rng, &present, 40)).collect();
        push(Case { kind: "seq".into(), via: via(rng), scripts, calls });
    }
    // ---- back-pressure: the wrapped service is not ready before some calls
    let n_ready = if thorough { 5_000 } else { 400 };
    for _ in 0..n_ready {
        let ncalls = rng.range(1, 5);
        let calls: Vec<Call> = (0..ncalls)
            .map(|_| {
                let mut k = gen_call(rng);
                k.ready = match rng.below(5) {
                    0 => 1,
                    1 => 2 + rng.below(50) as u32,
                    _ => 0,
                };
                k
            })
            .collect();
        let nscripts = rng.range(0, 2);
        let scripts: Vec<Script> = (0..nscripts).map(|_| gen_script(rng, &[], 40)).collect();
        push(Case { kind: "ready".into(), via: via(rng), scripts, calls });
    }
    // ---- "malformed": hostile-but-typed inputs (nothing here is parsed by tonic, so the
    // adversarial inputs are odd names / values / statuses rather than broken bytes)
    let n_odd = if thorough { 10_000 } else { 600 };
    for _ in 0..n_odd {
        let mut call = gen_call(rng);
        // many values under one name, all flavours of the reserved names in all cases
        let nm = gen_any_name(rng);
        for i in 0..rng.range(3, 12) {
            let mut n2 = nm.clone();
            if i % 2 == 1 {
                n2 = n2.to_ascii_uppercase();
            }
            call.hdrs.0.push((n2, gen_value(rng), i % 3 == 0));
        }
        let present = present_names(&call.hdrs);
        let mut script = gen_script(rng, &present, 50);
        if let Some(r) = &mut script.rej {
            // status metadata mirrors the request's (hostile echo), reserved names included
            if rng.chance(1, 2) {
                r.md = call.hdrs.clone();
            }
        }
        push(Case { kind: "odd".into(), via: via(rng), scripts: vec![script], calls: vec![call] });
    }
    // ---- client kind: Grpc<InterceptedService<Mock, F>>::server_streaming (prepare_request ->
    // interceptor -> transport; trailers-only answer / rejection decoded by the real client)
    let n_routed = if thorough { 15_000 } else { 1_200 };
    for _ in 0..n_routed {
        let c = gen_routed_case(rng);
        out.push(render(&c));
    }
    let n_client = if thorough { 15_000 } else { 1_200 };
    for _ in 0..n_client {
        let c = gen_client_case(rng);
        out.push(render_client(&c));
    }
    // ---- dimensions added by the proactive audit (shape, big, async): c12_x.rs
    x::gen_extra(tier, rng, &mut out);
    out
}
