//! Shared helpers: PRNG, hex, panic capture, runtimes.
#![allow(dead_code)]
use std::panic::{catch_unwind, AssertUnwindSafe};

/// SplitMix64 — every random choice in the harness derives from one of these.
#[derive(Clone)]
pub struct Rng(pub u64);

impl Rng {
    pub fn new(seed: u64) -> Self {
        Rng(seed.wrapping_mul(0x9E37_79B9_7F4A_7C15) ^ 0xD1B5_4A32_D192_ED03)
    }
    pub fn next(&mut self) -> u64 {
        self.0 = self.0.wrapping_add(0x9E37_79B9_7F4A_7C15);
        let mut z = self.0;
        z = (z ^ (z >> 30)).wrapping_mul(0xBF58_476D_1CE4_E5B9);
        z = (z ^ (z >> 27)).wrapping_mul(0x94D0_49BB_1331_11EB);
        z ^ (z >> 31)
    }
    pub fn below(&mut self, n: u64) -> u64 {
        if n == 0 {
            0
        } else {
            self.next() % n
        }
    }
    pub fn range(&mut self, lo: u64, hi: u64) -> u64 {
        lo + self.below(hi - lo + 1)
    }
    pub fn chance(&mut self, num: u64, den: u64) -> bool {
        self.below(den) < num
    }
    pub fn pick<'a, T>(&mut self, xs: &'a [T]) -> &'a T {
        &xs[self.below(xs.len() as u64) as usize]
    }
    pub fn bytes(&mut self, n: usize) -> Vec<u8> {
        (0..n).map(|_| self.next() as u8).collect()
    }
    pub fn fork(&mut self) -> Rng {
        Rng(self.next())
    }
}

pub fn hex(b: &[u8]) -> String {
    let mut s = String::with_capacity(1 + b.len() * 2);
    s.push('x');
    for x in b {
        s.push_str(&format!("{:02x}", x));
    }
    s
}

pub fn unhex(s: &str) -> Option<Vec<u8>> {
    let s = s.strip_prefix('x')?;
    if s.len() % 2 != 0 {
        return None;
    }
    (0..s.len() / 2)
        .map(|i| u8::from_str_radix(&s[2 * i..2 * i + 2], 16).ok())
        .collect()
}

/// Run one case; a panic is the observable `panic`.
pub fn guarded<F: FnOnce() -> String>(f: F) -> String {
    match catch_unwind(AssertUnwindSafe(f)) {
        Ok(s) => s,
        Err(_) => "panic".to_string(),
    }
}

pub fn silence_panics() {
    std::panic::set_hook(Box::new(|_| {}));
}

/// Current-thread runtime with paused (virtual) time.
pub fn paused_rt() -> tokio::runtime::Runtime {
    tokio::runtime::Builder::new_current_thread()
        .enable_all()
        .start_paused(true)
        .build()
        .unwrap()
}

pub fn opt_tok(o: Option<u128>) -> String {
    match o {
        None => "none".into(),
        Some(n) => n.to_string(),
    }
}

// ---------- allocation observer ----------
// A pass-through global allocator that remembers, per thread, the largest single request since
// the last reset.  Used by C06 to observe "refused before memory is reserved for it".
use std::alloc::{GlobalAlloc, Layout, System};
use std::cell::Cell;

thread_local! {
    static MAX_ALLOC: Cell<usize> = const { Cell::new(0) };
}

pub struct ObservingAlloc;

unsafe impl GlobalAlloc for ObservingAlloc {
    unsafe fn alloc(&self, layout: Layout) -> *mut u8 {
        let _ = MAX_ALLOC.try_with(|m| {
            if layout.size() > m.get() {
                m.set(layout.size())
            }
        });
        System.alloc(layout)
    }
    unsafe fn dealloc(&self, ptr: *mut u8, layout: Layout) {
        System.dealloc(ptr, layout)
    }
    unsafe fn realloc(&self, ptr: *mut u8, layout: Layout, new_size: usize) -> *mut u8 {
        let _ = MAX_ALLOC.try_with(|m| {
            if new_size > m.get() {
                m.set(new_size)
            }
        });
        System.realloc(ptr, layout, new_size)
    }
}

pub fn reset_max_alloc() {
    MAX_ALLOC.with(|m| m.set(0));
}

pub fn max_alloc() -> usize {
    MAX_ALLOC.with(|m| m.get())
}
