//! C03 — requests and responses on the wire are spec-conformant gRPC (body part).
use crate::common::*;
use crate::framing::*;

/// synthesised responses (RecoverError, Routes fallback, generated default arm, interceptor
/// rejection, the real server): case kinds `prod …`
#[path = "c03_prod.rs"]
pub mod prod;

/// dimension audit (aC03): all entry points of server::Grpc / client::Grpc, request shapes, handler
/// metadata, knobs, body hints, the real Server / Channel stacks: case kinds `wresp wreq wsrv wcli`
#[path = "c03_wire.rs"]
pub mod wire;

pub fn generate(tier: &str, rng: &mut Rng) -> Vec<String> {
    let thorough = tier == "thorough";
    let mut out = Vec::new();
    out.push(
        EncCase { server: true, comp: None, disable: false, yield_thr: 32768, buf_size: 8192, max: Some(10),
                  evs: vec!["i010203".into(), "i040506".into(), format!("i{}", "07".repeat(100)), "i01".into()],
                  items: vec![vec![1, 2, 3], vec![4, 5, 6], vec![7; 100], vec![1]], extra_polls: 4 }.line(),
    );
    out.push(
        EncCase { server: true, comp: None, disable: false, yield_thr: 0, buf_size: 8192, max: None,
                  evs: vec!["i0102".into(), "e5".into(), "i03".into(), "i04".into()],
                  items: vec![vec![1, 2], vec![3], vec![4]], extra_polls: 4 }.line(),
    );
    // rev1 S2: `Encoder::encode` fails on the second item after writing part of it — nothing of
    // that item (neither the reserved 5-byte header nor the partial payload) may be sent, the first
    // item is still delivered, then INTERNAL
    for server in [true, false] {
        for comp in [None, Some(tonic::codec::CompressionEncoding::Gzip)] {
            for yield_thr in [0usize, 32768] {
                for k in [0usize, 2, 3] {
                    out.push(
                        EncCase { server, comp, disable: false, yield_thr, buf_size: 8192, max: None,
                                  evs: vec!["i0102".into(), format!("f{}.ee0304", k), "i05".into()],
                                  items: vec![vec![1, 2], vec![5]], extra_polls: 4 }.line(),
                    );
                }
            }
        }
    }
    let n = if thorough { 40000 } else { 4000 };
    for _ in 0..n {
        let (e, l) = (rng.chance(1, 2), rng.chance(1, 3));
        let mut c = gen_enc_case(rng, e, l);
        c.extra_polls += 2;
        out.push(c.line());
    }
    out.extend(gen_whole(tier, rng));
    out.extend(prod::generate(tier, rng));
    out.extend(wire::generate(tier, rng));
    if thorough {
        // small-scope exhaustive: every source schedule up to length 5 over
        // {small message, message over the limit, Pending, source error}, both roles,
        // three yield thresholds, with and without compression
        let alphabet = ["i0102", "i0102030405", "p", "e9"];
        for len in 0..=5usize {
            let mut idx = vec![0usize; len];
            loop {
                let evs: Vec<String> = idx.iter().map(|i| alphabet[*i].to_string()).collect();
                let items: Vec<Vec<u8>> = idx.iter().filter(|i| **i < 2).map(|i| if *i == 0 { vec![1, 2] } else { vec![1, 2, 3, 4, 5] }).collect();
                for server in [true, false] {
                    for yt in [0usize, 8, 100] {
                        for comp in [None, Some(tonic::codec::CompressionEncoding::Gzip)] {
                            let max = if comp.is_some() { Some(24) } else { Some(3) };
                            out.push(EncCase { server, comp, disable: false, yield_thr: yt, buf_size: 16, max, evs: evs.clone(), items: items.clone(), extra_polls: 2 }.line());
                        }
                    }
                }
                // next index vector
                let mut k = 0;
                while k < len {
                    idx[k] += 1;
                    if idx[k] < alphabet.len() {
                        break;
                    }
                    idx[k] = 0;
                    k += 1;
                }
                if k == len {
                    break;
                }
            }
        }
    }
    out
}

pub fn execute(case: &str) -> String {
    let t: Vec<&str> = case.split(' ').collect();
    match t[0] {
        "resp" => exec_resp(&t),
        "req" => exec_req(&t),
        "prod" => prod::execute(case),
        "wresp" | "wreq" | "wsrv" | "wcli" => wire::execute(case),
        _ => crate::framing::execute(case),
    }
}

// ===== whole responses (server::Grpc) and whole requests (client::Grpc): oracle-only cases =====
//
//   resp <u|s> <send set> <accept-header hex|-> <early code|-> <end code> MSGS <hex>*
//        send set: letters g d z in enabling order, or `-`
//        observed: S<http> ct<hex> ge<hex|-> gs<code|-> B <d<hex>|t<code>|n>* Z k (raw|F comp)*
//   req  <send g|d|z|-> <accept set> <origin path hex> <method path hex> META (<name hex> <value hex>)* MSG <hex>
//        observed: M<method> V<version> P<hex> ct<hex> te<hex> ge<hex|-> gae<hex|-> B <frames>* Z …
use bytes::Bytes;
use http_body::Frame;
use std::future::Future;
use std::pin::Pin;
use std::task::{Context, Poll};
use tonic::codec::{BufferSettings, Codec, CompressionEncoding};
use tonic::{Request, Response, Status};

#[derive(Clone, Default)]
pub struct RawCodec;
impl Codec for RawCodec {
    type Encode = Vec<u8>;
    type Decode = Vec<u8>;
    type Encoder = RawEnc;
    type Decoder = RawDec;
    fn encoder(&mut self) -> RawEnc {
        RawEnc(BufferSettings::default())
    }
    fn decoder(&mut self) -> RawDec {
        RawDec(BufferSettings::default())
    }
}

fn enc_of_letter(c: char) -> Option<CompressionEncoding> {
    match c {
        'g' => Some(CompressionEncoding::Gzip),
        'd' => Some(CompressionEncoding::Deflate),
        'z' => Some(CompressionEncoding::Zstd),
        _ => None,
    }
}

/// bare hex; the empty string is the visible token `.`
fn hexb(b: &[u8]) -> String {
    if b.is_empty() {
        ".".to_string()
    } else {
        hex(b)[1..].to_string()
    }
}
fn unhexb(s: &str) -> Vec<u8> {
    if s == "." {
        vec![]
    } else {
        unhex(&format!("x{}", s)).unwrap()
    }
}
fn hdr_tok(prefix: &str, h: &http::HeaderMap, name: &str) -> String {
    let vals: Vec<String> = h.get_all(name).iter().map(|v| hexb(v.as_bytes())).collect();
    if vals.is_empty() {
        format!("{}-", prefix)
    } else {
        format!("{}{}", prefix, vals.join(","))
    }
}

#[derive(Clone)]
pub struct Script {
    pub early: Option<i32>,
    pub msgs: Vec<Vec<u8>>,
    pub end: i32,
}

type BoxStream = Pin<Box<dyn tokio_stream::Stream<Item = Result<Vec<u8>, Status>> + Send>>;

impl tonic::server::ServerStreamingService<Vec<u8>> for Script {
    type Response = Vec<u8>;
    type ResponseStream = BoxStream;
    type Future = Pin<Box<dyn Future<Output = Result<Response<BoxStream>, Status>> + Send>>;
    fn call(&mut self, _req: Request<Vec<u8>>) -> Self::Future {
        let s = self.clone();
        Box::pin(async move {
            if let Some(c) = s.early {
                return Err(Status::new(tonic::Code::from_i32(c), "user"));
            }
            let mut items: Vec<Result<Vec<u8>, Status>> = s.msgs.into_iter().map(Ok).collect();
            if s.end != 0 {
                items.push(Err(Status::new(tonic::Code::from_i32(s.end), "user")));
            }
            Ok(Response::new(Box::pin(tokio_stream::iter(items)) as BoxStream))
        })
    }
}

impl tonic::server::UnaryService<Vec<u8>> for Script {
    type Response = Vec<u8>;
    type Future = Pin<Box<dyn Future<Output = Result<Response<Vec<u8>>, Status>> + Send>>;
    fn call(&mut self, _req: Request<Vec<u8>>) -> Self::Future {
        let s = self.clone();
        Box::pin(async move {
            if let Some(c) = s.early {
                return Err(Status::new(tonic::Code::from_i32(c), "user"));
            }
            Ok(Response::new(s.msgs.first().cloned().unwrap_or_default()))
        })
    }
}

pub async fn drain_body<B>(mut body: B) -> (Vec<String>, Vec<u8>)
where
    B: http_body::Body<Data = Bytes> + Unpin,
    B::Error: std::fmt::Debug,
{
    let mut toks = Vec::new();
    let mut data = Vec::new();
    let mut extra = 0;
    loop {
        // poll with a counting waker that passes wake-ups on to the task's own: a Pending during
        // which nothing was woken would park this task for ever (`lost-wakeup`)
        let frame = std::future::poll_fn(|cx| {
            let (wakes, waker) = counting_waker(Some(cx.waker().clone()));
            let mut cx2 = Context::from_waker(&waker);
            let refs_before = std::sync::Arc::strong_count(&wakes);
            match Pin::new(&mut body).poll_frame(&mut cx2) {
                Poll::Pending if no_wakeup(&wakes, 0, refs_before) => Poll::Ready(Err(())),
                Poll::Pending => Poll::Pending,
                Poll::Ready(f) => Poll::Ready(Ok(f)),
            }
        })
        .await;
        let frame = match frame {
            Ok(f) => f,
            Err(()) => {
                toks.push("lost-wakeup".to_string());
                break;
            }
        };
        match frame {
            None => {
                toks.push("n".to_string());
                extra += 1;
                if extra >= 2 {
                    break;
                }
            }
            Some(Err(e)) => {
                toks.push(format!("e:{:?}", e).replace(' ', "_").chars().take(40).collect());
                break;
            }
            Some(Ok(f)) => {
                if f.is_data() {
                    let d = f.into_data().unwrap();
                    data.extend_from_slice(&d);
                    toks.push(format!("d{}", hexb(&d)));
                } else {
                    let t = f.into_trailers().unwrap();
                    let code = t.get("grpc-status").map(|v| String::from_utf8_lossy(v.as_bytes()).to_string()).unwrap_or_else(|| "-".into());
                    toks.push(format!("t{}", code));
                }
            }
        }
        if toks.len() > 200 {
            toks.push("busy-loop".into());
            break;
        }
    }
    (toks, data)
}

fn announced(h: &http::HeaderMap) -> Option<CompressionEncoding> {
    match h.get("grpc-encoding").map(|v| v.as_bytes()) {
        Some(b"gzip") => Some(CompressionEncoding::Gzip),
        Some(b"deflate") => Some(CompressionEncoding::Deflate),
        Some(b"zstd") => Some(CompressionEncoding::Zstd),
        _ => None,
    }
}

fn ztab_for(h: &http::HeaderMap, data: &[u8]) -> String {
    match announced(h) {
        Some(e) => ztable_tokens(&ztable_for_stream(e, data)),
        None => {
            // nothing announced: flag-1 payloads cannot be judged by any decompressor
            let tab: Vec<(Option<Vec<u8>>, Vec<u8>)> = ztable_for_stream(CompressionEncoding::Gzip, data).into_iter().map(|(_, c)| (None, c)).collect();
            ztable_tokens(&tab)
        }
    }
}

pub fn exec_resp(t: &[&str]) -> String {
    let rt = paused_rt();
    rt.block_on(async move {
        let mut grpc = tonic::server::Grpc::new(RawCodec);
        for c in t[2].chars() {
            if let Some(e) = enc_of_letter(c) {
                grpc = grpc.send_compressed(e);
            }
        }
        let pos = t.iter().position(|x| *x == "MSGS").unwrap();
        let script = Script {
            early: if t[4] == "-" { None } else { Some(t[4].parse().unwrap()) },
            end: t[5].parse().unwrap(),
            msgs: t[pos + 1..].iter().map(|m| unhexb(m)).collect(),
        };
        let mut req = http::Request::new(tonic::body::Body::new(http_body_util::Full::new(Bytes::from(frame(0, &[1, 2, 3])))));
        *req.method_mut() = http::Method::POST;
        req.headers_mut().insert("content-type", "application/grpc".parse().unwrap());
        if t[3] != "-" {
            if let Ok(v) = http::HeaderValue::from_bytes(&unhexb(t[3])) {
                req.headers_mut().insert("grpc-accept-encoding", v);
            }
        }
        let resp = if t[1] == "u" { grpc.unary(script, req).await } else { grpc.server_streaming(script, req).await };
        let (parts, body) = resp.into_parts();
        let (frames, data) = drain_body(body).await;
        format!(
            "S{} {} {} {} B {} {}",
            parts.status.as_u16(),
            hdr_tok("ct", &parts.headers, "content-type"),
            hdr_tok("ge", &parts.headers, "grpc-encoding"),
            parts.headers.get("grpc-status").map(|v| format!("gs{}", String::from_utf8_lossy(v.as_bytes()))).unwrap_or_else(|| "gs-".into()),
            frames.join(" "),
            ztab_for(&parts.headers, &data)
        )
    })
}

#[derive(Clone)]
struct Capture(std::sync::Arc<std::sync::Mutex<Option<String>>>);

impl tower::Service<http::Request<tonic::body::Body>> for Capture {
    type Response = http::Response<tonic::body::Body>;
    type Error = Status;
    type Future = Pin<Box<dyn Future<Output = Result<Self::Response, Status>> + Send>>;
    fn poll_ready(&mut self, _cx: &mut Context<'_>) -> Poll<Result<(), Status>> {
        Poll::Ready(Ok(()))
    }
    fn call(&mut self, req: http::Request<tonic::body::Body>) -> Self::Future {
        let slot = self.0.clone();
        Box::pin(async move {
            let (parts, body) = req.into_parts();
            let (frames, data) = drain_body(body).await;
            let obs = format!(
                "M{} V{:?} P{} {} {} {} {} B {} {}",
                parts.method,
                parts.version,
                hexb(parts.uri.path_and_query().map(|p| p.as_str()).unwrap_or("").as_bytes()),
                hdr_tok("ct", &parts.headers, "content-type"),
                hdr_tok("te", &parts.headers, "te"),
                hdr_tok("ge", &parts.headers, "grpc-encoding"),
                hdr_tok("gae", &parts.headers, "grpc-accept-encoding"),
                frames.join(" "),
                ztab_for(&parts.headers, &data)
            );
            *slot.lock().unwrap() = Some(obs);
            // canned OK response: one message, OK trailers
            let mut tr = http::HeaderMap::new();
            tr.insert("grpc-status", "0".parse().unwrap());
            let frames: Vec<Result<Frame<Bytes>, Status>> = vec![Ok(Frame::data(Bytes::from(frame(0, &[9])))), Ok(Frame::trailers(tr))];
            let body = tonic::body::Body::new(http_body_util::StreamBody::new(tokio_stream::iter(frames)));
            let mut resp = http::Response::new(body);
            resp.headers_mut().insert("content-type", "application/grpc".parse().unwrap());
            Ok(resp)
        })
    }
}

pub fn exec_req(t: &[&str]) -> String {
    let rt = paused_rt();
    rt.block_on(async move {
        let slot = std::sync::Arc::new(std::sync::Mutex::new(None));
        let origin = String::from_utf8(unhexb(t[3])).unwrap();
        let uri: http::Uri = format!("http://example.test{}", origin).parse().unwrap();
        let mut grpc = tonic::client::Grpc::with_origin(Capture(slot.clone()), uri);
        if let Some(e) = t[1].chars().next().and_then(enc_of_letter) {
            grpc = grpc.send_compressed(e);
        }
        for c in t[2].chars() {
            if let Some(e) = enc_of_letter(c) {
                grpc = grpc.accept_compressed(e);
            }
        }
        let mpos = t.iter().position(|x| *x == "META").unwrap();
        let gpos = t.iter().position(|x| *x == "MSG").unwrap();
        let mut req = Request::new(unhexb(t[gpos + 1]));
        let mut i = mpos + 1;
        while i + 1 < gpos {
            let name = String::from_utf8(unhexb(t[i])).unwrap();
            if let (Ok(k), Ok(v)) = (
                tonic::metadata::MetadataKey::<tonic::metadata::Ascii>::from_bytes(name.as_bytes()),
                tonic::metadata::MetadataValue::try_from(unhexb(t[i + 1])),
            ) {
                req.metadata_mut().append(k, v);
            }
            i += 2;
        }
        let path: http::uri::PathAndQuery = String::from_utf8(unhexb(t[4])).unwrap().parse().unwrap();
        grpc.ready().await.unwrap();
        let r = grpc.unary(req, path, RawCodec).await;
        let seen = slot.lock().unwrap().clone().unwrap_or_else(|| "no-request-sent".into());
        format!("{} R{}", seen, if r.is_ok() { "ok".to_string() } else { format!("err{}", r.err().unwrap().code() as i32) })
    })
}

pub fn gen_whole(tier: &str, rng: &mut Rng) -> Vec<String> {
    let mut out = Vec::new();
    let sets = ["-", "g", "d", "z", "gd", "dg", "gz", "zg", "dz", "gdz", "zdg"];
    let accepts: Vec<Option<&str>> = vec![
        None, Some("gzip"), Some("deflate"), Some("zstd"), Some("identity"), Some("gzip,deflate"), Some("deflate,gzip"),
        Some("zstd, gzip"), Some("zstd,deflate,gzip"), Some("br,gzip"), Some("gzip, identity"), Some(""), Some("GZIP"), Some(" gzip "),
    ];
    // every send set × accept header × shape × outcome, small messages
    for s in sets {
        for a in &accepts {
            for shape in ["u", "s"] {
                for (early, end) in [("-", 0), ("-", 5), ("3", 0)] {
                    if shape == "u" && end != 0 {
                        continue;
                    }
                    let ah = a.map(|x| hexb(x.as_bytes())).unwrap_or_else(|| "-".into());
                    let msgs = if shape == "u" { vec![vec![7u8, 7, 7]] } else { vec![vec![1u8], vec![], vec![2u8; 40]] };
                    out.push(format!("resp {} {} {} {} {} MSGS {}", shape, s, ah, early, end, msgs.iter().map(|m| hexb(m)).collect::<Vec<_>>().join(" ")).trim_end().to_string());
                }
            }
        }
    }
    let n = if tier == "thorough" { 4000 } else { 300 };
    for _ in 0..n {
        let s = *rng.pick(&sets);
        let a = *rng.pick(&accepts);
        let ah = a.map(|x| hexb(x.as_bytes())).unwrap_or_else(|| "-".into());
        let k = rng.below(4) as usize;
        let msgs: Vec<Vec<u8>> = (0..k).map(|_| gen_msg(rng, 300)).collect();
        let end = if rng.chance(1, 3) { rng.range(1, 16) } else { 0 };
        out.push(format!("resp s {} {} - {} MSGS {}", s, ah, end, msgs.iter().map(|m| hexb(m)).collect::<Vec<_>>().join(" ")).trim_end().to_string());
    }
    // client requests: send encoding × accept sets × origins × forged user metadata
    // origins with a query string too: only the origin's PATH goes in front of the method path (seed C03e)
    let origins = ["", "/", "/base", "/a/b", "/api?tenant=acme", "/?x=1", "?q", "/a/b/?k=v&z=/pkg.Svc/Other"];
    let metas: Vec<Vec<(&str, &str)>> = vec![
        vec![],
        vec![("x-user", "1")],
        vec![("te", "gzip"), ("content-type", "text/plain"), ("x-user", "v")],
        vec![("grpc-encoding", "zstd")],
        vec![("user-agent", "forged"), ("x-a", "1"), ("x-a", "2")],
    ];
    for send in ["-", "g", "d", "z"] {
        for acc in ["-", "g", "gd", "zdg"] {
            for o in origins {
                for m in &metas {
                    let meta: Vec<String> = m.iter().map(|(k, v)| format!("{} {}", hexb(k.as_bytes()), hexb(v.as_bytes()))).collect();
                    let msg = gen_msg(rng, 200);
                    out.push(format!("req {} {} {} {} META {} MSG {}", send, acc, hexb(o.as_bytes()), hexb(b"/pkg.Svc/Method"), meta.join(" "), hexb(&msg)).replace("  ", " "));
                }
            }
        }
    }
    out
}
