//! C03 — requests and responses on the wire are spec-conformant gRPC (body part).
use crate::common::*;
use crate::framing::*;

pub fn generate(tier: &str, rng: &mut Rng) -> Vec<String> {
    let thorough = tier == "thorough";
    let mut out = Vec::new();
    out.push(
        EncCase { server: true, comp: None, disable: false, yield_thr: 32768, buf_size: 8192, max: Some(10),
                  evs: vec!["i010203".into(), "i040506".into(), format!("i{}", "07".repeat(100)), "i01".into()],
                  items: vec![vec![1, 2, 3], vec![4, 5, 6], vec![7; 100], vec![1]], extra_polls: 4 }.line(),
    );
    out.push(
        EncCase { server: true, comp: None, disable: false, yield_thr: 0, buf_size: 8192, max: None,
                  evs: vec!["i0102".into(), "e5".into(), "i03".into(), "i04".into()],
                  items: vec![vec![1, 2], vec![3], vec![4]], extra_polls: 4 }.line(),
    );
    let n = if thorough { 40000 } else { 4000 };
    for _ in 0..n {
        let (e, l) = (rng.chance(1, 2), rng.chance(1, 3));
        let mut c = gen_enc_case(rng, e, l);
        c.extra_polls += 2;
        out.push(c.line());
    }
    out
}

pub fn execute(case: &str) -> String {
    crate::framing::execute(case)
}
