//! C11 dimension audit (aC11): further case kinds, all on the real generators.
//!
//! * `px` — the prost front end on a descriptor SET: several services in one `.proto` file, in
//!   several files of one package, in several packages (the same service name in two packages,
//!   with and without a package), through every public entry point (`<via>`):
//!   `fds` `Builder::compile_fds`, `fdscfg` `compile_fds_with_config` (a `prost_build::Config`
//!   that already carries settings of its own), `sgen` `Builder::service_generator()` handed to
//!   the user's own `prost_build::Config`, `skip` `file_descriptor_set_path` + `skip_protoc_run` +
//!   `compile_protos`, `protos` / `protoscfg` `compile_protos[_with_config]` on `.proto` TEXT
//!   files through the real `protoc` (generated only when `protoc` is on the PATH), `free` /
//!   `freep` the free functions `tonic_build::compile_fds` / `compile_protos` (`OUT_DIR`);
//!   and with the remaining builder knobs (`<knobs>`, none of which may be visible in paths,
//!   shapes, types, names): `dep0` / `dep1` methods with `option deprecated = true` (even / odd
//!   positions), `comm` leading comments on every service and method (quotes, `*/`, backslashes,
//!   non-ASCII, empty), `nocomm` `disable_comments` for every service and every even method,
//!   `attrs` `server_mod_attribute` / `server_attribute` / `client_mod_attribute` /
//!   `client_attribute`, `codec` `codec_path`, `notr` `build_transport(false)`, `tattr`
//!   `type_attribute` / `field_attribute` / `message_attribute` / `enum_attribute` / `boxed` /
//!   `btree_map` / `bytes` / `skip_debug`, `incl` `include_file`, `fdsp`
//!   `file_descriptor_set_path`.
//! * `gx` — `CodeGenBuilder` on a hand-made `tonic_build::Service` whose methods are deprecated
//!   / commented / use another codec, with `CodeGenBuilder::attributes` / `disable_comments`.
//! * `gseq` — ONE `CodeGenBuilder` value with a history: reconfigured between generations (only
//!   the setters whose value changes are called), used for several services, server before client
//!   or client before server.  Every generation must be that of a fresh builder with the options
//!   then in force.
//! * `mx` — `manual::Builder::compile` on SEVERAL services in one call (one output file each).
//! * `cseq` — the COMPILED generated clients of the build-time pool, made by every public
//!   constructor (`new`, `with_origin` without a path / with the path `/`, `with_interceptor`, the
//!   compression and size-limit setters, a clone of a dropped original) and used for SEVERAL calls
//!   (different methods of the service): on the same value, on fresh clones, on a clone taken after
//!   the first use, concurrently.  A tap between client and router records for every call the path
//!   and the `GrpcMethod` extension the client put on the request.
//! * `cmt` — the committed generated files themselves, judged against their own committed
//!   descriptor sets (`FILE_DESCRIPTOR_SET` of tonic-health / tonic-reflection).
use super::*;
use std::collections::BTreeMap;

// ---------------------------------------------------------------------------------------------
// knobs

#[derive(Default, Clone, Copy, Debug)]
pub(super) struct Knobs {
    dep0: bool,
    dep1: bool,
    comm: bool,
    nocomm: bool,
    attrs: bool,
    codec: bool,
    notr: bool,
    tattr: bool,
    incl: bool,
    fdsp: bool,
}

pub(super) const KNOB_NAMES: [&str; 10] = ["dep0", "dep1", "comm", "nocomm", "attrs", "codec", "notr", "tattr", "incl", "fdsp"];

impl Knobs {
    fn parse(s: &str) -> Option<Knobs> {
        let mut k = Knobs::default();
        if s == "-" {
            return Some(k);
        }
        for p in s.split(',') {
            match p {
                "dep0" => k.dep0 = true,
                "dep1" => k.dep1 = true,
                "comm" => k.comm = true,
                "nocomm" => k.nocomm = true,
                "attrs" => k.attrs = true,
                "codec" => k.codec = true,
                "notr" => k.notr = true,
                "tattr" => k.tattr = true,
                "incl" => k.incl = true,
                "fdsp" => k.fdsp = true,
                _ => return None,
            }
        }
        Some(k)
    }
    fn deprecated(&self, mi: usize) -> bool {
        (self.dep0 && mi % 2 == 0) || (self.dep1 && mi % 2 == 1)
    }
}

const COMMENTS: [&str; 6] = [
    " plain comment\n",
    "no leading space\n",
    " two lines\n second \"quoted\" line with */ and \\ and {braces}\n",
    " non-ascii: gr\u{fc}\u{df} \u{4e16}\u{754c}\n",
    "\n",
    " `code` [link](http://x) <tag> #[attr] /// //!\n",
];

// ---------------------------------------------------------------------------------------------
// px: descriptor sets

#[derive(Clone, Debug)]
struct PSvc {
    file: usize,
    pkg: String,
    name: String,
    methods: Vec<PM>,
}

fn pkg_order(svcs: &[PSvc]) -> Vec<String> {
    let mut v: Vec<String> = Vec::new();
    for s in svcs {
        if !v.contains(&s.pkg) {
            v.push(s.pkg.clone());
        }
    }
    v
}

fn fds_multi(svcs: &[PSvc], kn: &Knobs) -> prost_types::FileDescriptorSet {
    use prost_types::*;
    let pkgs = pkg_order(svcs);
    let mut deps: BTreeMap<&str, Vec<String>> = BTreeMap::new();
    let mut local: Vec<Vec<String>> = vec![Vec::new(); pkgs.len()];
    for s in svcs {
        let pi = pkgs.iter().position(|p| *p == s.pkg).unwrap();
        for m in &s.methods {
            for k in [&m.3, &m.4] {
                let (kk, name) = k.split_once(':').unwrap();
                let v = match kk {
                    "L" | "N" => &mut local[pi],
                    "O" => deps.entry("other.v1").or_default(),
                    "W" => deps.entry("google.protobuf").or_default(),
                    _ => deps.entry("ext.types").or_default(),
                };
                if !v.contains(&name.to_string()) {
                    v.push(name.to_string());
                }
            }
        }
    }
    let mut files = Vec::new();
    for (p, names) in &deps {
        files.push(FileDescriptorProto {
            name: Some(format!("{}.proto", p.replace('.', "/"))),
            package: Some(p.to_string()),
            message_type: msg_tree(names),
            syntax: Some("proto3".into()),
            ..Default::default()
        });
    }
    for (pi, p) in pkgs.iter().enumerate() {
        if local[pi].is_empty() {
            continue;
        }
        let mut l = local[pi].clone();
        l.sort();
        files.push(FileDescriptorProto {
            name: Some(format!("m{pi}.proto")),
            package: if p.is_empty() { None } else { Some(p.clone()) },
            message_type: msg_tree(&l),
            syntax: Some("proto3".into()),
            ..Default::default()
        });
    }
    let dep_names: Vec<String> = files.iter().map(|f| f.name.clone().unwrap()).collect();
    let mut fidx: Vec<usize> = svcs.iter().map(|s| s.file).collect();
    fidx.dedup();
    for f in fidx {
        let here: Vec<&PSvc> = svcs.iter().filter(|s| s.file == f).collect();
        let mut locs: Vec<source_code_info::Location> = Vec::new();
        let mut services = Vec::new();
        for (si, s) in here.iter().enumerate() {
            let loc = |path: Vec<i32>, k: usize| source_code_info::Location {
                path,
                span: vec![0, 0, 0],
                leading_comments: if k % 7 == 6 { None } else { Some(COMMENTS[k % COMMENTS.len()].to_string()) },
                ..Default::default()
            };
            locs.push(loc(vec![6, si as i32], f + si));
            let mut methods = Vec::new();
            for (mi, m) in s.methods.iter().enumerate() {
                locs.push(loc(vec![6, si as i32, 2, mi as i32], f + si + mi + 1));
                methods.push(MethodDescriptorProto {
                    name: Some(m.0.clone()),
                    input_type: kind_proto(&s.pkg, &m.3),
                    output_type: kind_proto(&s.pkg, &m.4),
                    client_streaming: if m.1 || mi % 2 == 0 { Some(m.1) } else { None },
                    server_streaming: if m.2 || mi % 2 == 1 { Some(m.2) } else { None },
                    options: if kn.deprecated(mi) { Some(MethodOptions { deprecated: Some(true), ..Default::default() }) } else { None },
                });
            }
            services.push(ServiceDescriptorProto { name: Some(s.name.clone()), method: methods, options: None });
        }
        locs.sort_by(|a, b| a.path.cmp(&b.path));
        files.push(FileDescriptorProto {
            name: Some(format!("s{f}.proto")),
            package: if here[0].pkg.is_empty() { None } else { Some(here[0].pkg.clone()) },
            dependency: dep_names.clone(),
            service: services,
            source_code_info: if kn.comm { Some(SourceCodeInfo { location: locs }) } else { None },
            syntax: Some("proto3".into()),
            ..Default::default()
        });
    }
    FileDescriptorSet { file: files }
}

/// `.proto` text of one file of the set (what a user would have written).
fn render_proto(fd: &prost_types::FileDescriptorProto) -> String {
    fn msg(d: &prost_types::DescriptorProto, ind: usize, out: &mut String) {
        let pad = "  ".repeat(ind);
        out.push_str(&format!("{pad}message {} {{\n", d.name()));
        for n in &d.nested_type {
            msg(n, ind + 1, out);
        }
        out.push_str(&format!("{pad}}}\n"));
    }
    let comments: BTreeMap<Vec<i32>, String> = fd
        .source_code_info
        .iter()
        .flat_map(|s| s.location.iter())
        .filter_map(|l| l.leading_comments.clone().map(|c| (l.path.clone(), c)))
        .collect();
    let comment = |path: &[i32], pad: &str, out: &mut String| {
        if let Some(c) = comments.get(path) {
            let body = c.strip_suffix('\n').unwrap_or(c);
            for line in body.split('\n') {
                out.push_str(&format!("{pad}//{line}\n"));
            }
        }
    };
    let mut s = String::from("syntax = \"proto3\";\n");
    if !fd.package().is_empty() {
        s.push_str(&format!("package {};\n", fd.package()));
    }
    for d in &fd.dependency {
        s.push_str(&format!("import \"{d}\";\n"));
    }
    for m in &fd.message_type {
        msg(m, 0, &mut s);
    }
    for (si, sv) in fd.service.iter().enumerate() {
        comment(&[6, si as i32], "", &mut s);
        s.push_str(&format!("service {} {{\n", sv.name()));
        for (mi, m) in sv.method.iter().enumerate() {
            comment(&[6, si as i32, 2, mi as i32], "  ", &mut s);
            let dep = m.options.as_ref().and_then(|o| o.deprecated).unwrap_or(false);
            s.push_str(&format!(
                "  rpc {} ({}{}) returns ({}{}){}\n",
                m.name(),
                if m.client_streaming() { "stream " } else { "" },
                m.input_type(),
                if m.server_streaming() { "stream " } else { "" },
                m.output_type(),
                if dep { " { option deprecated = true; }" } else { ";" }
            ));
        }
        s.push_str("}\n");
    }
    s
}

/// Writes the set as `.proto` files below `dir`; returns the files that hold services.
fn write_protos(fds: &prost_types::FileDescriptorSet, dir: &Path) -> Vec<PathBuf> {
    let mut out = Vec::new();
    for f in &fds.file {
        let p = dir.join(f.name());
        std::fs::create_dir_all(p.parent().unwrap()).unwrap();
        std::fs::write(&p, render_proto(f)).unwrap();
        if !f.service.is_empty() {
            out.push(p);
        }
    }
    out
}

/// protoc refuses a set in which a service's full name is also a package (prefix) or a message.
fn proto_conflict(svcs: &[PSvc]) -> bool {
    let full = |s: &PSvc| if s.pkg.is_empty() { s.name.clone() } else { format!("{}.{}", s.pkg, s.name) };
    let mut syms: Vec<String> = Vec::new();
    for p in svcs.iter().map(|s| s.pkg.as_str()).chain(["other.v1", "google.protobuf", "ext.types"]) {
        let mut acc = String::new();
        for part in p.split('.').filter(|x| !x.is_empty()) {
            if !acc.is_empty() {
                acc.push('.');
            }
            acc.push_str(part);
            syms.push(acc.clone());
        }
    }
    for s in svcs {
        for m in &s.methods {
            for k in [&m.3, &m.4] {
                if let Some(p) = kind_proto(&s.pkg, k) {
                    let mut acc = String::new();
                    for part in p.trim_start_matches('.').split('.') {
                        if !acc.is_empty() {
                            acc.push('.');
                        }
                        acc.push_str(part);
                        syms.push(acc.clone());
                    }
                }
            }
        }
    }
    let fulls: Vec<String> = svcs.iter().map(full).collect();
    fulls.iter().enumerate().any(|(i, f)| syms.contains(f) || fulls[..i].contains(f))
}

pub(super) fn have_protoc() -> bool {
    static HAVE: std::sync::OnceLock<bool> = std::sync::OnceLock::new();
    *HAVE.get_or_init(|| {
        std::process::Command::new(std::env::var_os("PROTOC").unwrap_or_else(|| "protoc".into()))
            .arg("--version")
            .stdin(std::process::Stdio::null())
            .output()
            .map(|o| o.status.success())
            .unwrap_or(false)
    })
}

struct RecS(std::rc::Rc<std::cell::RefCell<Vec<Vec<[String; 4]>>>>);
impl prost_build::ServiceGenerator for RecS {
    fn generate(&mut self, service: prost_build::Service, buf: &mut String) {
        buf.push_str("// recorded\n");
        self.0.borrow_mut().push(
            service
                .methods
                .iter()
                .map(|m| [m.input_proto_type.clone(), m.input_type.clone(), m.output_proto_type.clone(), m.output_type.clone()])
                .collect(),
        );
    }
}

/// prost-build's own answer for the message types of every method of every service of the set
/// (a bare prost-build run, no tonic-build), in generation order.
fn prost_view_multi(svcs: &[PSvc], wkt: bool, ext: &str) -> Option<Vec<Vec<[String; 4]>>> {
    let dir = tmp_dir("pxview");
    let _g = DirGuard(dir.clone());
    let rec = std::rc::Rc::new(std::cell::RefCell::new(Vec::new()));
    let mut cfg = prost_build::Config::new();
    cfg.out_dir(&dir).service_generator(Box::new(RecS(rec.clone())));
    if let Some(r) = ext_rust(ext) {
        cfg.extern_path(".ext.types", r);
    }
    if wkt {
        cfg.compile_well_known_types();
    }
    cfg.compile_fds(fds_multi(svcs, &Knobs::default())).ok()?;
    let v = rec.borrow().clone();
    Some(v)
}

/// The free functions write to `$OUT_DIR`: one at a time, each into a directory of its own.
fn with_out_dir<R>(f: impl FnOnce(&Path) -> R) -> R {
    static LOCK: std::sync::Mutex<()> = std::sync::Mutex::new(());
    let _l = LOCK.lock().unwrap_or_else(|e| e.into_inner());
    let d = tmp_dir("outdir");
    let _g = DirGuard(d.clone());
    std::env::set_var("OUT_DIR", &d);
    f(&d)
}

/// Client modules and server modules of an emitted file, each in order of appearance.
fn split_modules(file: &syn::File) -> (Vec<syn::Item>, Vec<syn::Item>) {
    let (mut c, mut s) = (Vec::new(), Vec::new());
    for it in &file.items {
        if let syn::Item::Mod(m) = it {
            let n = m.ident.to_string();
            if n.ends_with("_client") {
                c.push(it.clone());
            } else if n.ends_with("_server") {
                s.push(it.clone());
            }
        }
    }
    (c, s)
}

pub(super) const VIAS: [&str; 9] = ["fds", "fdscfg", "sgen", "skip", "protos", "protoscfg", "free", "freep", "fds"];

fn run_px(t: &[&str]) -> String {
    // px <via> <knobs> <emit> <arc> <stubs> <sides> <wkt> <proto_path> <extern> <k>
    //    { <file> <pkg> <service> <n> {method cs ss inKind inProto inRust inHere outKind outProto outRust outHere}^n }^k
    if t.len() < 11 {
        return "bad-case".into();
    }
    let via = t[1];
    let Some(kn) = Knobs::parse(t[2]) else { return "bad-case".into() };
    let (emit, arc, stubs) = (t[3] == "1", t[4] == "1", t[5] == "1");
    let sides = t[6];
    let wkt = t[7] == "1";
    let ppath = t[8];
    let ext = t[9];
    let Ok(k) = t[10].parse::<usize>() else { return "bad-case".into() };
    let mut pos = 11;
    let mut svcs: Vec<PSvc> = Vec::new();
    for _ in 0..k {
        if t.len() < pos + 4 {
            return "bad-case".into();
        }
        let (Ok(file), Ok(n)) = (t[pos].parse::<usize>(), t[pos + 3].parse::<usize>()) else { return "bad-case".into() };
        let pkg = undash(t[pos + 1]);
        if t.len() < pos + 4 + 11 * n {
            return "bad-case".into();
        }
        let Some(raw) = parse_methods(&t[pos + 4..pos + 4 + 11 * n], 11, n) else { return "bad-case".into() };
        for m in &raw {
            for (kd, p, h) in [(&m[3], &m[4], &m[6]), (&m[7], &m[8], &m[10])] {
                if kind_proto(&pkg, kd).as_deref() != Some(p.as_str()) || fl(kind_here(kd, wkt, ext)) != h.as_str() {
                    return "bad-case".into();
                }
            }
        }
        svcs.push(PSvc {
            file,
            pkg,
            name: t[pos + 2].to_string(),
            methods: raw.iter().map(|m| (m[0].clone(), m[1] == "1", m[2] == "1", m[3].clone(), m[7].clone())).collect(),
        });
        pos += 4 + 11 * n;
    }
    if pos != t.len() || svcs.is_empty() {
        return "bad-case".into();
    }
    // files in ascending order, one package per file
    for w in svcs.windows(2) {
        if w[0].file > w[1].file || (w[0].file == w[1].file && w[0].pkg != w[1].pkg) {
            return "bad-case".into();
        }
    }
    let free = via == "free" || via == "freep";
    if free && !(emit && !arc && !stubs && sides == "both" && !wkt && ppath == "super" && ext == "-") {
        return "bad-case".into();
    }
    if free && (kn.nocomm || kn.attrs || kn.codec || kn.notr || kn.tattr || kn.incl || kn.fdsp) {
        return "bad-case".into();
    }
    if via == "freep" && svcs.iter().any(|s| s.file != svcs[0].file) {
        return "bad-case".into();
    }
    let dir = tmp_dir("px");
    let _g = DirGuard(dir.clone());
    let out = dir.join("out");
    std::fs::create_dir_all(&out).unwrap();
    let mut b = tonic_build::configure()
        .out_dir(&out)
        .emit_rerun_if_changed(false)
        .use_arc_self(arc)
        .generate_default_stubs(stubs)
        .compile_well_known_types(wkt)
        .proto_path(ppath)
        .build_client(sides != "server")
        .build_server(sides != "client");
    if via != "sgen" {
        if let Some(r) = ext_rust(ext) {
            b = b.extern_path(".ext.types", r);
        }
    }
    if !emit {
        b = b.disable_package_emission();
    }
    if kn.nocomm {
        for s in &svcs {
            let full = if emit && !s.pkg.is_empty() { format!("{}.{}", s.pkg, s.name) } else { s.name.clone() };
            for (mi, m) in s.methods.iter().enumerate() {
                if mi % 2 == 0 {
                    b = b.disable_comments(format!("{full}.{}", m.0));
                }
            }
            b = b.disable_comments(full);
        }
    }
    if kn.attrs {
        b = b
            .server_mod_attribute(".", r#"#[cfg(feature = "server")]"#)
            .client_mod_attribute(&svcs[0].pkg, "#[allow(unused)]")
            .server_attribute(".", "#[derive(PartialEq)]")
            .client_attribute(&svcs[0].name, "#[derive(PartialEq)]")
            .client_attribute(".", "#[must_use]");
    }
    if kn.codec {
        b = b.codec_path("crate::codec::MyCodec");
    }
    if kn.notr {
        b = b.build_transport(false);
    }
    if kn.tattr {
        b = b
            .type_attribute(".", "#[derive(Hash)]")
            .field_attribute(".", "#[allow(unused)]")
            .message_attribute(".", "#[derive(Eq)]")
            .enum_attribute(".", "#[derive(Eq)]")
            .boxed(".")
            .btree_map(["."])
            .bytes(["."])
            .skip_debug(".");
    }
    if kn.incl {
        b = b.include_file("all.rs");
    }
    if kn.fdsp && via != "skip" {
        b = b.file_descriptor_set_path(dir.join("written.bin"));
    }
    let fds = fds_multi(&svcs, &kn);
    let res: std::io::Result<()> = match via {
        "fds" => b.compile_fds(fds),
        "fdscfg" => {
            let mut cfg = prost_build::Config::new();
            cfg.out_dir(dir.join("not-here")).type_attribute(".", "#[derive(Ord)]").default_package_filename("nopkg");
            // (the builder's out_dir wins; `default_package_filename` is the user's own choice)
            b.compile_fds_with_config(cfg, fds)
        }
        "sgen" => {
            let mut cfg = prost_build::Config::new();
            cfg.out_dir(&out);
            if let Some(r) = ext_rust(ext) {
                cfg.extern_path(".ext.types", r);
            }
            if wkt {
                cfg.compile_well_known_types();
            }
            cfg.service_generator(b.service_generator());
            cfg.compile_fds(fds)
        }
        "skip" => {
            use prost::Message as _;
            let p = dir.join("given.bin");
            std::fs::write(&p, fds.encode_to_vec()).unwrap();
            b.file_descriptor_set_path(&p).skip_protoc_run().compile_protos(&[] as &[&str], &[] as &[&str])
        }
        "protos" | "protoscfg" => {
            let inc = dir.join("in");
            let files = write_protos(&fds, &inc);
            if via == "protos" {
                b.compile_protos(&files, &[&inc])
            } else {
                let mut cfg = prost_build::Config::new();
                cfg.type_attribute(".", "#[derive(Ord)]");
                b.compile_protos_with_config(cfg, &files, &[&inc])
            }
        }
        "free" => with_out_dir(|d| {
            let r = tonic_build::compile_fds(fds);
            for e in std::fs::read_dir(d).unwrap().flatten() {
                let _ = std::fs::copy(e.path(), out.join(e.file_name()));
            }
            r
        }),
        "freep" => {
            let inc = dir.join("in");
            let files = write_protos(&fds, &inc);
            with_out_dir(|d| {
                let r = tonic_build::compile_protos(&files[0]);
                for e in std::fs::read_dir(d).unwrap().flatten() {
                    let _ = std::fs::copy(e.path(), out.join(e.file_name()));
                }
                r
            })
        }
        _ => return "bad-case".into(),
    };
    if let Err(e) = res {
        return format!("generator-error {}", tok(&e.to_string()));
    }
    // one file per module (prost-build's own naming); within it the i-th client module and the
    // i-th server module belong to the i-th service of that module (generation order = file
    // order, then order in the file)
    let default = if via == "fdscfg" { "nopkg" } else { "_" };
    let fnames: Vec<String> = svcs.iter().map(|s| prost_build::Module::from_protobuf_package_name(&s.pkg).to_file_name_or(default)).collect();
    let mut distinct: Vec<&String> = Vec::new();
    for f in &fnames {
        if !distinct.contains(&f) {
            distinct.push(f);
        }
    }
    let mut rendered: Vec<Option<String>> = vec![None; svcs.len()];
    for fname in distinct {
        let text = match std::fs::read_to_string(out.join(fname)) {
            Ok(s) => s,
            Err(_) => return format!("unexpected-shape no-file-{}", tok(fname)),
        };
        let file = match syn::parse_file(&text) {
            Ok(f) => f,
            Err(e) => return format!("emitted-code-does-not-parse {}", tok(&e.to_string())),
        };
        let (cm, sm) = split_modules(&file);
        let idx: Vec<usize> = (0..svcs.len()).filter(|&i| fnames[i] == *fname).collect();
        let want_c = if sides != "server" { idx.len() } else { 0 };
        let want_s = if sides != "client" { idx.len() } else { 0 };
        if cm.len() != want_c || sm.len() != want_s {
            return format!("unexpected-shape modules-{}-c{}-s{}-want-c{}-s{}", tok(fname), cm.len(), sm.len(), want_c, want_s);
        }
        for (n, &i) in idx.iter().enumerate() {
            let mut items = Vec::new();
            if let Some(s) = sm.get(n) {
                items.push(s.clone());
            }
            if let Some(c) = cm.get(n) {
                items.push(c.clone());
            }
            let f = syn::File { shebang: None, attrs: Vec::new(), items };
            rendered[i] = Some(render(&extract(&f), false));
        }
    }
    format!("svcs {} {}", svcs.len(), rendered.into_iter().map(|r| r.unwrap()).collect::<Vec<_>>().join(" "))
}

// ---------------------------------------------------------------------------------------------
// gx / gseq: CodeGenBuilder

struct XM {
    base: MDesc,
    dep: bool,
    comments: Vec<String>,
    codec: String,
}

impl tonic_build::Method for XM {
    type Comment = String;
    fn name(&self) -> &str {
        &self.base.name
    }
    fn identifier(&self) -> &str {
        &self.base.ident
    }
    fn codec_path(&self) -> &str {
        &self.codec
    }
    fn client_streaming(&self) -> bool {
        self.base.cs
    }
    fn server_streaming(&self) -> bool {
        self.base.ss
    }
    fn comment(&self) -> &[String] {
        &self.comments
    }
    fn deprecated(&self) -> bool {
        self.dep
    }
    fn request_response_name(&self, proto_path: &str, wkt: bool) -> (TokenStream, TokenStream) {
        tonic_build::Method::request_response_name(&self.base, proto_path, wkt)
    }
}

struct XS {
    name: String,
    package: String,
    ident: String,
    methods: Vec<XM>,
    comments: Vec<String>,
}

impl tonic_build::Service for XS {
    type Comment = String;
    type Method = XM;
    fn name(&self) -> &str {
        &self.name
    }
    fn package(&self) -> &str {
        &self.package
    }
    fn identifier(&self) -> &str {
        &self.ident
    }
    fn methods(&self) -> &[XM] {
        &self.methods
    }
    fn comment(&self) -> &[String] {
        &self.comments
    }
}

#[derive(Clone, Copy, PartialEq, Debug)]
struct GO {
    emit: bool,
    arc: bool,
    stubs: bool,
    transport: bool,
    wkt: bool,
}

/// `<emit> <arc> <stubs> <transport> <sides> <wkt> <proto_path> <pkg> <name> <ident> <n> {fn ident cs ss in out}^n`
fn parse_gen_tail<'a>(t: &[&'a str], kn: &Knobs) -> Option<(GO, &'a str, &'a str, XS)> {
    if t.len() < 11 {
        return None;
    }
    let o = GO { emit: t[0] == "1", arc: t[1] == "1", stubs: t[2] == "1", transport: t[3] == "1", wkt: t[5] == "1" };
    let n: usize = t[10].parse().ok()?;
    let ms = parse_methods(&t[11..], 6, n)?;
    if ms.iter().any(|m| !(m[4].starts_with("F:") || m[4].starts_with("E:")) || !(m[5].starts_with("F:") || m[5].starts_with("E:"))) {
        return None;
    }
    if !["both", "client", "server"].contains(&t[4]) {
        return None;
    }
    let lines = |k: usize| -> Vec<String> {
        if kn.comm {
            COMMENTS[k % COMMENTS.len()].trim_end_matches('\n').split('\n').map(|s| s.to_string()).collect()
        } else {
            Vec::new()
        }
    };
    let svc = XS {
        name: t[8].to_string(),
        package: undash(t[7]),
        ident: t[9].to_string(),
        comments: lines(n),
        methods: ms
            .iter()
            .enumerate()
            .map(|(mi, m)| XM {
                base: MDesc { name: m[0].clone(), ident: m[1].clone(), cs: m[2] == "1", ss: m[3] == "1", input: m[4].clone(), output: m[5].clone() },
                dep: kn.deprecated(mi),
                comments: lines(mi),
                codec: if kn.codec { "crate::codec::MyCodec".into() } else { "tonic::codec::ProstCodec".into() },
            })
            .collect(),
    };
    Some((o, t[4], t[6], svc))
}

fn run_gx(t: &[&str]) -> String {
    // gx <knobs> <gen tail>
    if t.len() < 3 {
        return "bad-case".into();
    }
    let Some(kn) = Knobs::parse(t[1]) else { return "bad-case".into() };
    if kn.notr || kn.tattr || kn.incl || kn.fdsp {
        return "bad-case".into();
    }
    let Some((o, sides, ppath, svc)) = parse_gen_tail(&t[2..], &kn) else { return "bad-case".into() };
    let mut b = tonic_build::CodeGenBuilder::new();
    b.emit_package(o.emit).compile_well_known_types(o.wkt).use_arc_self(o.arc).generate_default_stubs(o.stubs).build_transport(o.transport);
    if kn.attrs {
        let mut a = tonic_build::Attributes::default();
        a.push_mod(".", r#"#[cfg(feature = "x")]"#);
        a.push_mod(svc.package.clone(), "#[allow(unused)]");
        a.push_struct(".", "#[derive(PartialEq)]");
        a.push_struct(svc.ident.clone(), "#[must_use]");
        b.attributes(a);
    }
    if kn.nocomm {
        let full = if o.emit && !svc.package.is_empty() { format!("{}.{}", svc.package, svc.ident) } else { svc.ident.clone() };
        let mut set: std::collections::HashSet<String> = svc.methods.iter().step_by(2).map(|m| format!("{full}.{}", m.base.ident)).collect();
        set.insert(full);
        b.disable_comments(set);
    }
    let mut ts = TokenStream::new();
    if sides != "client" {
        ts.extend(b.generate_server(&svc, ppath));
    }
    if sides != "server" {
        ts.extend(b.generate_client(&svc, ppath));
    }
    match syn::parse2::<syn::File>(ts) {
        Ok(f) => render(&extract(&f), true),
        Err(e) => format!("emitted-code-does-not-parse {}", tok(&e.to_string())),
    }
}

fn run_gseq(t: &[&str]) -> String {
    // gseq <k> { <ntok> <order> <gen tail (ntok tokens)> }^k      order = sc | cs
    if t.len() < 2 {
        return "bad-case".into();
    }
    let Ok(k) = t[1].parse::<usize>() else { return "bad-case".into() };
    let mut pos = 2;
    let mut b = tonic_build::CodeGenBuilder::new();
    // CodeGenBuilder::default()
    let mut cur = GO { emit: true, arc: false, stubs: false, transport: true, wkt: false };
    let mut outs = Vec::new();
    for _ in 0..k {
        if t.len() < pos + 2 {
            return "bad-case".into();
        }
        let Ok(n) = t[pos].parse::<usize>() else { return "bad-case".into() };
        let order = t[pos + 1];
        if t.len() < pos + 2 + n || !(order == "sc" || order == "cs") {
            return "bad-case".into();
        }
        let Some((o, sides, ppath, svc)) = parse_gen_tail(&t[pos + 2..pos + 2 + n], &Knobs::default()) else { return "bad-case".into() };
        pos += 2 + n;
        // only the setters whose value changes are called
        if o.emit != cur.emit {
            b.emit_package(o.emit);
        }
        if o.wkt != cur.wkt {
            b.compile_well_known_types(o.wkt);
        }
        if o.arc != cur.arc {
            b.use_arc_self(o.arc);
        }
        if o.stubs != cur.stubs {
            b.generate_default_stubs(o.stubs);
        }
        if o.transport != cur.transport {
            b.build_transport(o.transport);
        }
        cur = o;
        let mut server = TokenStream::new();
        let mut client = TokenStream::new();
        for side in order.chars() {
            if side == 's' && sides != "client" {
                server = b.generate_server(&svc, ppath);
            }
            if side == 'c' && sides != "server" {
                client = b.generate_client(&svc, ppath);
            }
        }
        let mut ts = server;
        ts.extend(client);
        outs.push(match syn::parse2::<syn::File>(ts) {
            Ok(f) => render(&extract(&f), true),
            Err(e) => return format!("emitted-code-does-not-parse {}", tok(&e.to_string())),
        });
    }
    if pos != t.len() {
        return "bad-case".into();
    }
    format!("svcs {} {}", outs.len(), outs.join(" "))
}

// ---------------------------------------------------------------------------------------------
// mx: manual::Builder::compile on several services

fn run_mx(t: &[&str]) -> String {
    // mx <transport> <sides> <k> { <pkg> <name> <n> {fn route cs ss in out}^n }^k
    if t.len() < 4 {
        return "bad-case".into();
    }
    let transport = t[1] == "1";
    let sides = t[2];
    let Ok(k) = t[3].parse::<usize>() else { return "bad-case".into() };
    let mut pos = 4;
    let mut svcs = Vec::new();
    let mut names: Vec<(String, String)> = Vec::new();
    for si in 0..k {
        if t.len() < pos + 3 {
            return "bad-case".into();
        }
        let Ok(n) = t[pos + 2].parse::<usize>() else { return "bad-case".into() };
        if t.len() < pos + 3 + 6 * n {
            return "bad-case".into();
        }
        let Some(ms) = parse_methods(&t[pos + 3..pos + 3 + 6 * n], 6, n) else { return "bad-case".into() };
        let key = (undash(t[pos]), t[pos + 1].to_string());
        if names.contains(&key) {
            return "bad-case".into(); // (same output file)
        }
        names.push(key);
        let mut sb = tonic_build::manual::Service::builder().name(t[pos + 1]).package(undash(t[pos]));
        if si % 2 == 0 {
            sb = sb.comment(COMMENTS[si % COMMENTS.len()].trim_end());
        }
        for (mi, m) in ms.iter().enumerate() {
            let mut mb = tonic_build::manual::Method::builder()
                .name(&m[0])
                .route_name(&m[1])
                .input_type(&m[4])
                .output_type(&m[5])
                .codec_path("tonic::codec::ProstCodec");
            if mi % 2 == 1 {
                mb = mb.comment(COMMENTS[(si + mi) % COMMENTS.len()].trim_end().replace('\n', " "));
            }
            if m[2] == "1" {
                mb = mb.client_streaming();
            }
            if m[3] == "1" {
                mb = mb.server_streaming();
            }
            sb = sb.method(mb.build());
        }
        svcs.push(sb.build());
        pos += 3 + 6 * n;
    }
    if pos != t.len() {
        return "bad-case".into();
    }
    let dir = tmp_dir("mx");
    let _g = DirGuard(dir.clone());
    tonic_build::manual::Builder::new()
        .build_client(sides != "server")
        .build_server(sides != "client")
        .build_transport(transport)
        .out_dir(&dir)
        .compile(&svcs);
    let mut outs = Vec::new();
    for (pkg, name) in &names {
        let text = match std::fs::read_to_string(dir.join(format!("{pkg}.{name}.rs"))) {
            Ok(s) => s,
            Err(_) => return format!("unexpected-shape no-file-{}.{}", dash(pkg), name),
        };
        outs.push(match syn::parse_file(&text) {
            Ok(f) => render(&extract(&f), true),
            Err(e) => return format!("emitted-code-does-not-parse {}", tok(&e.to_string())),
        });
    }
    format!("svcs {} {}", outs.len(), outs.join(" "))
}

// ---------------------------------------------------------------------------------------------
// cseq: compiled generated clients, constructors × call histories

/// What the generated client put on one request: (call tag, path, GrpcMethod service, method).
type TapRec = std::sync::Arc<std::sync::Mutex<Vec<(String, String, String, String)>>>;

/// Sits between the generated client and the router; forwards untouched.
#[derive(Clone)]
pub struct Tap {
    inner: tonic::service::Routes,
    rec: TapRec,
}

impl tower_service::Service<http::Request<tonic::body::Body>> for Tap {
    type Response = http::Response<tonic::body::Body>;
    type Error = std::convert::Infallible;
    type Future = <tonic::service::Routes as tower_service::Service<http::Request<tonic::body::Body>>>::Future;
    fn poll_ready(&mut self, cx: &mut std::task::Context<'_>) -> std::task::Poll<Result<(), Self::Error>> {
        tower_service::Service::<http::Request<tonic::body::Body>>::poll_ready(&mut self.inner, cx)
    }
    fn call(&mut self, req: http::Request<tonic::body::Body>) -> Self::Future {
        let k = req.headers().get("x-k").and_then(|v| v.to_str().ok()).unwrap_or("-").to_string();
        let (gs, gm) = match req.extensions().get::<tonic::GrpcMethod<'static>>() {
            Some(g) => (g.service().to_string(), g.method().to_string()),
            None => ("none".to_string(), "none".to_string()),
        };
        let target = match req.uri().query() {
            Some(q) => format!("{}?{}", req.uri().path(), q),
            None => req.uri().path().to_string(),
        };
        self.rec.lock().unwrap().push((k, target, gs, gm));
        self.inner.call(req)
    }
}

/// the request of call number `k` of a sequence
pub fn tagged<T>(msg: T, k: usize) -> tonic::Request<T> {
    let mut r = tonic::Request::new(msg);
    r.metadata_mut().insert("x-k", k.to_string().parse().unwrap());
    r
}

/// All futures are polled (the last one first) before any answer is taken.
pub async fn join_all<F: std::future::Future>(mut futs: Vec<std::pin::Pin<Box<F>>>) -> Vec<F::Output> {
    let mut outs: Vec<Option<F::Output>> = futs.iter().map(|_| None).collect();
    std::future::poll_fn(|cx| {
        let mut pending = false;
        for (i, f) in futs.iter_mut().enumerate().rev() {
            if outs[i].is_none() {
                match f.as_mut().poll(cx) {
                    std::task::Poll::Ready(v) => outs[i] = Some(v),
                    std::task::Poll::Pending => pending = true,
                }
            }
        }
        if pending {
            std::task::Poll::Pending
        } else {
            std::task::Poll::Ready(())
        }
    })
    .await;
    outs.into_iter().map(|o| o.unwrap()).collect()
}

#[allow(clippy::all)]
pub mod cpool {
    include!(concat!(env!("OUT_DIR"), "/c11x_pool.rs"));
}

const CTORS: [&str; 6] = ["new", "origin", "origin-slash", "icept", "conf", "cloned"];
const MODES: [&str; 4] = ["same", "clones", "clone-used", "conc"];

fn cseq_line(ctor: &str, mode: &str, wrap: Wrap, reg: &[usize], i: usize, js: &[usize]) -> String {
    let mut s = format!("cseq {} {} {} {}", ctor, mode, wrap.token(), reg.len());
    for &r in reg {
        s.push(' ');
        s.push_str(&pool_block(r));
    }
    s.push_str(&format!(" target {} {}", pool_block(i), js.len()));
    for j in js {
        s.push_str(&format!(" {j}"));
    }
    s
}

fn run_cseq(t: &[&str]) -> String {
    // cseq <ctor> <mode> <wrap> <n> {pool block}^n target <pool block> <ncalls> {j}^ncalls
    if t.len() < 5 {
        return "bad-case".into();
    }
    let (ctor, mode) = (t[1], t[2]);
    if !CTORS.contains(&ctor) || !MODES.contains(&mode) {
        return "bad-case".into();
    }
    let Some(wrap) = Wrap::parse(t[3]) else { return "bad-case".into() };
    let Ok(n) = t[4].parse::<usize>() else { return "bad-case".into() };
    let mut pos = 5;
    let mut regv = Vec::new();
    for _ in 0..n {
        let Some((i, used)) = take_pool_block(&t[pos..]) else { return "bad-case".into() };
        regv.push(i);
        pos += used;
    }
    if t.get(pos) != Some(&"target") {
        return "bad-case".into();
    }
    pos += 1;
    let Some((ti, used)) = take_pool_block(&t[pos..]) else { return "bad-case".into() };
    pos += used;
    let Some(Ok(nc)) = t.get(pos).map(|x| x.parse::<usize>()) else { return "bad-case".into() };
    pos += 1;
    if t.len() != pos + nc || nc == 0 || nc > 40 {
        return "bad-case".into();
    }
    let mut calls: Vec<(usize, pool::Req)> = Vec::new();
    for (k, x) in t[pos..].iter().enumerate() {
        let Ok(j) = x.parse::<usize>() else { return "bad-case".into() };
        if j >= POOL[ti].2.len() {
            return "bad-case".into();
        }
        calls.push((j, "x".repeat(k + 1)));
    }
    let h = Handler::default();
    let Some(mut reg) = Reg::new("routes") else { return "bad-case".into() };
    for &i in &regv {
        pool::add(&mut reg, i, wrap, h.clone());
    }
    let Built::Routes(routes) = reg.finish() else { return "bad-case".into() };
    let rec: TapRec = Default::default();
    let tap = Tap { inner: routes, rec: rec.clone() };
    let rt = tokio::runtime::Builder::new_current_thread().enable_all().build().unwrap();
    let res = rt.block_on(cpool::client_seq(ti, ctor, mode, &calls, tap));
    let recs = rec.lock().unwrap().clone();
    let mut out = vec![format!("calls {}", res.len())];
    for (k, r) in res.iter().enumerate() {
        let seen: Vec<&(String, String, String, String)> = recs.iter().filter(|x| x.0 == k.to_string()).collect();
        let head = match seen.as_slice() {
            [x] => format!("{} {} {}", tok(&x.1), tok(&x.2), tok(&x.3)),
            [] => "- - -".to_string(),
            _ => "multiple multiple multiple".to_string(),
        };
        out.push(match r {
            Ok(v) => format!("{head} ok {} {}", v.len(), v.iter().map(|x| x.to_string()).collect::<Vec<_>>().join(" ")).trim_end().to_string(),
            Err(st) => format!("{head} err {}", st.code() as i32),
        });
    }
    // every request the tap saw belongs to a call of the sequence
    out.push(format!("seen {}", recs.len()));
    out.join(" ")
}

// ---------------------------------------------------------------------------------------------
// cmt: the committed generated files against their own committed descriptor sets

fn cmt_sources() -> [(&'static str, &'static str, &'static [u8]); 3] {
    [
        ("health", "tonic-health/src/generated/grpc_health_v1.rs", tonic_health::pb::FILE_DESCRIPTOR_SET),
        ("reflection-v1", "tonic-reflection/src/generated/grpc_reflection_v1.rs", tonic_reflection::pb::v1::FILE_DESCRIPTOR_SET),
        ("reflection-v1alpha", "tonic-reflection/src/generated/grpc_reflection_v1alpha.rs", tonic_reflection::pb::v1alpha::FILE_DESCRIPTOR_SET),
    ]
}

/// `cmt <which> <pkg> <service> <n> {method cs ss inProto outProto}^n` — the descriptor part of the
/// line is read from the committed descriptor set by the generator of cases.
fn cmt_line(which: &str) -> Option<String> {
    use prost::Message as _;
    let (_, _, bytes) = cmt_sources().into_iter().find(|s| s.0 == which)?;
    let fds = prost_types::FileDescriptorSet::decode(bytes).ok()?;
    let fd = fds.file.iter().find(|f| !f.service.is_empty())?;
    let sv = &fd.service[0];
    let mut s = format!("cmt {} {} {} {}", which, dash(fd.package()), sv.name(), sv.method.len());
    for m in &sv.method {
        s.push_str(&format!(" {} {} {} {} {}", m.name(), fl(m.client_streaming()), fl(m.server_streaming()), m.input_type(), m.output_type()));
    }
    Some(s)
}

fn run_cmt(t: &[&str]) -> String {
    if t.len() < 2 {
        return "bad-case".into();
    }
    // the line must be the one the committed descriptor set gives
    match cmt_line(t[1]) {
        Some(l) if l.split(' ').collect::<Vec<_>>() == t => {}
        _ => return "bad-case".into(),
    }
    let (_, rel, _) = cmt_sources().into_iter().find(|s| s.0 == t[1]).unwrap();
    let text = match std::fs::read_to_string(repo_dir().join(rel)) {
        Ok(s) => s,
        Err(_) => return "unexpected-shape committed-file-unreadable".into(),
    };
    match syn::parse_file(&text) {
        Ok(f) => render(&extract(&f), false),
        Err(e) => format!("emitted-code-does-not-parse {}", tok(&e.to_string())),
    }
}

// ---------------------------------------------------------------------------------------------
// generation of cases

struct PxOpts<'a> {
    via: &'a str,
    knobs: &'a str,
    o: ProstOpts<'a>,
}

/// (file, package, service, methods (ident, cs, ss), kinds)
type Shape<'a> = (usize, &'a str, &'a str, Vec<(&'a str, bool, bool)>, Vec<(&'a str, &'a str)>);

fn px_line(x: &PxOpts, shape: &[Shape]) -> String {
    let svcs: Vec<PSvc> = shape
        .iter()
        .map(|(f, p, n, ms, kinds)| PSvc {
            file: *f,
            pkg: p.to_string(),
            name: n.to_string(),
            methods: ms.iter().zip(kinds).map(|(&(id, cs, ss), (i, o))| (id.to_string(), cs, ss, i.to_string(), o.to_string())).collect(),
        })
        .collect();
    let o = &x.o;
    let view = prost_view_multi(&svcs, o.wkt, o.ext).expect("prost-build refused a harness-made descriptor set");
    assert_eq!(view.len(), svcs.len());
    let mut s = format!("px {} {} {} {} {} {} {} {} {} {}", x.via, x.knobs, fl(o.emit), fl(o.arc), fl(o.stubs), o.sides, fl(o.wkt), o.ppath, o.ext, svcs.len());
    for (sv, vs) in svcs.iter().zip(&view) {
        assert_eq!(sv.methods.len(), vs.len());
        s.push_str(&format!(" {} {} {} {}", sv.file, dash(&sv.pkg), sv.name, sv.methods.len()));
        for (m, v) in sv.methods.iter().zip(vs) {
            s.push_str(&format!(
                " {} {} {} {} {} {} {} {} {} {} {}",
                m.0, fl(m.1), fl(m.2),
                m.3, tok(&v[0]), tok(&v[1].replace(' ', "")), fl(kind_here(&m.3, o.wkt, o.ext)),
                m.4, tok(&v[2]), tok(&v[3].replace(' ', "")), fl(kind_here(&m.4, o.wkt, o.ext))
            ));
        }
    }
    s
}

const X_PACKAGES: [&str; 13] = ["", "a", "a.b", "grpc.health.v1", "A", "my_pkg.v1", "x1.y2.z3", "pkg", "type.v1", "async", "My.Pkg", "a1._b", "b"];
const X_SVCS: [&str; 10] = ["Greeter", "S", "Health", "My_Service", "S1", "greeter", "ServerReflection", "Svc", "KV", "HTTPProxy"];
const X_METHODS: [&str; 14] = ["SayHello", "M", "Check", "Watch", "GET", "Do2", "snake_case", "lower", "Type", "Self", "unaryCall", "Crate", "Async", "HTTPGet"];

fn shape_conflict(shape: &[Shape]) -> bool {
    let svcs: Vec<PSvc> = shape
        .iter()
        .map(|(f, p, n, ms, kinds)| PSvc {
            file: *f,
            pkg: p.to_string(),
            name: n.to_string(),
            methods: ms.iter().zip(kinds).map(|(&(id, cs, ss), (i, o))| (id.to_string(), cs, ss, i.to_string(), o.to_string())).collect(),
        })
        .collect();
    // two services of one package whose Rust names coincide would be one module
    let dup = shape.iter().enumerate().any(|(i, a)| shape[..i].iter().any(|b| a.1 == b.1 && a.2.to_lowercase().replace('_', "") == b.2.to_lowercase().replace('_', "")));
    dup || proto_conflict(&svcs)
}

fn rand_methods<'a>(rng: &mut Rng, n: usize) -> (Vec<(&'a str, bool, bool)>, Vec<(&'static str, &'static str)>) {
    let mut idx: Vec<usize> = (0..X_METHODS.len()).collect();
    for x in (1..idx.len()).rev() {
        let y = rng.below(x as u64 + 1) as usize;
        idx.swap(x, y);
    }
    idx.truncate(n);
    let ms = idx.into_iter().map(|k| (X_METHODS[k], rng.chance(1, 2), rng.chance(1, 2))).collect();
    (ms, pick_kinds(rng, n))
}

fn fixed_shapes<'a>() -> Vec<Vec<Shape<'a>>> {
    let four = || vec![("SayHello", false, false), ("Watch", false, true), ("M", true, false), ("Do2", true, true)];
    let k4 = || vec![("L:Req", "L:Resp"), ("L:HelloRequest", "N:Outer.Inner"), ("O:Shared", "L:Resp"), ("W:Empty", "X:Thing")];
    let one = |m: &'a str| vec![(m, false, false)];
    let k1 = || vec![("L:Req", "L:Resp")];
    vec![
        // the same service name in two packages (and in none)
        vec![(0, "a", "Greeter", four(), k4()), (1, "pkg", "Greeter", one("SayHello"), k1())],
        vec![(0, "", "Greeter", one("SayHello"), k1()), (1, "a", "Greeter", four(), k4())],
        vec![(0, "a", "Greeter", one("M"), k1()), (1, "a.b", "Greeter", one("Check"), vec![("L:Type", "W:Timestamp")]), (2, "b", "Greeter", one("Watch"), k1())],
        // two services in one file
        vec![(0, "a", "Greeter", four(), k4()), (0, "a", "Health", vec![("Check", false, false), ("Watch", false, true)], vec![("L:Req", "L:Resp"), ("L:Req", "L:Resp")])],
        // one package spread over two files
        vec![(0, "a.b", "S", one("M"), k1()), (1, "a.b", "Svc", four(), k4())],
        // identifier shapes
        vec![(0, "my_pkg.v1", "My_Service", one("snake_case"), k1()), (0, "my_pkg.v1", "greeter", one("unaryCall"), k1()), (1, "x1.y2.z3", "My_Service", one("Self"), vec![("L:Self", "L:Type")])],
        vec![(0, "type.v1", "KV", vec![("GET", false, false), ("Crate", true, true)], vec![("L:Req", "O:Self"), ("N:Type.Inner", "L:Resp")]), (1, "async", "HTTPProxy", vec![("HTTPGet", false, true), ("Async", true, false)], vec![("L:Req", "L:Resp"), ("W:Any", "L:Req")])],
        // one service (the knobs and the entry points alone)
        vec![(0, "helloworld", "Greeter", four(), k4())],
        vec![(0, "", "S", vec![("M", false, false), ("Watch", false, true), ("Do2", true, true)], vec![("L:Req", "L:Resp"), ("W:Empty", "W:Empty"), ("X:Outer.Deep", "L:Req")])],
    ]
}

fn vias(with_free: bool) -> Vec<&'static str> {
    let mut v = vec!["fds", "fdscfg", "sgen", "skip"];
    if have_protoc() {
        v.push("protos");
        v.push("protoscfg");
    }
    if with_free {
        v.push("free");
        if have_protoc() {
            v.push("freep");
        }
    }
    v
}

fn gen_tail(rng: &mut Rng, o: &GenOpts, pkg: &str, name: &str, ident: &str, ms: &[(usize, bool, bool)]) -> String {
    gen_line(rng, o, pkg, name, ident, ms).strip_prefix("gen ").unwrap().to_string()
}

pub(super) fn generate_x(tier: &str, rng: &mut Rng) -> Vec<String> {
    let thorough = tier == "thorough";
    let mut out = Vec::new();
    // every method with a codec of its own (seed C11i)
    for (pkg, name, kinds) in [("a", "S", "00"), ("a-b", "Svc", "0123"), ("-", "S", "3210"), ("pk", "E", "1"), ("a", "Mixed", "020131")] {
        out.push(format!("gcod {} {} {}", pkg, name, kinds));
    }
    let dflt = ProstOpts { emit: true, arc: false, stubs: false, sides: "both", wkt: false, ppath: "super", ext: "-" };
    let gd = GenOpts { emit: true, arc: false, stubs: false, transport: true, sides: "both", wkt: false, ppath: "super" };
    let shapes = fixed_shapes();

    // ---- cmt: the committed files
    for (w, _, _) in cmt_sources() {
        out.push(cmt_line(w).expect("committed descriptor set"));
    }

    // ---- px: every fixed shape × every entry point × emit × sides (options rotate)
    for (si, shape) in shapes.iter().enumerate() {
        for (vi, via) in vias(true).into_iter().enumerate() {
            let free = via == "free" || via == "freep";
            if via == "freep" && shape.iter().any(|s| s.0 != shape[0].0) {
                continue;
            }
            let via = if (via == "protos" || via == "protoscfg" || via == "freep") && shape_conflict(shape) { "fds" } else { via };
            for emit in [true, false] {
                for sides in SIDES {
                    if free && (!emit || sides != "both") {
                        continue;
                    }
                    let n = si + vi + emit as usize;
                    let o = if free {
                        ProstOpts { ..dflt }
                    } else {
                        ProstOpts { emit, arc: n % 2 == 0, stubs: n % 3 == 0, sides, wkt: n % 2 == 1, ppath: PPATHS[n % 4], ext: EXTS[n % 3] }
                    };
                    out.push(px_line(&PxOpts { via, knobs: "-", o }, shape));
                }
            }
        }
    }
    // every knob alone and all together × shapes (entry points rotate)
    let all_knobs = KNOB_NAMES.join(",");
    let mut knob_sets: Vec<String> = KNOB_NAMES.iter().map(|s| s.to_string()).collect();
    knob_sets.push(all_knobs.clone());
    knob_sets.push("dep0,dep1,comm".into());
    knob_sets.push("comm,nocomm".into());
    let vs = vias(false);
    for (ki, ks) in knob_sets.iter().enumerate() {
        for (si, shape) in shapes.iter().enumerate() {
            if !thorough && (si + ki) % 3 != 0 {
                continue;
            }
            let via = vs[(ki + si) % vs.len()];
            let via = if (via == "protos" || via == "protoscfg") && shape_conflict(shape) { "fds" } else { via };
            for sides in SIDES {
                let n = ki + si;
                let o = ProstOpts { emit: n % 4 != 1, arc: n % 2 == 1, stubs: n % 3 == 1, sides, wkt: n % 2 == 0, ppath: PPATHS[n % 4], ext: EXTS[(n + 1) % 3] };
                out.push(px_line(&PxOpts { via, knobs: ks, o }, shape));
            }
        }
    }
    // the free functions with the knobs that live in the descriptor
    for ks in ["dep0", "dep1", "comm", "dep0,dep1,comm"] {
        for via in ["free", "freep"] {
            if via == "freep" && !have_protoc() {
                continue;
            }
            out.push(px_line(&PxOpts { via, knobs: ks, o: ProstOpts { ..dflt } }, &shapes[3]));
        }
    }
    // random sets
    let nrand = if thorough { 6000 } else { 160 };
    for _ in 0..nrand {
        let k = 1 + rng.below(4) as usize;
        let mut shape: Vec<Shape> = Vec::new();
        let mut file = 0usize;
        let mut pkg = *rng.pick(&X_PACKAGES);
        for i in 0..k {
            if i > 0 {
                match rng.below(3) {
                    0 => {}
                    1 => file += 1,
                    _ => {
                        file += 1;
                        pkg = *rng.pick(&X_PACKAGES);
                    }
                }
            }
            let name = if i > 0 && rng.chance(1, 3) { shape[0].2 } else { *rng.pick(&X_SVCS) };
            let n = match rng.below(6) {
                0 => 0,
                1 | 2 => 1,
                _ => 2 + rng.below(5) as usize,
            };
            let (ms, kinds) = rand_methods(rng, n);
            shape.push((file, pkg, name, ms, kinds));
        }
        // (a later service may have gone back to an earlier package in a new file: fine; but the
        // same (package, service) twice is not a descriptor set)
        let dup = shape.iter().enumerate().any(|(i, a)| shape[..i].iter().any(|b| a.1 == b.1 && a.2.to_lowercase().replace('_', "") == b.2.to_lowercase().replace('_', "")));
        if dup {
            continue;
        }
        let vs = vias(false);
        let mut via = *rng.pick(&vs);
        if (via == "protos" || via == "protoscfg") && (shape_conflict(&shape) || (!thorough && rng.chance(1, 2))) {
            via = "fds";
        }
        let mut ks: Vec<&str> = KNOB_NAMES.iter().copied().filter(|_| rng.chance(1, 5)).collect();
        if rng.chance(1, 3) {
            ks.clear();
        }
        let knobs = if ks.is_empty() { "-".to_string() } else { ks.join(",") };
        let sides = if rng.chance(1, 2) { "both" } else { *rng.pick(&SIDES) };
        let o = ProstOpts { emit: rng.chance(3, 4), arc: rng.chance(1, 3), stubs: rng.chance(1, 3), sides, wkt: rng.chance(1, 2), ppath: *rng.pick(&PPATHS), ext: *rng.pick(&EXTS) };
        out.push(px_line(&PxOpts { via, knobs: &knobs, o }, &shape));
    }

    // ---- gx: CodeGenBuilder with the descriptor-borne knobs
    let gx_knobs = ["dep0", "dep1", "comm", "nocomm", "attrs", "codec", "dep0,dep1,comm,nocomm,attrs,codec", "comm,nocomm"];
    for (ki, ks) in gx_knobs.iter().enumerate() {
        for pkg in ["", "a.b", "pkg"] {
            for emit in [true, false] {
                for sides in SIDES {
                    let ms: Vec<(usize, bool, bool)> = vec![(0, false, false), (4, false, true), (1, true, false), (14, true, true), (12, false, false)];
                    let o = GenOpts { emit, arc: ki % 2 == 0, stubs: ki % 3 == 0, transport: ki % 2 == 1, sides, wkt: ki % 2 == 0, ppath: PPATHS[ki % 4] };
                    out.push(format!("gx {} {}", ks, gen_tail(rng, &o, pkg, "RustName", "ProtoName", &ms)));
                }
            }
        }
    }
    let ngx = if thorough { 4000 } else { 100 };
    for _ in 0..ngx {
        let n = rng.below(7) as usize;
        let ms: Vec<(usize, bool, bool)> = pick_methods(rng, n).into_iter().map(|k| (k, rng.chance(1, 2), rng.chance(1, 2))).collect();
        let ks: Vec<&str> = KNOB_NAMES[..6].iter().copied().filter(|_| rng.chance(1, 3)).collect();
        let knobs = if ks.is_empty() { "-".to_string() } else { ks.join(",") };
        let name = *rng.pick(&SVC_NAMES);
        let o = GenOpts { emit: rng.chance(3, 4), arc: rng.chance(1, 3), stubs: rng.chance(1, 3), transport: rng.chance(1, 2), sides: *rng.pick(&SIDES), wkt: rng.chance(1, 2), ppath: *rng.pick(&PPATHS) };
        let (gpkg, gident) = (*rng.pick(&PACKAGES), *rng.pick(&SVC_NAMES));
        out.push(format!("gx {} {}", knobs, gen_tail(rng, &o, gpkg, name, gident, &ms)));
    }

    // ---- gseq: one CodeGenBuilder, several generations
    let step = |rng: &mut Rng, o: &GenOpts, pkg: &str, name: &str, ident: &str, ms: &[(usize, bool, bool)], order: &str| -> String {
        let tail = gen_tail(rng, o, pkg, name, ident, ms);
        format!("{} {} {}", tail.split(' ').count(), order, tail)
    };
    let m2: Vec<(usize, bool, bool)> = vec![(0, false, false), (4, false, true)];
    // emit_package switched off and on again; the same Rust name for services of different packages
    for first in [true, false] {
        for order in ["sc", "cs"] {
            let a = step(rng, &GenOpts { emit: first, ..gd }, "a", "Greeter", "Greeter", &m2, order);
            let b = step(rng, &GenOpts { emit: !first, ..gd }, "pkg", "Greeter", "Greeter", &m2, order);
            let c = step(rng, &GenOpts { emit: first, ..gd }, "a.b", "Greeter", "Other", &m2, order);
            let d = step(rng, &GenOpts { emit: first, wkt: true, ppath: "crate::pb", ..gd }, "", "Greeter", "Greeter", &m2, order);
            out.push(format!("gseq 4 {a} {b} {c} {d}"));
            out.push(format!("gseq 2 {a} {a}"));
            out.push(format!("gseq 3 {d} {b} {a}"));
        }
    }
    let nseq = if thorough { 4000 } else { 120 };
    for _ in 0..nseq {
        let k = 2 + rng.below(4) as usize;
        let name = *rng.pick(&SVC_NAMES);
        let mut steps = Vec::new();
        for _ in 0..k {
            let n = rng.below(5) as usize;
            let ms: Vec<(usize, bool, bool)> = pick_methods(rng, n).into_iter().map(|k| (k, rng.chance(1, 2), rng.chance(1, 2))).collect();
            let o = GenOpts { emit: rng.chance(1, 2), arc: rng.chance(1, 3), stubs: rng.chance(1, 3), transport: rng.chance(1, 2), sides: if rng.chance(1, 2) { "both" } else { *rng.pick(&SIDES) }, wkt: rng.chance(1, 2), ppath: *rng.pick(&PPATHS) };
            let nm = if rng.chance(2, 3) { name } else { *rng.pick(&SVC_NAMES) };
            let ident = if rng.chance(1, 2) { nm } else { *rng.pick(&SVC_NAMES) };
            let order = if rng.chance(1, 2) { "sc" } else { "cs" };
            let spkg = *rng.pick(&PACKAGES);
            steps.push(step(rng, &o, spkg, nm, ident, &ms, order));
        }
        out.push(format!("gseq {} {}", k, steps.join(" ")));
    }

    // ---- mx: manual::Builder::compile(&[several])
    let mblock = |rng: &mut Rng, pkg: &str, name: &str, ms: &[(usize, bool, bool)]| -> String {
        let l = manual_line(rng, true, "both", pkg, name, ms);
        l.split(' ').skip(3).collect::<Vec<_>>().join(" ")
    };
    let m4: Vec<(usize, bool, bool)> = vec![(0, false, false), (4, false, true), (1, true, false), (14, true, true)];
    for sides in SIDES {
        let a = mblock(rng, "a", "Greeter", &m4);
        let b = mblock(rng, "pkg", "Greeter", &m2);
        let c = mblock(rng, "", "Greeter", &m2);
        let d = mblock(rng, "a", "Health", &m4);
        out.push(format!("mx 1 {sides} 4 {a} {b} {c} {d}"));
        out.push(format!("mx 0 {sides} 2 {c} {a}"));
        out.push(format!("mx 1 {sides} 1 {d}"));
    }
    let nmx = if thorough { 2000 } else { 60 };
    for _ in 0..nmx {
        let k = 1 + rng.below(4) as usize;
        let mut blocks = Vec::new();
        let mut seen: Vec<(&str, &str)> = Vec::new();
        for _ in 0..k {
            let (pkg, name) = (*rng.pick(&PACKAGES), *rng.pick(&SVC_NAMES));
            if seen.contains(&(pkg, name)) {
                continue;
            }
            seen.push((pkg, name));
            let n = rng.below(6) as usize;
            let ms: Vec<(usize, bool, bool)> = pick_methods(rng, n).into_iter().map(|k| (k, rng.chance(1, 2), rng.chance(1, 2))).collect();
            blocks.push(mblock(rng, pkg, name, &ms));
        }
        out.push(format!("mx {} {} {} {}", fl(rng.chance(1, 2)), *rng.pick(&SIDES), blocks.len(), blocks.join(" ")));
    }
    // ---- cseq: compiled generated clients, constructors × call histories
    let n = POOL.len();
    let all: Vec<usize> = (0..n).collect();
    for i in 0..n {
        let nm = POOL[i].2.len();
        let every: Vec<usize> = (0..nm).chain((0..nm).rev()).collect();
        for (ci, ctor) in CTORS.iter().enumerate() {
            let mode = MODES[(i + ci) % MODES.len()];
            out.push(cseq_line(ctor, mode, Wrap::ALL[(i + ci) % 4], &all, i, &every));
        }
        for mode in MODES {
            out.push(cseq_line("new", mode, Wrap::Probe, &[i], i, &every));
        }
    }
    let ncs = if thorough { 6000 } else { 150 };
    for _ in 0..ncs {
        let k = 1 + rng.below(n as u64) as usize;
        let mut order = all.clone();
        for x in (1..order.len()).rev() {
            let y = rng.below(x as u64 + 1) as usize;
            order.swap(x, y);
        }
        order.truncate(k);
        let i = if rng.chance(5, 6) { *rng.pick(&order) } else { rng.below(n as u64) as usize };
        let nc = 1 + rng.below(8) as usize;
        let js: Vec<usize> = (0..nc).map(|_| rng.below(POOL[i].2.len() as u64) as usize).collect();
        out.push(cseq_line(*rng.pick(&CTORS), *rng.pick(&MODES), *rng.pick(&Wrap::ALL), &order, i, &js));
    }
    out
}

/// `gcod <pkg> <svc> <kinds>`: one service whose methods each name their OWN codec (`Method::codec_path`: protobuf
/// for one rpc, JSON for another - seed C11i: the server generator memoising the first method's codec for all).  Both
/// sides are generated by `CodeGenBuilder`; for every method the codec the SERVER's dispatch arm constructs and the
/// codec the CLIENT's method constructs are read off the emitted tokens (the `let codec = <path>::default()` nearest
/// to the method's path literal).  `<kinds>`: one digit per method (0 unary, 1 server-streaming, 2 client-streaming,
/// 3 bidi).  Observed: `server:<i0,i1,…> client:<i0,i1,…>` - the index of the codec each side uses for method j.
fn run_gcod(t: &[&str]) -> String {
    if t.len() != 4 {
        return "bad-case".into();
    }
    let (pkg, name, kinds) = (undash(t[1]), t[2], t[3]);
    if kinds.is_empty() || kinds.len() > 9 || !kinds.bytes().all(|b| (b'0'..=b'3').contains(&b)) {
        return "bad-case".into();
    }
    let methods: Vec<XM> = kinds
        .bytes()
        .enumerate()
        .map(|(j, k)| XM {
            base: MDesc { name: format!("m{j}"), ident: format!("M{j}"), cs: k == b'2' || k == b'3', ss: k == b'1' || k == b'3', input: "F:crate::In".into(), output: "F:crate::Out".into() },
            dep: false,
            comments: vec![],
            codec: format!("crate::codec::C{j}"),
        })
        .collect();
    let svc = XS { name: name.to_string(), package: pkg.clone(), ident: name.to_string(), methods, comments: vec![] };
    let b = tonic_build::CodeGenBuilder::new();
    let server = b.generate_server(&svc, "super").to_string();
    let client = b.generate_client(&svc, "super").to_string();
    let full = if pkg.is_empty() { name.to_string() } else { format!("{pkg}.{name}") };
    // `crate :: codec :: C<j>` as the token printer spells it
    let codec_at = |text: &str, at: usize, backwards: bool| -> String {
        let pat = "crate :: codec :: C";
        let pos = if backwards { text[..at].rfind(pat) } else { text[at..].find(pat).map(|p| p + at) };
        match pos {
            Some(p) => text[p + pat.len()..].chars().take_while(|c| c.is_ascii_digit()).collect(),
            None => "?".into(),
        }
    };
    let mut srv = Vec::new();
    let mut cli = Vec::new();
    for j in 0..kinds.len() {
        let lit = format!("\"/{full}/M{j}\"");
        // server: the arm `"/pkg.Svc/Mj" => { … let codec = …` - the codec FOLLOWS the literal;
        // client: `let codec = …; let path = PathAndQuery::from_static("/pkg.Svc/Mj")` - it PRECEDES it
        srv.push(match server.find(&lit) { Some(at) => codec_at(&server, at, false), None => "-".into() });
        cli.push(match client.find(&lit) { Some(at) => codec_at(&client, at, true), None => "-".into() });
    }
    format!("server:{} client:{}", srv.join(","), cli.join(","))
}

pub(super) fn execute_x(t: &[&str]) -> Option<String> {
    Some(match t[0] {
        "gcod" => run_gcod(t),
        "px" => run_px(t),
        "gx" => run_gx(t),
        "gseq" => run_gseq(t),
        "mx" => run_mx(t),
        "cmt" => run_cmt(t),
        "cseq" => run_cseq(t),
        _ => return None,
    })
}
