//! C14 — stub: property not yet claimed.
use crate::common::*;

pub fn generate(_tier: &str, _rng: &mut Rng) -> Vec<String> {
    Vec::new()
}

pub fn execute(_case: &str) -> String {
    "unclaimed".into()
}
