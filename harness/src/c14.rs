//! C14 — a channel always answers and recovers when the peer comes back.
//!
//! Three case kinds, all driving the real tonic code:
//!
//! * `unit <L|E> <env> <ops>` — the crate-private `Reconnect` state machine (through the
//!   `verif-hooks` wrapper) with a scripted `MakeService` / connect future / inner service.
//!   `env` is the flat list of answers the environment gives to successive queries
//!   (`o` = Ready(Ok), `e` = Ready(Err), `p` = Pending; exhausted = Pending forever); `ops` is an
//!   arbitrary sequence of `r` (one `poll_ready`) and `c` (one `call`, response future polled
//!   once).  After every op the private state is read back.
//! * `sess <L|E> <env> <n>` — the same scripted environment, but driven the way `Channel` drives
//!   it: `ready_oneshot` for an eager channel, then a real `tower::buffer::Buffer` worker, then
//!   `n` sequential calls.
//! * `e2e <L|E> <outcomes> <ops>` — `Endpoint::connect_with_connector[_lazy]` with a scripted
//!   connector (`F`/`S` = attempt fails / succeeds, lower case = after a delay) that hands out
//!   `tokio::io::duplex` streams whose far end is a real `tonic::transport::Server` connection,
//!   reached through a cable task the script can cut (`d`); `c` = one unary call through
//!   `tonic::client::Grpc`.  Virtual time; every op is followed by a quiescence sleep.
//! * `net <tcp|uds> <L|E> <script>` — the standard entry points `Endpoint::connect()` (`E`) /
//!   `connect_lazy()` (`L`) against a real socket: a loopback TCP port (tonic's `HttpConnector`
//!   path) or a unix socket (`unix:` endpoint, tonic's `UdsConnector`).  Script letters: `u` a
//!   server starts listening (a new generation), `k` it goes away (listener closed, connections
//!   dropped; `x`: and the socket file is unlinked), `b` the channel is built (exactly once,
//!   before any call), `c` one unary call.  Real time; a closed TCP port is kept reserved by a
//!   bound, non-listening socket so that nothing else can take it.
//!   Further e2e ops: `z`/`n`/`s`/`l` a call with `Request::set_timeout` of 0 / 1 ns / 20 ms / 1 h,
//!   `i`/`j` a unary / server-streaming call that is in flight when the script cuts the cable,
//!   `p` two callers at the same moment.  `e2d <L|E> <opts> <outcomes> <ops>` is `e2e` on an
//!   Endpoint with options: `z`/`n`/`s`/`l` = `Endpoint::timeout`, `q` = `concurrency_limit(1)`,
//!   `r` = `rate_limit(1, 80 ms)`.
//! * `bal list <endpoints> <script>` / `bal chan - <script>` — `Channel::balance_list` (built at `b`) /
//!   `Channel::balance_channel` (`i<k>` / `r<k>` = `Change::Insert` / `Change::Remove`) over up to three real
//!   loopback TCP endpoints; `u<k>` / `k<k>` = endpoint k's server starts (a new generation) / goes away
//!   (listener closed, connections dropped, the port kept by a bound non-listening socket), `c` = one unary
//!   call.  Observed per call: `c:resp<k>.<gen>` (every test server tags its answers), `c:err<code>` (the
//!   failure of a connection attempt: tonic's ConnectError is in the chain), `c:lost` (any other error),
//!   `c:hang` (no result within 2.5 s of real time; ends the observation).
//! * `cls <chain>` — `Status::from_error` on an error whose `source()` chain is built from the
//!   tokens (`W<id>` user error type, `I.<Kind>` io::Error, `C` tonic::ConnectError, `S<code>`
//!   Status, `T` TimeoutExpired, `H2.<reason>` h2::Error, `L` a rustls error, `Yh` the error of a
//!   real hyper HTTP/2 handshake on a closed transport), joined by `>` outermost first.  Observed:
//!   the code, and the chain as an independent `downcast_ref` walk sees it.
//! * `e2x <L|E> <t|n> <cause>` — `Endpoint::connect_with_connector[_lazy]` (with / without a
//!   connect timeout) whose connector fails every attempt with the error `<cause>`; two calls
//!   (lazy) or the build (eager); observed: code, attempts, and the walk of the error the caller got.
//! * added by the dimension audit (details in `c14_x.rs`): `e2c` (`Channel::new` / `Channel::connect`
//!   called directly), `e2d` options `y k o x w b` and the ops `h` (peer goes silent, with `k`) and `a`
//!   (abandoned call), `net` with the other `Endpoint` constructors.
use crate::common::*;
use std::collections::VecDeque;
use std::future::Future;
use std::pin::Pin;
use std::sync::{Arc, Mutex};
use std::task::{Context, Poll, Wake, Waker};
use std::time::Duration;
use tonic::transport::verif_hooks::ReconnectHook;
use tower::{Service, ServiceExt};

#[path = "c14_x.rs"]
mod c14_x;

// ------------------------------------------------------------------------------------------
// generator
// ------------------------------------------------------------------------------------------

fn all_strings(alpha: &[char], len: usize) -> Vec<String> {
    let mut out = vec![String::new()];
    for _ in 0..len {
        let mut next = Vec::with_capacity(out.len() * alpha.len());
        for s in &out {
            for a in alpha {
                let mut t = s.clone();
                t.push(*a);
                next.push(t);
            }
        }
        out = next;
    }
    out
}

fn all_strings_upto(alpha: &[char], max: usize) -> Vec<String> {
    (0..=max).flat_map(|n| all_strings(alpha, n)).collect()
}

fn tok(s: &str) -> String {
    if s.is_empty() {
        "-".into()
    } else {
        s.into()
    }
}

fn rand_string(rng: &mut Rng, alpha: &[(char, u64)], len: usize) -> String {
    let total: u64 = alpha.iter().map(|a| a.1).sum();
    (0..len)
        .map(|_| {
            let mut x = rng.below(total);
            for (c, w) in alpha {
                if x < *w {
                    return *c;
                }
                x -= *w;
            }
            alpha[0].0
        })
        .collect()
}

pub fn generate(tier: &str, rng: &mut Rng) -> Vec<String> {
    let thorough = tier == "thorough";
    let mut out: Vec<String> = Vec::new();
    let modes = ["L", "E"];

    // ---- corpus: the paths the property text names, and the corners found while modelling ----
    for c in [
        // error stored while lazy, consumed by exactly one call, then recovery
        "unit L oe rcrrc",
        "unit L oeooo rcrc",
        // eager initial failure leaves the finished connect future in `Connecting`
        "unit E oe r",
        "unit E oe rr",
        "unit E oeo rrc",
        // reconnect after inner poll_ready error; error of the reconnect goes to one call only
        "unit E oooeoe rcrcrc",
        "unit E oooeooo rcrc",
        "unit L ooeoeoeooo rcrcrc",
        // call without readiness: the panic branch
        "unit L - c",
        "unit L o rc",
        "unit L oop rrc",
        // MakeService::poll_ready fails
        "unit L e r",
        "unit E ooeee rr",
        // pending everywhere
        "unit L popopo rrrc",
        "unit E pppp rrrr",
        "sess L oeooo 3",
        "sess E oe 2",
        "sess E oooeoeooo 4",
        "sess L e 2",
        "sess E ooeee 3",
        "sess L oopp 2",
        "e2e L FS cc",
        "e2e E F c",
        "e2e E SFS cdcc",
        "e2e L SSS cdcdc",
        "e2e L FFFS cccc",
        "e2e E SFFS cdccc",
        "e2e L sfS cdcc",
        "e2e E Sfs dcc",
        "e2e L S ddcdd",
        // witnesses of the connect-error classification defect (handshake failure / connect
        // timeout used to surface as UNKNOWN): kept so that a regression is reported
        "e2e L XS cc",
        "e2e E X c",
        "e2e L TS cc",
        "e2e E T c",
        "e2e E STS dcc",
        "e2e L SXS cdcc",
        "e2e E SXTFS dcccc",
        "e2e E SS cgc",
        "e2e L SFS cgccgc",
        "e2n L XS cc",
        "e2n E X c",
        "e2n E SFXS dccc",
        // calls that carry a deadline. A zero effective deadline on the call whose poll_ready
        // ran a failing attempt: that call takes the parked connect error, the next one makes a
        // fresh attempt (seed C14c: a fail-fast check in GrpcTimeout left the error parked)
        "e2e L FS zc",
        "e2e L FS zcc",
        "e2e E SFS dzcc",
        "e2e L FFS zzc",
        "e2e L S zc",
        "e2e E SS zdzc",
        "e2e L S ncslc",
        "e2n L FS zc",
        "e2d L z FS cc",
        "e2d E z SFS cdcc",
        "e2d L z S ccc",
        "e2d L n FS cc",
        "e2d E s SFS cdcc",
        "e2d L l FXTS zczc",
        // the peer drops the connection while a call is in flight (unary: request delivered, no
        // response yet; server-streaming: in the middle of the response body): the call ends
        // with an error of its own, the next call reconnects, nothing is replayed
        "e2e L SS icc",
        "e2e L SS jcc",
        "e2e E SS icc",
        "e2e E SFS icc",
        "e2e E SFS jcc",
        "e2e L FS icc",
        "e2e L SSS ijc",
        "e2e L SSSS ijij",
        "e2n E SXS icc",
        "e2d L s SS icc",
        // two callers at the same moment: the channel queues them; the first gets the failure of
        // the attempt it triggered, the second triggers its own attempt
        "e2e L FS p",
        "e2e L FF pc",
        "e2e L S pp",
        "e2e L fS pc",
        "e2e E SFS dpc",
        "e2e E SFFS dpp",
        "e2e L XS p",
        "e2n L FS p",
        // Endpoint::concurrency_limit(1) / rate_limit: a failed attempt, a call dying in flight or
        // two callers at once must not leave the permit taken (the channel would be wedged)
        "e2d L q FS cc",
        "e2d L q FFS ccc",
        "e2d L q FS pc",
        "e2d L q SS ipc",
        "e2d L q SFS cdpp",
        "e2d E q SS jpc",
        "e2d E q F c",
        "e2d L r FS pcp",
        "e2d L qr SFS cdccp",
        "e2d L qs FS zcp",
    ] {
        out.push(c.to_string());
    }

    // ---- long histories: counters must not matter (mutant: give up after 10 consecutive
    // failures). k failed attempts in a row, then the peer is back; fail/die alternation ----
    let longs: &[usize] = if thorough { &[11, 12, 40, 200, 1000] } else { &[12, 40, 200] };
    for &k in longs {
        for m in modes {
            // unit: every failed attempt is `o` (connector ready) `e` (attempt fails); lazy:
            // each failure is parked and handed to one call; eager: the first one fails the build
            let env = format!("{}ooo", "oe".repeat(k));
            let ops = "rc".repeat(k + 2);
            out.push(format!("unit {} {} {}", m, env, ops));
            out.push(format!("sess {} {} {}", m, env, k + 2));
            // an established connection first, then k failed reconnects, then the peer is back
            let env = format!("ooo{}{}ooo", "e", "oe".repeat(k));
            out.push(format!("unit {} {} {}", m, env, "rc".repeat(k + 3)));
            out.push(format!("sess {} {} {}", m, env, k + 3));
            if k <= 200 {
                // e2e: k refused attempts, then served
                let head = if m == "E" { "S" } else { "" };
                let drop = if m == "E" { "d" } else { "" };
                out.push(format!("e2e {} {}{}S {}{}", m, head, "F".repeat(k), drop, "c".repeat(k + 2)));
                out.push(format!("e2n {} {}{}S {}{}", m, head, "F".repeat(k), drop, "c".repeat(k + 2)));
                // every kind of failure, delayed ones included
                let mix: String = "FXTfxt".chars().cycle().take(k).collect();
                out.push(format!("e2e {} {}{}S {}{}", m, head, mix, drop, "c".repeat(k + 2)));
            }
        }
    }
    // alternating fail/die: connect, serve, die, failed reconnect, connect, … for n rounds
    let rounds: &[usize] = if thorough { &[12, 100, 300] } else { &[12, 100] };
    for &n in rounds {
        for m in modes {
            let outs = "SF".repeat(n);
            let ops = format!("c{}", "dcc".repeat(n));
            out.push(format!("e2e {} {}S {}", m, outs, ops));
            out.push(format!("e2n {} {}S {}", m, outs, ops));
            // the same at the state-machine level: ooo (connect+ready) then per round: e (dead)
            // o e (reconnect fails) / o o o (reconnect works)
            let env = format!("ooo{}", "eoeooo".repeat(n));
            out.push(format!("unit {} {} {}", m, env, "rc".repeat(2 * n + 1)));
            out.push(format!("sess {} {} {}", m, env, 2 * n + 1));
            // in-flight deaths in a row
            if n <= 100 {
                out.push(format!("e2d {} q {} {}", m, "SF".repeat(n) + "S", "ic".repeat(n) + "c"));
                out.push(format!("e2d {} q {} {}", m, "F".repeat(n) + "S", "p".repeat(n / 2 + 1) + "c"));
                out.push(format!("e2e {} {} {}", m, "S".repeat(n + 2), "i".repeat(n) + "c"));
                out.push(format!("e2e {} {} {}", m, "SF".repeat(n) + "S", "ic".repeat(n) + "c"));
            }
        }
    }

    // ---- unit: exhaustive small scope ----
    // every env over {o,e,p} up to a bound × the disciplined op pattern (poll until not pending,
    // call after each Ready) is covered by `sess`; here ops are arbitrary.
    let (env_max, ops_max) = if thorough { (6, 6) } else { (5, 5) };
    let envs = all_strings_upto(&['o', 'e', 'p'], env_max);
    let opss = all_strings_upto(&['r', 'c'], ops_max);
    for m in modes {
        for env in &envs {
            for ops in &opss {
                if ops.is_empty() {
                    continue;
                }
                // keep the product affordable: long envs only with op strings that can consume them
                if env.len() + 1 < ops.matches('r').count() && env.len() + 2 < ops.len() {
                    continue;
                }
                out.push(format!("unit {} {} {}", m, tok(env), ops));
            }
        }
    }
    // ---- unit: random long scripts (biased to `o`, with bursts of errors) ----
    let n = if thorough { 30000 } else { 4000 };
    for _ in 0..n {
        let m = *rng.pick(&modes);
        let len = rng.range(0, 24) as usize;
        let env = match rng.below(3) {
            0 => rand_string(rng, &[('o', 6), ('e', 3), ('p', 2)], len),
            1 => rand_string(rng, &[('o', 3), ('e', 3), ('p', 1)], len),
            _ => rand_string(rng, &[('o', 8), ('e', 1), ('p', 4)], len),
        };
        let olen = rng.range(1, 16) as usize;
        let ops = match rng.below(3) {
            // mostly disciplined: r…rc
            0 => {
                let mut s = String::new();
                while s.len() < olen {
                    for _ in 0..rng.range(1, 3) {
                        s.push('r');
                    }
                    s.push('c');
                }
                s
            }
            1 => rand_string(rng, &[('r', 3), ('c', 1)], olen),
            _ => rand_string(rng, &[('r', 1), ('c', 1)], olen),
        };
        out.push(format!("unit {} {} {}", m, tok(&env), ops));
    }

    // ---- sess: exhaustive small scope + random ----
    let env_max = if thorough { 9 } else { 7 };
    for m in modes {
        for env in all_strings_upto(&['o', 'e', 'p'], env_max) {
            // enough calls to consume the whole script
            let calls = (env.len() / 2 + 1).min(5);
            out.push(format!("sess {} {} {}", m, tok(&env), calls));
        }
    }
    let n = if thorough { 20000 } else { 2000 };
    for _ in 0..n {
        let m = *rng.pick(&modes);
        let len = rng.range(4, 40) as usize;
        let env = match rng.below(3) {
            0 => rand_string(rng, &[('o', 6), ('e', 3), ('p', 2)], len),
            1 => rand_string(rng, &[('o', 3), ('e', 2), ('p', 0)], len),
            _ => rand_string(rng, &[('o', 10), ('e', 1), ('p', 6)], len),
        };
        out.push(format!("sess {} {} {}", m, tok(&env), rng.range(1, 12)));
    }

    // ---- e2e: every fault script up to the bound ----
    // ops over {c,d} up to length n; connector outcomes over {F,S}, one per possible attempt
    // (at most #calls + 1 attempts can happen), so no script ever runs past its outcome list.
    let ops_max = if thorough { 9 } else { 7 };
    for m in modes {
        for ops in all_strings_upto(&['c', 'd'], ops_max) {
            let calls = ops.matches('c').count();
            let attempts = calls + if m == "E" { 1 } else { 0 };
            for outs in all_strings(&['F', 'S'], attempts) {
                out.push(format!("e2e {} {} {}", m, tok(&outs), tok(&ops)));
            }
        }
    }
    // the same with all four ways an attempt can end (refused, served, peer gone before the
    // HTTP/2 handshake, connect timeout), smaller bound
    let ops_max = if thorough { 6 } else { 4 };
    for m in modes {
        for ops in all_strings_upto(&['c', 'd'], ops_max) {
            let calls = ops.matches('c').count();
            let attempts = calls + if m == "E" { 1 } else { 0 };
            for outs in all_strings(&['F', 'S', 'X', 'T'], attempts) {
                if outs.contains('X') || outs.contains('T') {
                    out.push(format!("e2e {} {} {}", m, tok(&outs), tok(&ops)));
                }
                // the same script with every attempt answering only after a delay
                if ops.len() + 1 < ops_max && !outs.is_empty() {
                    out.push(format!("e2e {} {} {}", m, outs.to_ascii_lowercase(), tok(&ops)));
                }
            }
        }
    }
    // peer drops the connection abruptly (`d`) or by a graceful shutdown (`g`)
    let ops_max = if thorough { 7 } else { 5 };
    for m in modes {
        for ops in all_strings_upto(&['c', 'd', 'g'], ops_max) {
            if !ops.contains('g') {
                continue;
            }
            let calls = ops.matches('c').count();
            let attempts = calls + if m == "E" { 1 } else { 0 };
            // all-succeed, all-fail-after-first and alternating outcome lists
            let all_s: String = "S".repeat(attempts);
            let alt: String = (0..attempts).map(|i| if i % 2 == 0 { 'S' } else { 'F' }).collect();
            let first: String = (0..attempts).map(|i| if i == 0 { 'S' } else { 'F' }).collect();
            for outs in [all_s, alt, first] {
                out.push(format!("e2e {} {} {}", m, tok(&outs), tok(&ops)));
            }
        }
    }
    // the code path without a connect timeout (no TimeoutConnector around the connector);
    // `T` (an attempt that never ends) is excluded: nothing would ever end it
    let ops_max = if thorough { 7 } else { 5 };
    for m in modes {
        for ops in all_strings_upto(&['c', 'd'], ops_max) {
            let calls = ops.matches('c').count();
            let attempts = calls + if m == "E" { 1 } else { 0 };
            let alpha: &[char] = if ops.len() <= ops_max - 1 { &['F', 'S', 'X'] } else { &['F', 'S'] };
            for outs in all_strings(alpha, attempts) {
                out.push(format!("e2n {} {} {}", m, tok(&outs), tok(&ops)));
            }
        }
    }
    // calls with deadlines and calls that die in flight, at every script position: ops over
    // {c, z, d, i} (and j, n, s, l in random scripts below) × outcomes over {F,S}
    let ops_max = if thorough { 6 } else { 5 };
    for m in modes {
        for ops in all_strings_upto(&['c', 'z', 'd', 'i'], ops_max) {
            if !(ops.contains('z') || ops.contains('i')) {
                continue;
            }
            let calls = ops.chars().filter(|c| *c != 'd').count();
            let attempts = calls + if m == "E" { 1 } else { 0 };
            if !thorough && ops.len() == ops_max && attempts > 4 {
                // keep quick affordable: longest scripts only with the three standard outcome lists
                let all_s: String = "S".repeat(attempts);
                let alt: String = (0..attempts).map(|i| if i % 2 == 0 { 'F' } else { 'S' }).collect();
                let alt2: String = (0..attempts).map(|i| if i % 2 == 0 { 'S' } else { 'F' }).collect();
                for outs in [all_s, alt, alt2] {
                    out.push(format!("e2e {} {} {}", m, tok(&outs), tok(&ops)));
                }
                continue;
            }
            for outs in all_strings(&['F', 'S'], attempts) {
                out.push(format!("e2e {} {} {}", m, tok(&outs), tok(&ops)));
            }
        }
    }
    // concurrent callers at every script position, with and without the limit layers
    let ops_max = if thorough { 5 } else { 4 };
    for m in modes {
        for ops in all_strings_upto(&['c', 'p', 'd', 'i'], ops_max) {
            if !ops.contains('p') {
                continue;
            }
            let calls: usize = ops.chars().map(|c| match c { 'p' => 2, 'd' => 0, _ => 1 }).sum();
            let attempts = calls + if m == "E" { 1 } else { 0 };
            if attempts > 6 {
                continue;
            }
            for outs in all_strings(&['F', 'S'], attempts) {
                out.push(format!("e2e {} {} {}", m, tok(&outs), tok(&ops)));
                if ops.len() < ops_max || thorough {
                    let opt = ["q", "r", "qr"][outs.len() % 3];
                    out.push(format!("e2d {} {} {} {}", m, opt, tok(&outs), tok(&ops)));
                }
            }
        }
    }
    // the limit layers under plain fault scripts
    let ops_max = if thorough { 6 } else { 4 };
    for m in modes {
        for opt in ["q", "r", "qr"] {
            for ops in all_strings_upto(&['c', 'd', 'i'], ops_max) {
                let calls = ops.chars().filter(|c| *c != 'd').count();
                if calls == 0 {
                    continue;
                }
                let attempts = calls + if m == "E" { 1 } else { 0 };
                for outs in all_strings(&['F', 'S'], attempts) {
                    out.push(format!("e2d {} {} {} {}", m, opt, tok(&outs), tok(&ops)));
                }
            }
        }
    }
    // Endpoint::timeout (channel-wide deadline) × per-call deadlines
    let ops_max = if thorough { 5 } else { 4 };
    for m in modes {
        for et in ["z", "n", "s", "l"] {
            for ops in all_strings_upto(&['c', 'z', 'd'], ops_max) {
                if ops.is_empty() {
                    continue;
                }
                let calls = ops.chars().filter(|c| *c != 'd').count();
                let attempts = calls + if m == "E" { 1 } else { 0 };
                for outs in all_strings(&['F', 'S'], attempts) {
                    out.push(format!("e2d {} {} {} {}", m, et, tok(&outs), tok(&ops)));
                }
            }
        }
    }
    let n = if thorough { 3000 } else { 300 };
    for _ in 0..n {
        let m = *rng.pick(&modes);
        let olen = rng.range(1, if thorough { 14 } else { 9 }) as usize;
        let ops = rand_string(
            rng,
            &[('c', 4), ('z', 3), ('n', 1), ('s', 1), ('l', 1), ('i', 2), ('j', 2), ('d', 2), ('g', 1), ('p', 2)],
            olen,
        );
        let alen = rng.range(0, olen as u64 + 2) as usize;
        let outs = match rng.below(2) {
            0 => rand_string(rng, &[('F', 3), ('S', 4), ('f', 1), ('s', 2)], alen),
            _ => rand_string(rng, &[('F', 2), ('S', 4), ('X', 1), ('T', 1), ('s', 1), ('x', 1)], alen),
        };
        match rng.below(3) {
            0 => out.push(format!("e2e {} {} {}", m, tok(&outs), tok(&ops))),
            1 if !(outs.contains('T') || outs.contains('t')) => out.push(format!("e2n {} {} {}", m, tok(&outs), tok(&ops))),
            _ => {
                let et = *rng.pick(&["-", "n", "s", "l", "q", "r", "qr", "ql", "rs"]);
                out.push(format!("e2d {} {} {} {}", m, et, tok(&outs), tok(&ops)));
            }
        }
    }
    // delayed outcomes (Pending paths through the real Buffer / hyper handshake), random long;
    // outcome lists may be shorter than the number of attempts (then: refused)
    let n = if thorough { 4000 } else { 300 };
    for _ in 0..n {
        let m = *rng.pick(&modes);
        let olen = rng.range(1, if thorough { 16 } else { 10 }) as usize;
        let ops = match rng.below(3) {
            0 => rand_string(rng, &[('c', 3), ('d', 1), ('g', 1)], olen),
            1 => rand_string(rng, &[('c', 2), ('d', 1), ('g', 1)], olen),
            _ => rand_string(rng, &[('c', 5), ('d', 1)], olen),
        };
        let alen = rng.range(0, olen as u64 + 1) as usize;
        let outs = match rng.below(3) {
            0 => rand_string(rng, &[('F', 3), ('S', 3), ('f', 2), ('s', 2)], alen),
            1 => rand_string(rng, &[('F', 2), ('S', 4), ('X', 1), ('T', 1), ('f', 1), ('s', 2), ('x', 1), ('t', 1)], alen),
            _ => rand_string(rng, &[('F', 4), ('S', 1), ('X', 2), ('T', 2), ('s', 1)], alen),
        };
        if outs.contains('T') || outs.contains('t') || rng.chance(1, 2) {
            out.push(format!("e2e {} {} {}", m, tok(&outs), tok(&ops)));
        } else {
            out.push(format!("e2n {} {} {}", m, tok(&outs), tok(&ops)));
        }
    }
    // ---- net: the standard entry points over real sockets ----
    // (these run in real time: they are spread over the whole case list at the end so that the
    // worker threads share them)
    for c in [
        // an eager connect to a closed port / a missing or dead unix socket fails at once
        "net tcp E bc",
        "net uds E bc",
        "net tcp E ukbc",
        "net uds E ukbc",
        "net uds E uxbc",
        // a lazy channel, server started later, stopped, started again
        "net tcp L bcuckcuc",
        "net uds L bcuckcxcuc",
        "net tcp E ubckcucc",
        "net uds E ubcxcucc",
        "net tcp L ubckuc",
        "net tcp L bcccuccckcccuc",
    ] {
        out.push(c.to_string());
    }
    let post_max = if thorough { 5 } else { 3 };
    for tr in ["tcp", "uds"] {
        let downs: &[char] = if tr == "uds" { &['k', 'x'] } else { &['k'] };
        let mut alpha = vec!['c', 'u'];
        alpha.extend_from_slice(downs);
        for m in modes {
            for pre in ["", "u", "uk", "ukuk", "uku"] {
                if !thorough && pre.len() > 2 {
                    continue;
                }
                for post in all_strings_upto(&alpha, post_max) {
                    if !post.contains('c') {
                        continue;
                    }
                    out.push(format!("net {} {} {}b{}", tr, m, pre, post));
                }
            }
        }
    }
    let n = if thorough { 600 } else { 40 };
    for _ in 0..n {
        let tr = *rng.pick(&["tcp", "uds"]);
        let m = *rng.pick(&modes);
        let pre = *rng.pick(&["", "u", "uk", "u"]);
        let len = rng.range(3, 14) as usize;
        let post = rand_string(rng, &[('c', 5), ('u', 2), ('k', 2), ('x', 1)], len);
        let post = if tr == "tcp" { post.replace('x', "k") } else { post };
        out.push(format!("net {} {} {}b{}", tr, m, pre, post));
    }

    // ---- bal: load-balanced channels (Channel::balance_list / balance_channel) over real loopback
    // TCP endpoints; real time, spread over the case list like the net cases ----
    for c in [
        // one endpoint: exactly the plain lazy channel — an error per call while nothing listens,
        // recovery at the first call after the server is there (seed C14e: a non-lazy endpoint
        // connection is dropped by tower's Balance at its first failed attempt, and every call hangs)
        "bal list 0 bc",
        "bal list 0 bccu0cc",
        "bal list 0 u0bcck0ccu0cc",
        "bal chan - i0cu0cc",
        // two and three endpoints, all down, then one / all of them up: parked failures are handed
        // out once each
        "bal list 01 bccccu0cccccc",
        "bal list 01 bccccu0u1cccccc",
        "bal list 012 bcccu0u1u2cccccc",
        // one endpoint up, the other(s) down for good: the dead one is retried and fails a call
        // now and then, but is never lost
        "bal list 01 u0bcccccccc",
        "bal list 012 u0bcccccccccc",
        "bal list 01 u0u1bcccck1cccccu1cccc",
        // an attempt accepted by a server that is gone before the connection is first used
        "bal list 01 u0bcccu1ck1cccc",
        "bal list 01 u0bcccu1cck1cccc",
        // insert / remove while the channel is in use; after the healthy endpoint is removed the
        // one that was down at first has to serve (several endpoints under seed C14e: it is gone)
        "bal chan - u0i0cci1ccccr1cc",
        "bal chan - u0u1i0i1ccccr0cccc",
        "bal chan - u0i0i1cccu1r0cc",
        "bal chan - u0i0i1ccccu1r0ccc",
        "bal chan - i0i1ccu0u1ccccr0ccr1i0cc",
        "bal chan - u0i0ccr0i0cck0cc",
        // a channel without any endpoint waits for one
        "bal chan - c",
    ] {
        out.push(c.to_string());
    }
    {
        // list mode: which servers are up when the channel is built, then a script over calls and
        // the servers of the listed endpoints starting / stopping
        let letter = |rng: &mut Rng, eps: &[usize], calls: u64| -> String {
            let x = rng.below(calls + 4);
            if x < calls {
                "c".to_string()
            } else {
                let k = eps[rng.below(eps.len() as u64) as usize];
                format!("{}{}", if x % 2 == 0 { 'u' } else { 'k' }, k)
            }
        };
        let n = if thorough { 1200 } else { 36 };
        for i in 0..n {
            let ne = 1 + (i % 3);
            let eps: Vec<usize> = (0..ne).collect();
            let mut sc = String::new();
            for k in &eps {
                if rng.chance(1, 2) {
                    sc.push_str(&format!("u{}", k));
                }
            }
            sc.push('b');
            let len = rng.range(3, if thorough { 14 } else { 10 }) as usize;
            for _ in 0..len {
                sc.push_str(&letter(rng, &eps, 6));
            }
            sc.push('c');
            let names: String = eps.iter().map(|k| k.to_string()).collect();
            out.push(format!("bal list {} {}", names, sc));
        }
        // chan mode: inserts and removes as well; a call only while the channel has an endpoint
        let n = if thorough { 1200 } else { 30 };
        for _ in 0..n {
            let mut members: Vec<usize> = Vec::new();
            let mut sc = String::new();
            let len = rng.range(4, if thorough { 16 } else { 12 }) as usize;
            for _ in 0..len {
                let x = rng.below(12);
                if x < 6 {
                    if members.is_empty() {
                        let k = rng.below(3) as usize;
                        members.push(k);
                        sc.push_str(&format!("i{}", k));
                    }
                    sc.push('c');
                } else if x < 8 {
                    let k = rng.below(3) as usize;
                    if members.contains(&k) {
                        members.retain(|m| *m != k);
                        sc.push_str(&format!("r{}", k));
                    } else {
                        members.push(k);
                        sc.push_str(&format!("i{}", k));
                    }
                } else {
                    let k = rng.below(3) as usize;
                    sc.push_str(&format!("{}{}", if x % 2 == 0 { 'u' } else { 'k' }, k));
                }
            }
            if !members.is_empty() {
                sc.push('c');
            }
            out.push(format!("bal chan - {}", sc));
        }
        if thorough {
            // small scope, exhaustively: one endpoint, every script up to 5 steps; two endpoints, up to 4
            for pre in ["", "u0"] {
                for post in all_strings_upto(&['c', 'u', 'k'], 5) {
                    if !post.contains('c') {
                        continue;
                    }
                    let sc: String = post.chars().map(|c| if c == 'c' { "c".to_string() } else { format!("{}0", c) }).collect();
                    out.push(format!("bal list 0 {}b{}", pre, sc));
                }
            }
            for pre in ["", "u0", "u1", "u0u1"] {
                for post in all_strings_upto(&['c', 'A', 'a', 'B', 'b'], 4) {
                    if !post.ends_with('c') {
                        continue;
                    }
                    let sc: String = post
                        .chars()
                        .map(|c| match c {
                            'A' => "u0",
                            'a' => "k0",
                            'B' => "u1",
                            'b' => "k1",
                            _ => "c",
                        })
                        .collect();
                    out.push(format!("bal list 01 {}b{}", pre, sc));
                }
            }
        }
    }

    // ---- cls / e2x: how the error of a failed attempt is classified, whatever caused it ----
    let mut leaves: Vec<String> = IO_KINDS.iter().map(|(n, _)| format!("I.{}", n)).collect();
    for c in 0..=16 {
        leaves.push(format!("S{}", c));
    }
    for r in 0..=14 {
        leaves.push(format!("H2.{}", r));
    }
    for l in ["T", "L", "W9", "Yh"] {
        leaves.push(l.to_string());
    }
    let wrappers = ["W1", "I.Other", "C", "I.NotFound", "I.PermissionDenied", "I.TimedOut"];
    let depth = if thorough { 3 } else { 2 };
    let mut mids: Vec<String> = vec![String::new()];
    let mut layer: Vec<String> = vec![String::new()];
    for _ in 0..depth {
        let mut next = Vec::new();
        for m in &layer {
            for w in wrappers {
                next.push(if m.is_empty() { w.to_string() } else { format!("{}>{}", m, w) });
            }
        }
        mids.extend(next.iter().cloned());
        layer = next;
    }
    for m in &mids {
        for l in &leaves {
            if l == "Yh" && m.len() > 8 {
                continue;
            }
            out.push(if m.is_empty() { format!("cls {}", l) } else { format!("cls {}>{}", m, l) });
        }
    }
    // the same causes as the error of a scripted connector, through the whole channel stack
    let e2x_mids: Vec<&String> = mids.iter().filter(|m| thorough || m.matches('>').count() == 0).collect();
    for m in modes {
        for t in ["t", "n"] {
            for mid in &e2x_mids {
                for l in &leaves {
                    // the full product only for the causes the reviewers' mutants are about
                    let io_cause = l.starts_with("I.") || mid.contains("I.");
                    if !(thorough || mid.is_empty() || io_cause && (t == "n" || l.len() % 2 == 0)) {
                        continue;
                    }
                    if l == "Yh" && !mid.is_empty() {
                        continue;
                    }
                    let cause = if mid.is_empty() { l.clone() } else { format!("{}>{}", mid, l) };
                    out.push(format!("e2x {} {} {}", m, t, cause));
                }
            }
        }
    }
    c14_x::generate_x(thorough, rng, &mut out);
    spread_real_time_cases(out)
}

/// Cases that run in real time (sockets, timers) are spread evenly over the list: the runner
/// gives every worker thread one contiguous slice.
fn spread_real_time_cases(cases: Vec<String>) -> Vec<String> {
    let (slow, fast): (Vec<String>, Vec<String>) = cases.into_iter().partition(|c| c.starts_with("net ") || c.starts_with("conc ") || c.starts_with("bal "));
    if slow.is_empty() {
        return fast;
    }
    let stride = (fast.len() / slow.len()).max(1);
    let mut out = Vec::with_capacity(fast.len() + slow.len());
    let mut slow = slow.into_iter();
    for (i, c) in fast.into_iter().enumerate() {
        if i % stride == 0 {
            if let Some(s) = slow.next() {
                out.push(s);
            }
        }
        out.push(c);
    }
    out.extend(slow);
    out
}

// ------------------------------------------------------------------------------------------
// scripted environment for `unit` / `sess`
// ------------------------------------------------------------------------------------------

#[derive(Debug)]
struct ScriptErr(usize);
impl std::fmt::Display for ScriptErr {
    fn fmt(&self, f: &mut std::fmt::Formatter<'_>) -> std::fmt::Result {
        write!(f, "scripted error {}", self.0)
    }
}
impl std::error::Error for ScriptErr {}

struct Env {
    answers: VecDeque<(usize, char)>,
    made: usize,
    /// wake the task on a scripted `p` (so that `ready().await` re-polls); never on exhaustion
    wake: bool,
}

enum A {
    Ok,
    Err(usize),
    Pending,
}

type Shared = Arc<Mutex<Env>>;

fn answer(env: &Shared, cx: &mut Context<'_>) -> A {
    let mut g = env.lock().unwrap();
    match g.answers.pop_front() {
        Some((_, 'o')) => A::Ok,
        Some((i, 'e')) => A::Err(i),
        Some((_, _)) => {
            if g.wake {
                cx.waker().wake_by_ref();
            }
            A::Pending
        }
        None => A::Pending,
    }
}

struct Mk(Shared);
struct ConnFut {
    env: Shared,
    id: usize,
    done: bool,
}
struct Inner {
    env: Shared,
    id: usize,
}

impl Service<()> for Mk {
    type Response = Inner;
    type Error = ScriptErr;
    type Future = ConnFut;
    fn poll_ready(&mut self, cx: &mut Context<'_>) -> Poll<Result<(), ScriptErr>> {
        match answer(&self.0, cx) {
            A::Ok => Poll::Ready(Ok(())),
            A::Err(i) => Poll::Ready(Err(ScriptErr(i))),
            A::Pending => Poll::Pending,
        }
    }
    fn call(&mut self, _t: ()) -> ConnFut {
        let mut g = self.0.lock().unwrap();
        g.made += 1;
        ConnFut { env: self.0.clone(), id: g.made, done: false }
    }
}

impl Future for ConnFut {
    type Output = Result<Inner, ScriptErr>;
    fn poll(mut self: Pin<&mut Self>, cx: &mut Context<'_>) -> Poll<Self::Output> {
        if self.done {
            // what the real connect future (an `async` block) does
            panic!("connect future polled after completion");
        }
        match answer(&self.env, cx) {
            A::Ok => {
                self.done = true;
                Poll::Ready(Ok(Inner { env: self.env.clone(), id: self.id }))
            }
            A::Err(i) => {
                self.done = true;
                Poll::Ready(Err(ScriptErr(i)))
            }
            A::Pending => Poll::Pending,
        }
    }
}

impl Service<u32> for Inner {
    type Response = usize;
    type Error = ScriptErr;
    type Future = std::future::Ready<Result<usize, ScriptErr>>;
    fn poll_ready(&mut self, cx: &mut Context<'_>) -> Poll<Result<(), ScriptErr>> {
        match answer(&self.env, cx) {
            A::Ok => Poll::Ready(Ok(())),
            A::Err(i) => Poll::Ready(Err(ScriptErr(i))),
            A::Pending => Poll::Pending,
        }
    }
    fn call(&mut self, _req: u32) -> Self::Future {
        std::future::ready(Ok(self.id))
    }
}

fn meta_tok(shared: &Shared) -> String {
    let g = shared.lock().unwrap();
    format!("made={} left={}", g.made, g.answers.len())
}

fn mk_env(env: &str, wake: bool) -> Shared {
    let answers: VecDeque<(usize, char)> = env.chars().filter(|c| *c != '-').enumerate().collect();
    Arc::new(Mutex::new(Env { answers, made: 0, wake }))
}

fn script_err_id(e: &(dyn std::error::Error + 'static)) -> Option<usize> {
    let mut cur: Option<&(dyn std::error::Error + 'static)> = Some(e);
    while let Some(x) = cur {
        if let Some(s) = x.downcast_ref::<ScriptErr>() {
            return Some(s.0);
        }
        cur = x.source();
    }
    None
}

struct NoopWake;
impl Wake for NoopWake {
    fn wake(self: Arc<Self>) {}
}

fn state_tok(s: (u8, bool, bool)) -> String {
    format!("s{}e{}h{}", s.0, s.1 as u8, s.2 as u8)
}

fn run_unit(lazy: bool, env: &str, ops: &str) -> String {
    let shared = mk_env(env, false);
    let mut svc: ReconnectHook<Mk, ()> = ReconnectHook::new(Mk(shared.clone()), (), lazy);
    let waker = Waker::from(Arc::new(NoopWake));
    let mut cx = Context::from_waker(&waker);
    let mut out: Vec<String> = Vec::new();
    for op in ops.chars() {
        let r = std::panic::catch_unwind(std::panic::AssertUnwindSafe(|| match op {
            'r' => match Service::<u32>::poll_ready(&mut svc, &mut cx) {
                Poll::Ready(Ok(())) => "r:ready".to_string(),
                Poll::Pending => "r:pending".to_string(),
                Poll::Ready(Err(e)) => match script_err_id(e.as_ref()) {
                    Some(i) => format!("r:fail{}", i),
                    None => "r:fail?".to_string(),
                },
            },
            _ => {
                let mut fut = Service::<u32>::call(&mut svc, 7);
                match fut.as_mut().poll(&mut cx) {
                    Poll::Ready(Ok(id)) => format!("c:sent{}", id),
                    Poll::Ready(Err(e)) => match script_err_id(e.as_ref()) {
                        Some(i) => format!("c:err{}", i),
                        None => "c:err?".to_string(),
                    },
                    Poll::Pending => "c:pending".to_string(),
                }
            }
        }));
        match r {
            Ok(t) => out.push(format!("{}:{}", t, state_tok(svc.state()))),
            Err(_) => {
                out.push(format!("{}:panic", op));
                break;
            }
        }
    }
    out.push(meta_tok(&shared));
    out.join(" ")
}

const WATCHDOG: Duration = Duration::from_secs(100_000);

fn run_sess(lazy: bool, env: &str, n: usize) -> String {
    let rt = paused_rt();
    rt.block_on(async move {
        let shared = mk_env(env, true);
        let svc: ReconnectHook<Mk, ()> = ReconnectHook::new(Mk(shared.clone()), (), lazy);
        let mut out: Vec<String> = Vec::new();
        // Channel::connect = ready_oneshot, then Buffer; Channel::new = Buffer directly
        let svc = if lazy {
            svc
        } else {
            match tokio::time::timeout(WATCHDOG, ServiceExt::<u32>::ready_oneshot(svc)).await {
                Err(_) => {
                    out.push("build:hang".into());
                    out.push(meta_tok(&shared));
                    return out.join(" ");
                }
                Ok(Err(e)) => {
                    out.push(match script_err_id(e.as_ref()) {
                        Some(i) => format!("build:fail{}", i),
                        None => "build:fail?".into(),
                    });
                    out.push(meta_tok(&shared));
                    return out.join(" ");
                }
                Ok(Ok(s)) => {
                    out.push(format!("build:ok:{}", state_tok(s.state())));
                    s
                }
            }
        };
        let (mut buf, worker) = tower::buffer::Buffer::pair(svc, 8);
        tokio::spawn(worker);
        for _ in 0..n {
            let fut = async {
                let s = buf.ready().await?;
                s.call(7u32).await
            };
            match tokio::time::timeout(WATCHDOG, fut).await {
                Err(_) => {
                    out.push("hang".into());
                    break;
                }
                Ok(Ok(id)) => out.push(format!("resp{}", id)),
                Ok(Err(e)) => {
                    let closed = e.downcast_ref::<tower::buffer::error::ServiceError>().is_some();
                    let id = script_err_id(e.as_ref()).map(|i| i.to_string()).unwrap_or("?".into());
                    out.push(format!("{}{}", if closed { "closed" } else { "err" }, id));
                }
            }
        }
        out.push(meta_tok(&shared));
        out.join(" ")
    })
}

// ------------------------------------------------------------------------------------------
// e2e: real Endpoint / Channel / hyper / tonic Server
// ------------------------------------------------------------------------------------------

mod raw {
    use bytes::{Buf, BufMut};
    use tonic::codec::{Codec, DecodeBuf, Decoder, EncodeBuf, Encoder};
    use tonic::Status;

    #[derive(Clone, Default)]
    pub struct RawCodec;
    pub struct RawEnc;
    pub struct RawDec;
    impl Codec for RawCodec {
        type Encode = Vec<u8>;
        type Decode = Vec<u8>;
        type Encoder = RawEnc;
        type Decoder = RawDec;
        fn encoder(&mut self) -> RawEnc {
            RawEnc
        }
        fn decoder(&mut self) -> RawDec {
            RawDec
        }
    }
    impl Encoder for RawEnc {
        type Item = Vec<u8>;
        type Error = Status;
        fn encode(&mut self, item: Vec<u8>, dst: &mut EncodeBuf<'_>) -> Result<(), Status> {
            dst.put_slice(&item);
            Ok(())
        }
    }
    impl Decoder for RawDec {
        type Item = Vec<u8>;
        type Error = Status;
        fn decode(&mut self, src: &mut DecodeBuf<'_>) -> Result<Option<Vec<u8>>, Status> {
            let n = src.remaining();
            let mut v = vec![0u8; n];
            src.copy_to_slice(&mut v);
            Ok(Some(v))
        }
    }
}

#[derive(Clone)]
struct WhoAmI {
    id: usize,
    /// tells the script that a `Hold` request has reached the handler of connection `id`
    arrived: tokio::sync::mpsc::UnboundedSender<usize>,
}

impl tonic::server::NamedService for WhoAmI {
    const NAME: &'static str = "verif.WhoAmI";
}

struct UnaryFn<F>(F);
impl<F, Fut> tonic::server::UnaryService<Vec<u8>> for UnaryFn<F>
where
    F: FnMut(tonic::Request<Vec<u8>>) -> Fut,
    Fut: Future<Output = Result<tonic::Response<Vec<u8>>, tonic::Status>>,
{
    type Response = Vec<u8>;
    type Future = Fut;
    fn call(&mut self, request: tonic::Request<Vec<u8>>) -> Fut {
        (self.0)(request)
    }
}

type ItemStream = Pin<Box<dyn futures_core::Stream<Item = Result<Vec<u8>, tonic::Status>> + Send>>;
struct StreamSvc {
    id: usize,
}
impl tonic::server::ServerStreamingService<Vec<u8>> for StreamSvc {
    type Response = Vec<u8>;
    type ResponseStream = ItemStream;
    type Future = Pin<Box<dyn Future<Output = Result<tonic::Response<ItemStream>, tonic::Status>> + Send>>;
    fn call(&mut self, request: tonic::Request<Vec<u8>>) -> Self::Future {
        let id = self.id;
        Box::pin(async move {
            use tokio_stream::StreamExt;
            let mut v = request.into_inner();
            v.extend_from_slice(format!("@{}", id).as_bytes());
            let st: ItemStream =
                Box::pin(tokio_stream::once(Ok::<_, tonic::Status>(v)).chain(tokio_stream::pending()));
            Ok(tonic::Response::new(st))
        })
    }
}

impl Service<http::Request<tonic::body::Body>> for WhoAmI {
    type Response = http::Response<tonic::body::Body>;
    type Error = std::convert::Infallible;
    type Future = Pin<Box<dyn Future<Output = Result<Self::Response, Self::Error>> + Send>>;
    fn poll_ready(&mut self, _cx: &mut Context<'_>) -> Poll<Result<(), Self::Error>> {
        Poll::Ready(Ok(()))
    }
    fn call(&mut self, req: http::Request<tonic::body::Body>) -> Self::Future {
        let id = self.id;
        let arrived = self.arrived.clone();
        Box::pin(async move {
            let mut grpc = tonic::server::Grpc::new(raw::RawCodec);
            let res = match req.uri().path() {
                // answers "<request>@<connection id>"
                "/verif.WhoAmI/Who" => {
                    grpc.unary(
                        UnaryFn(move |r: tonic::Request<Vec<u8>>| async move {
                            let mut v = r.into_inner();
                            v.extend_from_slice(format!("@{}", id).as_bytes());
                            Ok::<_, tonic::Status>(tonic::Response::new(v))
                        }),
                        req,
                    )
                    .await
                }
                // tells the script it has arrived and never answers
                "/verif.WhoAmI/Hold" => {
                    grpc.unary(
                        UnaryFn(move |_r: tonic::Request<Vec<u8>>| {
                            let arrived = arrived.clone();
                            async move {
                                let _ = arrived.send(id);
                                std::future::pending::<()>().await;
                                Err::<tonic::Response<Vec<u8>>, _>(tonic::Status::internal("unreachable"))
                            }
                        }),
                        req,
                    )
                    .await
                }
                // one message "<request>@<connection id>", then silence
                "/verif.WhoAmI/Stream" => {
                    grpc.server_streaming(StreamSvc { id }, req).await
                }
                _ => tonic::Status::unimplemented("no such method").into_http(),
            };
            Ok(res)
        })
    }
}

struct World {
    outcomes: VecDeque<char>,
    attempts: usize,
    /// cable tasks of connections handed out, by attempt id
    cables: Vec<(usize, tokio::task::JoinHandle<()>)>,
    /// graceful-shutdown triggers of the servers behind those connections
    shutdowns: Vec<tokio::sync::oneshot::Sender<()>>,
    /// handed to every server: `Hold` requests announce themselves here
    arrived: tokio::sync::mpsc::UnboundedSender<usize>,
    /// `h`: makes the cable of a connection stop carrying bytes while both ends stay open
    freezers: Vec<tokio::sync::oneshot::Sender<()>>,
    /// the only URI a connection can be made to (anything else is refused, as a network would)
    target: Option<http::Uri>,
    /// `A`: the next connection attempt announces itself on `started` and then waits at `gate`
    hold: bool,
    gate: Arc<tokio::sync::Notify>,
    started: tokio::sync::mpsc::UnboundedSender<()>,
}

/// `.1`: the readiness protocol of a strict connector (`y`): 0 = `call` not allowed (the next
/// `poll_ready` answers `Pending` once and wakes), 1 = `Pending` was answered, 2 = ready said;
/// 255 = not strict (always ready, `call` any time).
#[derive(Clone)]
struct ScriptConnector(Arc<Mutex<World>>, u8);

impl Service<http::Uri> for ScriptConnector {
    type Response = hyper_util::rt::TokioIo<tokio::io::DuplexStream>;
    type Error = std::io::Error;
    type Future = Pin<Box<dyn Future<Output = Result<Self::Response, Self::Error>> + Send>>;
    fn poll_ready(&mut self, cx: &mut Context<'_>) -> Poll<Result<(), Self::Error>> {
        match self.1 {
            0 => {
                self.1 = 1;
                cx.waker().wake_by_ref();
                Poll::Pending
            }
            1 => {
                self.1 = 2;
                Poll::Ready(Ok(()))
            }
            _ => Poll::Ready(Ok(())),
        }
    }
    fn call(&mut self, uri: http::Uri) -> Self::Future {
        if self.1 != 255 {
            // tower's contract, insisted on: `call` only after `poll_ready` said ready
            assert!(self.1 == 2, "connector called without poll_ready");
            self.1 = 0;
        }
        let world = self.0.clone();
        let (id, outcome, held) = {
            let mut w = world.lock().unwrap();
            w.attempts += 1;
            // past the end of the script every attempt fails
            let o = w.outcomes.pop_front().unwrap_or('F');
            // an attempt to reach anything but the endpoint's own URI reaches nothing
            let wrong = w.target.as_ref().map(|t| *t != uri).unwrap_or(false);
            let held = if w.hold {
                w.hold = false;
                let _ = w.started.send(());
                Some(w.gate.clone())
            } else {
                None
            };
            (w.attempts, if wrong { 'F' } else { o }, held)
        };
        Box::pin(async move {
            if let Some(gate) = held {
                // in progress until the script lets it go on
                gate.notified().await;
            }
            if outcome.is_ascii_lowercase() {
                tokio::time::sleep(Duration::from_millis(5)).await;
            }
            match outcome.to_ascii_uppercase() {
                'S' => {
                    let (client_io, mut cable_a) = tokio::io::duplex(16 * 1024);
                    let (mut cable_b, server_io) = tokio::io::duplex(16 * 1024);
                    // the peer: a real tonic server serving exactly this connection
                    let (stop_tx, stop_rx) = tokio::sync::oneshot::channel::<()>();
                    let arrived = world.lock().unwrap().arrived.clone();
                    tokio::spawn(async move {
                        use tokio_stream::StreamExt;
                        // one connection, then nothing more (the listener stays open)
                        let incoming = tokio_stream::once(Ok::<_, std::io::Error>(server_io))
                            .chain(tokio_stream::pending());
                        let _ = tonic::transport::Server::builder()
                            .add_service(WhoAmI { id, arrived })
                            .serve_with_incoming_shutdown(incoming, async move {
                                let _ = stop_rx.await;
                            })
                            .await;
                    });
                    world.lock().unwrap().shutdowns.push(stop_tx);
                    let (fz_tx, fz_rx) = tokio::sync::oneshot::channel::<()>();
                    let cable = tokio::spawn(async move {
                        tokio::select! {
                            _ = tokio::io::copy_bidirectional(&mut cable_a, &mut cable_b) => {}
                            // the peer goes silent: nothing is carried any more, nothing is closed
                            Ok(()) = fz_rx => std::future::pending::<()>().await,
                        }
                    });
                    {
                        let mut w = world.lock().unwrap();
                        w.cables.push((id, cable));
                        w.freezers.push(fz_tx);
                    }
                    Ok(hyper_util::rt::TokioIo::new(client_io))
                }
                'T' => {
                    // never answers: only `Endpoint::connect_timeout` ends this attempt
                    std::future::pending::<()>().await;
                    unreachable!()
                }
                'X' => {
                    // the connect itself succeeds but the peer is already gone
                    let (client_io, far) = tokio::io::duplex(16 * 1024);
                    drop(far);
                    Ok(hyper_util::rt::TokioIo::new(client_io))
                }
                _ => Err(std::io::Error::new(
                    std::io::ErrorKind::ConnectionRefused,
                    format!("refused attempt #{}#", id),
                )),
            }
        })
    }
}

/// The attempt id our connector put into its error text, searched in the whole rendering of the
/// error (message and source chain).
fn attempt_in(text: &str) -> String {
    match text.find("refused attempt #") {
        Some(p) => {
            let rest = &text[p + "refused attempt #".len()..];
            rest.chars().take_while(|c| c.is_ascii_digit()).collect()
        }
        None => "?".into(),
    }
}

const QUIESCE: Duration = Duration::from_millis(50);

/// The deadline a script letter stands for.
fn deadline_of(c: char) -> Option<Duration> {
    match c {
        'z' => Some(Duration::ZERO),
        'n' => Some(Duration::from_nanos(1)),
        's' => Some(Duration::from_millis(20)),
        'l' => Some(Duration::from_secs(3600)),
        _ => None,
    }
}

/// How one finished call is reported.
fn call_tok(r: Result<Result<String, (tonic::Status, String)>, ()>, a: usize) -> (String, bool) {
    match r {
        Err(()) => (format!("c:hang:a{}", a), true),
        Ok(Ok(body)) => match body.strip_prefix("hi@") {
            Some(id) => (format!("c:resp{}:a{}", id, a), false),
            None => (format!("c:garbled:a{}", a), false),
        },
        Ok(Err((st, dbg))) => {
            if std::env::var("C14_DEBUG").is_ok() {
                eprintln!("{}", dbg);
            }
            if st.code() == tonic::Code::Cancelled && st.message() == "Timeout expired" {
                // the call's own deadline (GrpcTimeout), not a connection failure
                (format!("c:exp:a{}", a), false)
            } else {
                (format!("c:err{}:f{}:a{}", st.code() as i32, attempt_in(&dbg), a), false)
            }
        }
    }
}

fn run_e2e(lazy: bool, outcomes: &str, ops: &str, with_timeout: bool, opts: &str) -> String {
    let endpoint_timeout: Option<Duration> = opts.chars().find_map(deadline_of);
    let (conc_limit, rate_limit) = (opts.contains('q'), opts.contains('r'));
    let rt = paused_rt();
    rt.block_on(async move {
        let (arrived_tx, mut arrived_rx) = tokio::sync::mpsc::unbounded_channel::<usize>();
        let (started_tx, mut started_rx) = tokio::sync::mpsc::unbounded_channel::<()>();
        let gate = Arc::new(tokio::sync::Notify::new());
        let world = Arc::new(Mutex::new(World {
            outcomes: outcomes.chars().filter(|c| *c != '-').collect(),
            attempts: 0,
            cables: Vec::new(),
            shutdowns: Vec::new(),
            arrived: arrived_tx,
            freezers: Vec::new(),
            target: Some(http::Uri::from_static("http://verif.invalid:50051")),
            hold: false,
            gate: gate.clone(),
            started: started_tx,
        }));
        // `y`: a connector that insists on tower's readiness protocol (`Pending` first, `call` only
        // after `Ready`)
        let connector = ScriptConnector(world.clone(), if opts.contains('y') { 0 } else { 255 });
        let endpoint = tonic::transport::Endpoint::from_static("http://verif.invalid:50051");
        let endpoint = c14_x::configure(endpoint, opts);
        // with a connect timeout the connector is wrapped in hyper_timeout's TimeoutConnector
        // (one code path of connect_with_connector[_lazy]); without, it is used directly
        let endpoint = if with_timeout {
            endpoint.connect_timeout(Duration::from_secs(3))
        } else {
            endpoint
        };
        // Endpoint::timeout: the channel-wide deadline GrpcTimeout applies to every call
        let endpoint = match endpoint_timeout {
            Some(d) => endpoint.timeout(d),
            None => endpoint,
        };
        // the optional limit layers between GrpcTimeout and Reconnect
        let endpoint = if conc_limit { endpoint.concurrency_limit(1) } else { endpoint };
        let endpoint = if rate_limit { endpoint.rate_limit(1, Duration::from_millis(80)) } else { endpoint };
        let mut out: Vec<String> = Vec::new();
        let attempts = |w: &Arc<Mutex<World>>| w.lock().unwrap().attempts;
        // `D` (kind `e2c`): the lower-level public entry points `Channel::new` / `Channel::connect`,
        // which take the user's connector as it is (no `Connector` wrapper, no `TimeoutConnector`)
        let direct = opts.contains('D');
        let channel = if lazy {
            let ch = if direct {
                tonic::transport::Channel::new(connector, endpoint.clone())
            } else {
                endpoint.connect_with_connector_lazy(connector)
            };
            tokio::time::sleep(QUIESCE).await;
            out.push(format!("build:ok:a{}", attempts(&world)));
            ch
        } else {
            let building: Pin<Box<dyn Future<Output = Result<tonic::transport::Channel, tonic::transport::Error>> + Send>> = if direct {
                Box::pin(tonic::transport::Channel::connect(connector, endpoint.clone()))
            } else {
                Box::pin(endpoint.connect_with_connector(connector))
            };
            match tokio::time::timeout(WATCHDOG, building).await {
                Err(_) => {
                    out.push(format!("build:hang:a{}", attempts(&world)));
                    return out.join(" ");
                }
                Ok(Err(e)) => {
                    // how a caller would classify it
                    let dbg = format!("{:?}", e);
                    let st = tonic::Status::from_error(Box::new(e));
                    out.push(format!("build:err{}:f{}:a{}", st.code() as i32, attempt_in(&dbg), attempts(&world)));
                    return out.join(" ");
                }
                Ok(Ok(ch)) => {
                    tokio::time::sleep(QUIESCE).await;
                    out.push(format!("build:ok:a{}", attempts(&world)));
                    ch
                }
            }
        };
        let mut client = tonic::client::Grpc::new(channel);
        let cut_cables = |world: &Arc<Mutex<World>>| {
            let cables: Vec<_> = world.lock().unwrap().cables.drain(..).collect();
            async move {
                for (_, c) in cables {
                    c.abort();
                    let _ = c.await;
                }
            }
        };
        let ready_err = |e: tonic::transport::Error| {
            let dbg = format!("{:?}", e);
            (tonic::Status::from_error(Box::new(e)), dbg)
        };
        let status_err = |st: tonic::Status| {
            let dbg = format!("{:?} {}", st, source_chain(&st));
            (st, dbg)
        };
        for op in ops.chars().filter(|c| *c != '-') {
            match op {
                'g' => {
                    // the peer shuts down gracefully (GOAWAY, then closes): same fault, polite form
                    let stops: Vec<_> = world.lock().unwrap().shutdowns.drain(..).collect();
                    for s in stops {
                        let _ = s.send(());
                    }
                    tokio::time::sleep(QUIESCE).await;
                    out.push("d".into());
                }
                'h' => {
                    // the peer goes silent: its connections stay open and carry nothing any more.
                    // Only with the HTTP/2 keep-alive options (`k`), which make the client notice
                    // and give the connection up: from then on the same fault as `d`
                    let fz: Vec<_> = world.lock().unwrap().freezers.drain(..).collect();
                    for f in fz {
                        let _ = f.send(());
                    }
                    tokio::time::sleep(QUIESCE).await;
                    out.push("d".into());
                }
                'A' => {
                    // a call that the application abandons (drops the future of) IF it has to wait
                    // for a connection attempt: the attempt it triggers is held in progress, the
                    // call is dropped, the attempt goes on and ends as the script says — with nobody
                    // waiting for it. A call that needs no new attempt completes as usual.
                    while started_rx.try_recv().is_ok() {}
                    world.lock().unwrap().hold = true;
                    let fut = async {
                        client.ready().await.map_err(ready_err)?;
                        let path = http::uri::PathAndQuery::from_static("/verif.WhoAmI/Who");
                        client
                            .unary::<Vec<u8>, Vec<u8>, _>(tonic::Request::new(b"hi".to_vec()), path, raw::RawCodec)
                            .await
                            .map(|resp| String::from_utf8_lossy(resp.get_ref()).to_string())
                            .map_err(status_err)
                    };
                    let fut: Pin<Box<dyn Future<Output = Result<String, (tonic::Status, String)>> + '_>> = Box::pin(fut);
                    let mut fut = Some(fut);
                    let first = tokio::time::timeout(WATCHDOG, async {
                        tokio::select! {
                            biased;
                            r = fut.as_mut().unwrap() => Ok(r),
                            _ = started_rx.recv() => Err(()),
                        }
                    })
                    .await;
                    world.lock().unwrap().hold = false;
                    drop(fut.take());
                    let (tok, stop) = match first {
                        Err(_) => (format!("c:hang:a{}", attempts(&world)), true),
                        Ok(Ok(r)) => {
                            tokio::time::sleep(QUIESCE).await;
                            call_tok(Ok(r), attempts(&world))
                        }
                        Ok(Err(())) => {
                            gate.notify_one();
                            tokio::time::sleep(QUIESCE).await;
                            (format!("A:a{}", attempts(&world)), false)
                        }
                    };
                    out.push(tok);
                    if stop {
                        break;
                    }
                }
                'a' => {
                    // a call the application abandons (drops the future of) once the request has
                    // reached the peer's handler: reported like an answered call (it got as far
                    // as live connection `id`); what matters is what the calls after it see
                    while arrived_rx.try_recv().is_ok() {}
                    let fut = async {
                        client.ready().await.map_err(ready_err)?;
                        let path = http::uri::PathAndQuery::from_static("/verif.WhoAmI/Hold");
                        let mut req = tonic::Request::new(b"hi".to_vec());
                        if endpoint_timeout.is_none() {
                            // not to be mistaken for a deadline-less call by any layer
                            req.set_timeout(Duration::from_secs(7200));
                        }
                        client
                            .unary::<Vec<u8>, Vec<u8>, _>(req, path, raw::RawCodec)
                            .await
                            .map(|resp| String::from_utf8_lossy(resp.get_ref()).to_string())
                            .map_err(status_err)
                    };
                    let fut: Pin<Box<dyn Future<Output = Result<String, (tonic::Status, String)>> + '_>> = Box::pin(fut);
                    let mut fut = Some(fut);
                    let first = tokio::time::timeout(WATCHDOG, async {
                        tokio::select! {
                            biased;
                            r = fut.as_mut().unwrap() => Ok(r),
                            id = arrived_rx.recv() => Err(id),
                        }
                    })
                    .await;
                    // abandoned here, whatever state it is in
                    drop(fut.take());
                    tokio::time::sleep(QUIESCE).await;
                    let a = attempts(&world);
                    let (tok, stop) = match first {
                        Err(_) => (format!("c:hang:a{}", a), true),
                        Ok(Ok(r)) => {
                            let (t, s) = call_tok(Ok(r), a);
                            let zero = endpoint_timeout == Some(Duration::ZERO);
                            (if zero && t.starts_with("c:resp") { format!("c:exp:a{}", a) } else { t }, s)
                        }
                        Ok(Err(id)) => (format!("c:resp{}:a{}", id.unwrap_or(0), a), false),
                    };
                    out.push(tok);
                    if stop {
                        break;
                    }
                }
                'd' => {
                    // the peer drops every established connection
                    cut_cables(&world).await;
                    tokio::time::sleep(QUIESCE).await;
                    out.push("d".into());
                }
                'p' => {
                    // two callers at the same moment: both requests are handed to the channel
                    // (first A, then B) before either result is awaited
                    let mut ca = client.clone();
                    let mut cb = client.clone();
                    let fut = async {
                        let ra = ca.ready().await.map_err(ready_err);
                        let rb = cb.ready().await.map_err(ready_err);
                        let path = http::uri::PathAndQuery::from_static("/verif.WhoAmI/Who");
                        let fa = async {
                            ra?;
                            ca.unary::<Vec<u8>, Vec<u8>, _>(tonic::Request::new(b"hi".to_vec()), path.clone(), raw::RawCodec)
                                .await
                                .map(|resp| String::from_utf8_lossy(resp.get_ref()).to_string())
                                .map_err(status_err)
                        };
                        let fb = async {
                            rb?;
                            cb.unary::<Vec<u8>, Vec<u8>, _>(tonic::Request::new(b"hi".to_vec()), path.clone(), raw::RawCodec)
                                .await
                                .map(|resp| String::from_utf8_lossy(resp.get_ref()).to_string())
                                .map_err(status_err)
                        };
                        // join! polls `fa` first: A's request is queued before B's
                        tokio::join!(fa, fb)
                    };
                    let r = tokio::time::timeout(WATCHDOG, fut).await;
                    tokio::time::sleep(QUIESCE).await;
                    let a = attempts(&world);
                    match r {
                        Err(_) => {
                            out.push(format!("p=hang=hang=a{}", a));
                            break;
                        }
                        Ok((ra, rb)) => {
                            let sub = |r: Result<String, (tonic::Status, String)>| {
                                let (t, _) = call_tok(Ok(r), a);
                                // "c:<what>[:f<k>]:a<n>" → "<what>[:f<k>]"
                                let inner = t.strip_prefix("c:").unwrap_or(&t);
                                match inner.rfind(":a") {
                                    Some(p) => inner[..p].to_string(),
                                    None => inner.to_string(),
                                }
                            };
                            out.push(format!("p={}={}=a{}", sub(ra), sub(rb), a));
                        }
                    }
                }
                'i' => {
                    // a unary call that is in flight (request delivered to the handler, no
                    // response) when the peer drops the connection
                    while arrived_rx.try_recv().is_ok() {}
                    let fut = async {
                        client.ready().await.map_err(ready_err)?;
                        let path = http::uri::PathAndQuery::from_static("/verif.WhoAmI/Hold");
                        client
                            .unary::<Vec<u8>, Vec<u8>, _>(tonic::Request::new(b"hi".to_vec()), path, raw::RawCodec)
                            .await
                            .map(|resp| String::from_utf8_lossy(resp.get_ref()).to_string())
                            .map_err(status_err)
                    };
                    tokio::pin!(fut);
                    let first = tokio::time::timeout(WATCHDOG, async {
                        tokio::select! {
                            biased;
                            r = &mut fut => Ok(r),
                            id = arrived_rx.recv() => Err(id),
                        }
                    })
                    .await;
                    let (tok, stop) = match first {
                        Err(_) => (format!("c:hang:a{}", attempts(&world)), true),
                        // the call ended before it reached a handler (no connection could be made)
                        Ok(Ok(r)) => {
                            tokio::time::sleep(QUIESCE).await;
                            call_tok(Ok(r), attempts(&world))
                        }
                        Ok(Err(id)) => {
                            cut_cables(&world).await;
                            // must resolve by itself, in bounded (virtual) time
                            let r = tokio::time::timeout(WATCHDOG, &mut fut).await;
                            tokio::time::sleep(QUIESCE).await;
                            let a = attempts(&world);
                            match r {
                                Err(_) => (format!("c:hang:a{}", a), true),
                                Ok(Ok(_)) => (format!("c:garbled:a{}", a), false),
                                Ok(Err((st, dbg))) => {
                                    if std::env::var("C14_DEBUG").is_ok() {
                                        eprintln!("in-flight unary: code {:?}: {}", st.code(), dbg);
                                    }
                                    (format!("c:lost{}:a{}", id.unwrap_or(0), a), false)
                                }
                            }
                        }
                    };
                    out.push(tok);
                    if stop {
                        break;
                    }
                }
                'j' => {
                    // a server-streaming call: first message received, then the peer drops the
                    // connection in the middle of the response body
                    let fut = async {
                        client.ready().await.map_err(ready_err)?;
                        let path = http::uri::PathAndQuery::from_static("/verif.WhoAmI/Stream");
                        client
                            .server_streaming::<Vec<u8>, Vec<u8>, _>(tonic::Request::new(b"hi".to_vec()), path, raw::RawCodec)
                            .await
                            .map_err(status_err)
                    };
                    let started = tokio::time::timeout(WATCHDOG, fut).await;
                    let (tok, stop) = match started {
                        Err(_) => (format!("c:hang:a{}", attempts(&world)), true),
                        Ok(Err(e)) => {
                            tokio::time::sleep(QUIESCE).await;
                            call_tok(Ok(Err(e)), attempts(&world))
                        }
                        Ok(Ok(resp)) => {
                            let mut stream = resp.into_inner();
                            match tokio::time::timeout(WATCHDOG, stream.message()).await {
                                Err(_) => (format!("c:hang:a{}", attempts(&world)), true),
                                Ok(Ok(Some(first))) => {
                                    let body = String::from_utf8_lossy(&first).to_string();
                                    let id = body.strip_prefix("hi@").and_then(|s| s.parse::<usize>().ok());
                                    cut_cables(&world).await;
                                    let r = tokio::time::timeout(WATCHDOG, stream.message()).await;
                                    tokio::time::sleep(QUIESCE).await;
                                    let a = attempts(&world);
                                    match (r, id) {
                                        (Err(_), _) => (format!("c:hang:a{}", a), true),
                                        // a clean end of stream or a further message: the
                                        // truncation went unnoticed
                                        (Ok(Ok(_)), _) | (_, None) => (format!("c:garbled:a{}", a), false),
                                        (Ok(Err(st)), Some(id)) => {
                                            if std::env::var("C14_DEBUG").is_ok() {
                                                eprintln!("in-flight stream: code {:?}: {:?}", st.code(), st);
                                            }
                                            (format!("c:lost{}:a{}", id, a), false)
                                        }
                                    }
                                }
                                Ok(Ok(None)) => (format!("c:garbled:a{}", attempts(&world)), false),
                                Ok(Err(st)) => {
                                    tokio::time::sleep(QUIESCE).await;
                                    call_tok(Ok(Err(status_err(st))), attempts(&world))
                                }
                            }
                        }
                    };
                    out.push(tok);
                    if stop {
                        break;
                    }
                }
                _ => {
                    // an ordinary unary call, possibly with a per-call deadline
                    let fut = async {
                        client.ready().await.map_err(ready_err)?;
                        let path = http::uri::PathAndQuery::from_static("/verif.WhoAmI/Who");
                        let mut req = tonic::Request::new(b"hi".to_vec());
                        if let Some(d) = deadline_of(op) {
                            req.set_timeout(d);
                        }
                        client
                            .unary::<Vec<u8>, Vec<u8>, _>(req, path, raw::RawCodec)
                            .await
                            .map(|resp| String::from_utf8_lossy(resp.get_ref()).to_string())
                            .map_err(status_err)
                    };
                    let r = tokio::time::timeout(WATCHDOG, fut).await.map_err(|_| ());
                    tokio::time::sleep(QUIESCE).await;
                    let (mut tok, stop) = call_tok(r, attempts(&world));
                    // A call whose effective deadline is zero races its own timers (the
                    // client's and the peer's GrpcTimeout) against the answer; which of them
                    // wins is not the property's business: "answered" and "cut off by its
                    // deadline" both mean the call got as far as a live connection.
                    let zero = deadline_of(op) == Some(Duration::ZERO) || endpoint_timeout == Some(Duration::ZERO);
                    if zero && tok.starts_with("c:resp") {
                        tok = format!("c:exp:a{}", attempts(&world));
                    }
                    out.push(tok);
                    if stop {
                        break;
                    }
                }
            }
        }
        out.join(" ")
    })
}

fn source_chain(e: &dyn std::error::Error) -> String {
    let mut s = String::new();
    let mut cur = e.source();
    while let Some(x) = cur {
        s.push_str(&format!(" <- {}", x));
        cur = x.source();
    }
    s
}

// ------------------------------------------------------------------------------------------
// cls / e2x: error chains
// ------------------------------------------------------------------------------------------

type BoxError = Box<dyn std::error::Error + Send + Sync + 'static>;

const IO_KINDS: &[(&str, std::io::ErrorKind)] = {
    use std::io::ErrorKind::*;
    &[
        ("NotFound", NotFound),
        ("PermissionDenied", PermissionDenied),
        ("ConnectionRefused", ConnectionRefused),
        ("ConnectionReset", ConnectionReset),
        ("HostUnreachable", HostUnreachable),
        ("NetworkUnreachable", NetworkUnreachable),
        ("ConnectionAborted", ConnectionAborted),
        ("NotConnected", NotConnected),
        ("AddrInUse", AddrInUse),
        ("AddrNotAvailable", AddrNotAvailable),
        ("NetworkDown", NetworkDown),
        ("BrokenPipe", BrokenPipe),
        ("AlreadyExists", AlreadyExists),
        ("WouldBlock", WouldBlock),
        ("NotADirectory", NotADirectory),
        ("IsADirectory", IsADirectory),
        ("DirectoryNotEmpty", DirectoryNotEmpty),
        ("ReadOnlyFilesystem", ReadOnlyFilesystem),
        ("StaleNetworkFileHandle", StaleNetworkFileHandle),
        ("InvalidInput", InvalidInput),
        ("InvalidData", InvalidData),
        ("TimedOut", TimedOut),
        ("WriteZero", WriteZero),
        ("StorageFull", StorageFull),
        ("NotSeekable", NotSeekable),
        ("QuotaExceeded", QuotaExceeded),
        ("FileTooLarge", FileTooLarge),
        ("ResourceBusy", ResourceBusy),
        ("ExecutableFileBusy", ExecutableFileBusy),
        ("Deadlock", Deadlock),
        ("CrossesDevices", CrossesDevices),
        ("TooManyLinks", TooManyLinks),
        ("InvalidFilename", InvalidFilename),
        ("ArgumentListTooLong", ArgumentListTooLong),
        ("Interrupted", Interrupted),
        ("Unsupported", Unsupported),
        ("UnexpectedEof", UnexpectedEof),
        ("OutOfMemory", OutOfMemory),
        ("Other", Other),
    ]
};

/// A user's own error type, optionally with a source.
#[derive(Debug)]
struct Wrap {
    id: usize,
    source: Option<BoxError>,
}
impl std::fmt::Display for Wrap {
    fn fmt(&self, f: &mut std::fmt::Formatter<'_>) -> std::fmt::Result {
        write!(f, "custom error {}", self.id)
    }
}
impl std::error::Error for Wrap {
    fn source(&self) -> Option<&(dyn std::error::Error + 'static)> {
        self.source.as_ref().map(|e| &**e as &(dyn std::error::Error + 'static))
    }
}

/// The error of a real hyper HTTP/2 client handshake on a transport whose far end is gone.
async fn real_handshake_error() -> Option<hyper::Error> {
    let (io, far) = tokio::io::duplex(1024);
    drop(far);
    hyper::client::conn::http2::Builder::new(hyper_util::rt::TokioExecutor::new())
        .handshake::<_, tonic::body::Body>(hyper_util::rt::TokioIo::new(io))
        .await
        .err()
}

/// Build the error whose `source()` walk is the token list (outermost first); `None` = the
/// tokens do not describe something that can be built (leaf in the middle, `C` with no cause).
async fn build_chain(toks: &[&str]) -> Option<BoxError> {
    let mut cur: Option<BoxError> = None;
    for t in toks.iter().rev() {
        let inner = cur.take();
        let next: BoxError = if *t == "C" {
            Box::new(tonic::ConnectError(inner?))
        } else if let Some(id) = t.strip_prefix('W') {
            Box::new(Wrap { id: id.parse().ok()?, source: inner })
        } else if let Some(k) = t.strip_prefix("I.") {
            let kind = IO_KINDS.iter().find(|(n, _)| *n == k)?.1;
            match inner {
                // io::Error::source() is the source of the wrapped error, not the wrapped error
                Some(inner) => Box::new(std::io::Error::new(kind, Wrap { id: 0, source: Some(inner) })),
                None => Box::new(std::io::Error::new(kind, "scripted io error")),
            }
        } else if inner.is_some() {
            return None;
        } else if *t == "T" {
            Box::new(tonic::TimeoutExpired(()))
        } else if *t == "L" {
            Box::new(tokio_rustls::rustls::Error::General("scripted tls error".into()))
        } else if *t == "Yh" {
            Box::new(real_handshake_error().await?)
        } else if let Some(r) = t.strip_prefix("H2.") {
            Box::new(h2::Error::from(h2::Reason::from(r.parse::<u32>().ok()?)))
        } else if let Some(c) = t.strip_prefix('S') {
            let c: i32 = c.parse().ok()?;
            if !(0..=16).contains(&c) {
                return None;
            }
            Box::new(tonic::Status::new(tonic::Code::from_i32(c), "scripted status"))
        } else {
            return None;
        };
        cur = Some(next);
    }
    cur
}

/// The chain as an independent walk over `source()` sees it (by `downcast_ref`).
fn walk(e: &(dyn std::error::Error + 'static)) -> String {
    let mut toks: Vec<String> = Vec::new();
    let mut cur = Some(e);
    while let Some(x) = cur {
        let t = if let Some(s) = x.downcast_ref::<tonic::Status>() {
            format!("S{}", s.code() as i32)
        } else if x.downcast_ref::<tonic::TimeoutExpired>().is_some() {
            "T".into()
        } else if x.downcast_ref::<tonic::ConnectError>().is_some() {
            "C".into()
        } else if let Some(h) = x.downcast_ref::<hyper::Error>() {
            format!("Y.{}{}", h.is_timeout() as u8, h.is_canceled() as u8)
        } else if let Some(h) = x.downcast_ref::<h2::Error>() {
            match h.reason() {
                Some(r) => format!("H2.{}", u32::from(r)),
                None => "H2.-".into(),
            }
        } else if let Some(i) = x.downcast_ref::<std::io::Error>() {
            format!("I.{:?}", i.kind())
        } else if x.downcast_ref::<tokio_rustls::rustls::Error>().is_some() {
            "L".into()
        } else if x.downcast_ref::<tonic::transport::Error>().is_some() {
            "X".into()
        } else if let Some(w) = x.downcast_ref::<Wrap>() {
            format!("W{}", w.id)
        } else {
            "W99".into()
        };
        toks.push(t);
        if toks.len() >= 64 {
            break;
        }
        cur = x.source();
    }
    if toks.is_empty() {
        "-".into()
    } else {
        toks.join(">")
    }
}

fn run_cls(chain: &str) -> String {
    let toks: Vec<&str> = chain.split('>').collect();
    let rt = paused_rt();
    rt.block_on(async move {
        match build_chain(&toks).await {
            None => "bad-case".into(),
            Some(err) => {
                let w = walk(&*err);
                let st = tonic::Status::from_error(err);
                format!("code={} walk={}", st.code() as i32, w)
            }
        }
    })
}

#[derive(Clone)]
struct FailConnector {
    cause: Arc<Vec<String>>,
    attempts: Arc<std::sync::atomic::AtomicUsize>,
}

impl Service<http::Uri> for FailConnector {
    type Response = hyper_util::rt::TokioIo<tokio::io::DuplexStream>;
    type Error = BoxError;
    type Future = Pin<Box<dyn Future<Output = Result<Self::Response, Self::Error>> + Send>>;
    fn poll_ready(&mut self, _cx: &mut Context<'_>) -> Poll<Result<(), Self::Error>> {
        Poll::Ready(Ok(()))
    }
    fn call(&mut self, _uri: http::Uri) -> Self::Future {
        self.attempts.fetch_add(1, std::sync::atomic::Ordering::SeqCst);
        let cause = self.cause.clone();
        Box::pin(async move {
            let toks: Vec<&str> = cause.iter().map(|s| s.as_str()).collect();
            Err(build_chain(&toks).await.expect("checked before"))
        })
    }
}

fn run_e2x(lazy: bool, with_timeout: bool, cause: &str) -> String {
    let rt = paused_rt();
    let toks: Vec<String> = cause.split('>').map(|s| s.to_string()).collect();
    rt.block_on(async move {
        {
            let t: Vec<&str> = toks.iter().map(|s| s.as_str()).collect();
            if build_chain(&t).await.is_none() {
                return "bad-case".to_string();
            }
        }
        let attempts = Arc::new(std::sync::atomic::AtomicUsize::new(0));
        let connector = FailConnector { cause: Arc::new(toks), attempts: attempts.clone() };
        let n = || attempts.load(std::sync::atomic::Ordering::SeqCst);
        let endpoint = tonic::transport::Endpoint::from_static("http://verif.invalid:50051");
        let endpoint = if with_timeout { endpoint.connect_timeout(Duration::from_secs(3)) } else { endpoint };
        let mut out: Vec<String> = Vec::new();
        let channel = if lazy {
            let ch = endpoint.connect_with_connector_lazy(connector);
            tokio::time::sleep(QUIESCE).await;
            out.push(format!("build:ok:a{}", n()));
            ch
        } else {
            match tokio::time::timeout(WATCHDOG, endpoint.connect_with_connector(connector)).await {
                Err(_) => return format!("build:hang:a{}", n()),
                Ok(Ok(_)) => return format!("build:ok:a{}", n()),
                Ok(Err(e)) => {
                    let w = walk(&e);
                    let st = tonic::Status::from_error(Box::new(e));
                    return format!("build:err{}:a{}:walk={}", st.code() as i32, n(), w);
                }
            }
        };
        let mut client = tonic::client::Grpc::new(channel);
        for _ in 0..2 {
            let fut = async {
                client.ready().await.map_err(|e| {
                    let w = walk(&e);
                    (tonic::Status::from_error(Box::new(e)), w)
                })?;
                let path = http::uri::PathAndQuery::from_static("/verif.WhoAmI/Who");
                client
                    .unary::<Vec<u8>, Vec<u8>, _>(tonic::Request::new(b"hi".to_vec()), path, raw::RawCodec)
                    .await
                    .map_err(|st| {
                        let w = match std::error::Error::source(&st) {
                            Some(s) => walk(s),
                            None => "-".into(),
                        };
                        (st, w)
                    })
            };
            let r = tokio::time::timeout(WATCHDOG, fut).await;
            tokio::time::sleep(QUIESCE).await;
            match r {
                Err(_) => {
                    out.push(format!("c:hang:a{}", n()));
                    break;
                }
                Ok(Ok(_)) => out.push(format!("c:garbled:a{}", n())),
                Ok(Err((st, w))) => out.push(format!("c:err{}:a{}:walk={}", st.code() as i32, n(), w)),
            }
        }
        out.join(" ")
    })
}

// ------------------------------------------------------------------------------------------
// net: Endpoint::connect() / connect_lazy() against a real loopback TCP port or unix socket
// ------------------------------------------------------------------------------------------

static NET_SEQ: std::sync::atomic::AtomicUsize = std::sync::atomic::AtomicUsize::new(0);

type Cables = Arc<Mutex<Vec<tokio::task::JoinHandle<()>>>>;

/// A freshly accepted transport stream gets a real tonic server (generation `gen`) behind a cable
/// task that the script can cut.
fn attach_peer<S>(mut stream: S, gen: usize, cables: &Cables, arrived: &tokio::sync::mpsc::UnboundedSender<usize>)
where
    S: tokio::io::AsyncRead + tokio::io::AsyncWrite + Unpin + Send + 'static,
{
    let (mut near, far) = tokio::io::duplex(16 * 1024);
    let arrived = arrived.clone();
    tokio::spawn(async move {
        use tokio_stream::StreamExt;
        let incoming = tokio_stream::once(Ok::<_, std::io::Error>(far)).chain(tokio_stream::pending());
        let _ = tonic::transport::Server::builder()
            .add_service(WhoAmI { id: gen, arrived })
            .serve_with_incoming(incoming)
            .await;
    });
    let cable = tokio::spawn(async move {
        let _ = tokio::io::copy_bidirectional(&mut stream, &mut near).await;
    });
    cables.lock().unwrap().push(cable);
}

enum NetAddr {
    /// port, and while no server listens: the bound, non-listening socket that keeps the port
    Tcp(u16, Option<tokio::net::TcpSocket>),
    Uds(std::path::PathBuf),
}

fn reserve_tcp(port: u16) -> Option<tokio::net::TcpSocket> {
    let sock = tokio::net::TcpSocket::new_v4().ok()?;
    sock.set_reuseaddr(true).ok()?;
    sock.bind(std::net::SocketAddr::from(([127, 0, 0, 1], port))).ok()?;
    Some(sock)
}

const NET_SETTLE: Duration = Duration::from_millis(25);
const NET_WATCHDOG: Duration = Duration::from_secs(5);

fn run_net(transport: &str, lazy: bool, script: &str) -> String {
    let ops: Vec<char> = script.chars().collect();
    let bpos = match ops.iter().position(|c| *c == 'b') {
        Some(p) => p,
        None => return "bad-case".into(),
    };
    if ops.iter().filter(|c| **c == 'b').count() != 1
        || ops.iter().any(|c| !"ukxbc".contains(*c))
        || ops[..bpos].contains(&'c')
    {
        return "bad-case".into();
    }
    let rt = tokio::runtime::Builder::new_current_thread().enable_all().build().unwrap();
    let out = rt.block_on(async move {
        let (arrived, _arrived_rx) = tokio::sync::mpsc::unbounded_channel::<usize>();
        let cables: Cables = Arc::new(Mutex::new(Vec::new()));
        let mut addr = if transport.starts_with("tcp") {
            let sock = match reserve_tcp(0) {
                Some(s) => s,
                None => return "env:cannot-bind".to_string(),
            };
            let port = sock.local_addr().map(|a| a.port()).unwrap_or(0);
            NetAddr::Tcp(port, Some(sock))
        } else {
            let n = NET_SEQ.fetch_add(1, std::sync::atomic::Ordering::SeqCst);
            if transport == "udsl" {
                // the socket is reached through a SYMLINKED directory that every new server generation re-points
                // (`<base>/current -> v<g>`; a deployment that swaps releases): the channel must dial the path it was
                // given each time, not what the path resolved to when the channel was built (seed C14g)
                let base = std::env::temp_dir().join(format!("verif-c14-{}-{}.d", std::process::id(), n));
                let _ = std::fs::remove_dir_all(&base);
                let _ = std::fs::create_dir_all(base.join("v0"));
                let _ = std::os::unix::fs::symlink("v0", base.join("current"));
                NetAddr::Uds(base.join("current").join("sock"))
            } else {
                NetAddr::Uds(std::env::temp_dir().join(format!("verif-c14-{}-{}.sock", std::process::id(), n)))
            }
        };
        let symlinked = transport == "udsl";
        // the constructor the case names (`tcp` / `uds`: `Endpoint::from_shared`)
        let built = match &addr {
            NetAddr::Tcp(port, _) => c14_x::net_endpoint(transport, Some(format!("http://127.0.0.1:{}", port)), None),
            NetAddr::Uds(path) => c14_x::net_endpoint(transport, None, Some(path.display().to_string())),
        };
        let endpoint = match built {
            Some(e) => e,
            None => return "env:bad-uri".to_string(),
        };
        let mut gen = 0usize;
        let mut accept: Option<tokio::task::JoinHandle<()>> = None;
        let mut client: Option<tonic::client::Grpc<tonic::transport::Channel>> = None;
        let mut out: Vec<String> = Vec::new();
        for op in ops {
            match op {
                'u' => {
                    if accept.is_some() {
                        continue;
                    }
                    gen += 1;
                    let g = gen;
                    let cables = cables.clone();
                    let arrived = arrived.clone();
                    match &mut addr {
                        NetAddr::Tcp(port, holder) => {
                            let sock = match holder.take().or_else(|| reserve_tcp(*port)) {
                                Some(s) => s,
                                None => return "env:cannot-bind".to_string(),
                            };
                            let listener = match sock.listen(1024) {
                                Ok(l) => l,
                                Err(_) => return "env:cannot-listen".to_string(),
                            };
                            accept = Some(tokio::spawn(async move {
                                while let Ok((stream, _)) = listener.accept().await {
                                    let _ = stream.set_nodelay(true);
                                    attach_peer(stream, g, &cables, &arrived);
                                }
                            }));
                        }
                        NetAddr::Uds(path) => {
                            if symlinked {
                                // a new release directory, the link swapped over to it
                                let base = path.parent().and_then(|p| p.parent()).map(|p| p.to_path_buf()).unwrap_or_default();
                                let _ = std::fs::create_dir_all(base.join(format!("v{}", g)));
                                let _ = std::fs::remove_file(base.join("current"));
                                let _ = std::os::unix::fs::symlink(format!("v{}", g), base.join("current"));
                            }
                            let _ = std::fs::remove_file(&*path);
                            let listener = match tokio::net::UnixListener::bind(&*path) {
                                Ok(l) => l,
                                Err(_) => return "env:cannot-bind".to_string(),
                            };
                            accept = Some(tokio::spawn(async move {
                                while let Ok((stream, _)) = listener.accept().await {
                                    attach_peer(stream, g, &cables, &arrived);
                                }
                            }));
                        }
                    }
                }
                'k' | 'x' => {
                    if let Some(a) = accept.take() {
                        a.abort();
                        let _ = a.await;
                    }
                    let cs: Vec<_> = cables.lock().unwrap().drain(..).collect();
                    for c in cs {
                        c.abort();
                        let _ = c.await;
                    }
                    match &mut addr {
                        NetAddr::Tcp(port, holder) => {
                            if holder.is_none() {
                                *holder = reserve_tcp(*port);
                            }
                        }
                        NetAddr::Uds(path) => {
                            if op == 'x' {
                                let _ = std::fs::remove_file(&*path);
                            }
                        }
                    }
                    // let the client side see the FIN / RST
                    tokio::time::sleep(NET_SETTLE).await;
                }
                'b' => {
                    let channel = if lazy {
                        out.push("build:ok".into());
                        endpoint.connect_lazy()
                    } else {
                        match tokio::time::timeout(NET_WATCHDOG, endpoint.connect()).await {
                            Err(_) => {
                                out.push("build:hang".into());
                                break;
                            }
                            Ok(Err(e)) => {
                                let st = tonic::Status::from_error(Box::new(e));
                                out.push(format!("build:err{}", st.code() as i32));
                                break;
                            }
                            Ok(Ok(ch)) => {
                                out.push("build:ok".into());
                                ch
                            }
                        }
                    };
                    client = Some(tonic::client::Grpc::new(channel));
                }
                _ => {
                    let client = match client.as_mut() {
                        Some(c) => c,
                        None => break,
                    };
                    let fut = async {
                        client.ready().await.map_err(|e| tonic::Status::from_error(Box::new(e)))?;
                        let path = http::uri::PathAndQuery::from_static("/verif.WhoAmI/Who");
                        client
                            .unary::<Vec<u8>, Vec<u8>, _>(tonic::Request::new(b"hi".to_vec()), path, raw::RawCodec)
                            .await
                            .map(|resp| String::from_utf8_lossy(resp.get_ref()).to_string())
                    };
                    match tokio::time::timeout(NET_WATCHDOG, fut).await {
                        Err(_) => {
                            out.push("c:hang".into());
                            break;
                        }
                        Ok(Ok(body)) => match body.strip_prefix("hi@") {
                            Some(g) => out.push(format!("c:resp{}", g)),
                            None => out.push("c:garbled".into()),
                        },
                        Ok(Err(st)) => {
                            if std::env::var("C14_DEBUG").is_ok() {
                                eprintln!("net call: {:?} {}", st, source_chain(&st));
                            }
                            out.push(format!("c:err{}", st.code() as i32));
                        }
                    }
                }
            }
        }
        if let NetAddr::Uds(path) = &addr {
            let _ = std::fs::remove_file(path);
            if symlinked {
                if let Some(base) = path.parent().and_then(|p| p.parent()) {
                    let _ = std::fs::remove_dir_all(base);
                }
            }
        }
        out.join(" ")
    });
    drop(rt);
    out
}

// ------------------------------------------------------------------------------------------
// bal: Channel::balance_list / balance_channel over real loopback TCP ports
// ------------------------------------------------------------------------------------------

/// How long one call on a balanced channel may take before it is reported as `hang` (real time;
/// on the loopback interface a call takes well under 10 ms).
const BAL_WATCHDOG: Duration = Duration::from_millis(2500);

#[derive(Clone, Copy, PartialEq)]
enum BalOp {
    Up(usize),
    Down(usize),
    Insert(usize),
    Remove(usize),
    Build,
    Call,
}

fn parse_bal_ops(script: &str) -> Option<Vec<BalOp>> {
    let cs: Vec<char> = script.chars().collect();
    let mut out = Vec::new();
    let mut i = 0;
    while i < cs.len() {
        match cs[i] {
            'c' => {
                out.push(BalOp::Call);
                i += 1;
            }
            'b' => {
                out.push(BalOp::Build);
                i += 1;
            }
            'u' | 'k' | 'i' | 'r' => {
                let k = cs.get(i + 1)?.to_digit(10)? as usize;
                if k >= 3 {
                    return None;
                }
                out.push(match cs[i] {
                    'u' => BalOp::Up(k),
                    'k' => BalOp::Down(k),
                    'i' => BalOp::Insert(k),
                    _ => BalOp::Remove(k),
                });
                i += 2;
            }
            _ => return None,
        }
    }
    Some(out)
}

/// `bal list <endpoints> <script>` / `bal chan - <script>`.
fn run_bal(list: bool, eps: &str, script: &str) -> String {
    let ops = match parse_bal_ops(script) {
        Some(o) => o,
        None => return "bad-case".into(),
    };
    let mut members: Vec<usize> = Vec::new();
    if list {
        for c in eps.chars() {
            match c.to_digit(10) {
                Some(k) if (k as usize) < 3 && !members.contains(&(k as usize)) => members.push(k as usize),
                _ => return "bad-case".into(),
            }
        }
        let bpos = ops.iter().position(|o| *o == BalOp::Build);
        if members.is_empty()
            || ops.iter().filter(|o| **o == BalOp::Build).count() != 1
            || ops.iter().any(|o| matches!(o, BalOp::Insert(_) | BalOp::Remove(_)))
            || ops[..bpos.unwrap_or(0)].contains(&BalOp::Call)
        {
            return "bad-case".into();
        }
    } else if eps != "-" || ops.contains(&BalOp::Build) {
        return "bad-case".into();
    }
    let list_members = members.clone();
    let rt = tokio::runtime::Builder::new_current_thread().enable_all().build().unwrap();
    let out = rt.block_on(async move {
        let (arrived, _arrived_rx) = tokio::sync::mpsc::unbounded_channel::<usize>();
        // per endpoint: port, the socket that keeps the port while nothing listens, generation,
        // accept task, cables of the connections it accepted
        struct Ep {
            port: u16,
            holder: Option<tokio::net::TcpSocket>,
            gen: usize,
            accept: Option<tokio::task::JoinHandle<()>>,
            cables: Cables,
        }
        let mut net: Vec<Ep> = Vec::new();
        for _ in 0..3 {
            let sock = match reserve_tcp(0) {
                Some(s) => s,
                None => return "env:cannot-bind".to_string(),
            };
            let port = sock.local_addr().map(|a| a.port()).unwrap_or(0);
            net.push(Ep { port, holder: Some(sock), gen: 0, accept: None, cables: Arc::new(Mutex::new(Vec::new())) });
        }
        let endpoint_of = |port: u16| tonic::transport::Endpoint::from_shared(format!("http://127.0.0.1:{}", port)).ok();
        let mut client: Option<tonic::client::Grpc<tonic::transport::Channel>> = None;
        let mut tx: Option<tokio::sync::mpsc::Sender<tonic::transport::channel::Change<usize, tonic::transport::Endpoint>>> = None;
        if !list {
            let (channel, sender) = tonic::transport::Channel::balance_channel::<usize>(16);
            client = Some(tonic::client::Grpc::new(channel));
            tx = Some(sender);
        }
        let mut out: Vec<String> = Vec::new();
        for op in ops {
            match op {
                BalOp::Up(k) => {
                    let ep = &mut net[k];
                    if ep.accept.is_some() {
                        continue;
                    }
                    ep.gen += 1;
                    let tag = k * 1000 + ep.gen;
                    let cables = ep.cables.clone();
                    let arrived = arrived.clone();
                    let sock = match ep.holder.take().or_else(|| reserve_tcp(ep.port)) {
                        Some(s) => s,
                        None => return "env:cannot-bind".to_string(),
                    };
                    let listener = match sock.listen(1024) {
                        Ok(l) => l,
                        Err(_) => return "env:cannot-listen".to_string(),
                    };
                    ep.accept = Some(tokio::spawn(async move {
                        while let Ok((stream, _)) = listener.accept().await {
                            let _ = stream.set_nodelay(true);
                            attach_peer(stream, tag, &cables, &arrived);
                        }
                    }));
                }
                BalOp::Down(k) => {
                    let ep = &mut net[k];
                    if let Some(a) = ep.accept.take() {
                        a.abort();
                        let _ = a.await;
                    }
                    let cs: Vec<_> = ep.cables.lock().unwrap().drain(..).collect();
                    for c in cs {
                        c.abort();
                        let _ = c.await;
                    }
                    if ep.holder.is_none() {
                        ep.holder = reserve_tcp(ep.port);
                    }
                    tokio::time::sleep(NET_SETTLE).await;
                }
                BalOp::Build => {
                    let mut es = Vec::new();
                    for k in &list_members {
                        match endpoint_of(net[*k].port) {
                            Some(e) => es.push(e),
                            None => return "env:bad-uri".to_string(),
                        }
                    }
                    let channel = tonic::transport::Channel::balance_list(es.into_iter());
                    client = Some(tonic::client::Grpc::new(channel));
                }
                BalOp::Insert(k) => {
                    let e = match endpoint_of(net[k].port) {
                        Some(e) => e,
                        None => return "env:bad-uri".to_string(),
                    };
                    if let Some(tx) = tx.as_ref() {
                        if tx.send(tonic::transport::channel::Change::Insert(k, e)).await.is_err() {
                            return "env:discover-closed".to_string();
                        }
                    }
                }
                BalOp::Remove(k) => {
                    if let Some(tx) = tx.as_ref() {
                        if tx.send(tonic::transport::channel::Change::Remove(k)).await.is_err() {
                            return "env:discover-closed".to_string();
                        }
                    }
                }
                BalOp::Call => {
                    let client = match client.as_mut() {
                        Some(c) => c,
                        None => break,
                    };
                    let fut = async {
                        client.ready().await.map_err(|e| tonic::Status::from_error(Box::new(e)))?;
                        let path = http::uri::PathAndQuery::from_static("/verif.WhoAmI/Who");
                        client
                            .unary::<Vec<u8>, Vec<u8>, _>(tonic::Request::new(b"hi".to_vec()), path, raw::RawCodec)
                            .await
                            .map(|resp| String::from_utf8_lossy(resp.get_ref()).to_string())
                    };
                    match tokio::time::timeout(BAL_WATCHDOG, fut).await {
                        Err(_) => {
                            out.push("c:hang".into());
                            break;
                        }
                        Ok(Ok(body)) => match body.strip_prefix("hi@").and_then(|g| g.parse::<usize>().ok()) {
                            Some(tag) => out.push(format!("c:resp{}.{}", tag / 1000, tag % 1000)),
                            None => out.push("c:garbled".into()),
                        },
                        Ok(Err(st)) => {
                            if std::env::var("C14_DEBUG").is_ok() {
                                eprintln!("bal call: {:?} {}", st, source_chain(&st));
                            }
                            // the failure of a connection attempt has tonic's ConnectError in its chain;
                            // anything else hit the call on a connection
                            let connect_failure = std::error::Error::source(&st).map(|e| walk(e).split('>').any(|t| t == "C")).unwrap_or(false);
                            if connect_failure {
                                out.push(format!("c:err{}", st.code() as i32));
                            } else {
                                out.push("c:lost".into());
                            }
                        }
                    }
                    // let everything the call left behind settle (refusals, accepted connections)
                    tokio::time::sleep(NET_SETTLE).await;
                }
            }
        }
        out.join(" ")
    });
    drop(rt);
    out
}

pub fn execute(case: &str) -> String {
    let t: Vec<&str> = case.split(' ').collect();
    match t.as_slice() {
        ["unit", m, env, ops] if *m == "L" || *m == "E" => run_unit(*m == "L", env, ops),
        ["sess", m, env, n] if *m == "L" || *m == "E" => match n.parse::<usize>() {
            Ok(n) => run_sess(*m == "L", env, n),
            Err(_) => "bad-case".into(),
        },
        ["e2e", m, outs, ops] if (*m == "L" || *m == "E") && !ops.contains('h') && !ops.contains('A') => run_e2e(*m == "L", outs, ops, true, ""),
        ["e2n", m, outs, ops] if (*m == "L" || *m == "E") && !ops.contains('h') && !ops.contains('A') => run_e2e(*m == "L", outs, ops, false, ""),
        ["e2a", m, outs, ops]
            if (*m == "L" || *m == "E")
                && ops.chars().all(|c| "cdA-".contains(c))
                && outs.chars().all(|c| "FSXfsx-".contains(c)) =>
        {
            run_e2e(*m == "L", outs, ops, true, "")
        }
        ["e2c", m, outs, ops] if (*m == "L" || *m == "E") && !ops.contains('h') && !ops.contains('A') => run_e2e(*m == "L", outs, ops, false, "D"),
        ["e2d", m, et, outs, ops]
            if (*m == "L" || *m == "E")
                && (*et == "-" || et.chars().all(|c| "znslqrykxowb".contains(c)))
                // a silent peer is only noticed with the keep-alive options; a one-slot buffer
                // cannot hold the two requests of `p` the way the harness issues them
                && (!ops.contains('h') || et.contains('k'))
                && !ops.contains('A')
                && !(ops.contains('p') && et.contains('b')) =>
        {
            run_e2e(*m == "L", outs, ops, true, if *et == "-" { "" } else { et })
        }
        ["net", tr, m, script] if c14_x::is_net_ctor(tr) && (*m == "L" || *m == "E") => run_net(tr, *m == "L", script),
        ["bal", "list", eps, script] => run_bal(true, eps, script),
        ["bal", "chan", eps, script] => run_bal(false, eps, script),
        ["cls", chain] => run_cls(chain),
        ["e2x", m, t, cause] if (*m == "L" || *m == "E") && (*t == "t" || *t == "n") => run_e2x(*m == "L", *t == "t", cause),
        _ => "bad-case".into(),
    }
}
