//! C17 — further dimensions (proactive audit aC17; table in reviews/aC17-AUDIT.md).  Included from
//! c17.rs with `#[path]`.
//!
//! Case kinds (events and the optional response head `rp …` as in c17.rs):
//!   clm <modes> [rp <head>] <ev>*   the `cl` execution, reached / consumed another way.  <modes> = letters:
//!        l  the service is built by `GrpcWebClientLayer::new().layer(inner)`
//!        b  … by `tower::ServiceBuilder::new().layer(GrpcWebClientLayer::default()).service(inner)`
//!        c  the service value is cloned and the CLONE makes the call (the original is dropped first)
//!        r  the inner service is not ready at first (`Pending` twice) and panics when it is called
//!           without having answered `Ready` to `poll_ready`: `poll_ready` must be handed down; its
//!           response future is `Pending` once before it answers
//!        s  the response body is consumed through its `Stream` impl (`poll_next`)
//!        n  the inner body's `Data` is a non-contiguous `Buf` (`Chain<Bytes, Bytes>`, cut in the middle)
//!        a  three more polls after the clean end: `again <k>` = how many of them answered `None`
//!        -  nothing special
//!      observed as `cl` (with `a`: `… eos again <k> ae <n>`)
//!   cls <sched> <body> (/ <body>)*  HISTORIES: one service value answers several calls, <body> = [rp <head>] <ev>*.
//!        <sched>: q = every response body is drained before the next call is made;
//!                 i = all calls first, then the bodies are polled round robin, one frame each;
//!                 v = as i, in reverse order;  k = as i, every second call is made by a clone of the service
//!      observed: the `cl` observations of the calls, joined by `/`
//!   clh <hints> [rp <head>] <ev>*   the inner response body GIVES `http_body::Body` hints (c16 `BODY_HINTS`: bit 0 exact
//!        `size_hint`, bit 1 `is_end_stream` once nothing is left) and the hints the RETURNED body gives are recorded:
//!        in front of every frame `q <is_end_stream 0|1> <lower> <upper|inf>` as asked right before the poll that
//!        produced the frame.
//!   sth <hints> <u|s> [rp <head>] <ev>*   `st` with a hinting inner body (tonic's `Body::new` asks `is_end_stream` once)
use super::{block_of, case_of, case_with_head, gen_head, parse_head, trailers_frame, RespHead};
use crate::c16::{all_chunkings, block_on, chunkings, frame, frames_bytes, gen_frames, gen_trailers_valid, header_map, parse_evs, prefix_marks, render_evs, with_pendings, Ev, ScriptBody, BODY_HINTS};
use crate::common::*;
use bytes::{Buf, Bytes};
use http::{Request, Response};
use http_body::{Body, Frame};
use std::collections::VecDeque;
use std::future::Future;
use std::pin::Pin;
use std::sync::{Arc, Mutex};
use std::task::{Context, Poll};
use tower_layer::Layer;
use tower_service::Service;

/// the scripted body with another `Data` type: every chunk as a `Chain` of two `Bytes` (with `split`
/// cut in the middle: `chunk()` shows only the first half)
pub struct ChainBody {
    inner: ScriptBody,
    split: bool,
}

impl Body for ChainBody {
    type Data = bytes::buf::Chain<Bytes, Bytes>;
    type Error = tonic::Status;
    fn poll_frame(mut self: Pin<&mut Self>, cx: &mut Context<'_>) -> Poll<Option<Result<Frame<Self::Data>, tonic::Status>>> {
        let split = self.split;
        Pin::new(&mut self.inner).poll_frame(cx).map(|o| {
            o.map(|r| {
                r.map(|f| {
                    f.map_data(|b: Bytes| {
                        let m = if split { b.len() / 2 } else { b.len() };
                        b.slice(..m).chain(b.slice(m..))
                    })
                })
            })
        })
    }
    fn is_end_stream(&self) -> bool {
        self.inner.is_end_stream()
    }
    fn size_hint(&self) -> http_body::SizeHint {
        self.inner.size_hint()
    }
}

type Queue = Arc<Mutex<VecDeque<(Option<RespHead>, ChainBody)>>>;

/// inner HTTP service: answers the calls with the queued responses, in order.  Clones share the queue;
/// readiness is per value (tower's contract: the value that is called must have answered `Ready`).
pub struct InnerX {
    queue: Queue,
    not_ready: usize,
    ready_seen: bool,
    strict_ready: bool,
    /// the response future is `Pending` once before it answers
    slow: bool,
}

impl Clone for InnerX {
    fn clone(&self) -> Self {
        InnerX { queue: self.queue.clone(), not_ready: self.not_ready, ready_seen: false, strict_ready: self.strict_ready, slow: self.slow }
    }
}

struct YieldOnce(bool);
impl Future for YieldOnce {
    type Output = ();
    fn poll(mut self: Pin<&mut Self>, cx: &mut Context<'_>) -> Poll<()> {
        if self.0 {
            return Poll::Ready(());
        }
        self.0 = true;
        cx.waker().wake_by_ref();
        Poll::Pending
    }
}

impl<B> Service<Request<B>> for InnerX
where
    B: Body + Send + 'static,
{
    type Response = Response<ChainBody>;
    type Error = std::convert::Infallible;
    type Future = Pin<Box<dyn Future<Output = Result<Self::Response, Self::Error>> + Send>>;
    fn poll_ready(&mut self, cx: &mut Context<'_>) -> Poll<Result<(), Self::Error>> {
        if self.not_ready > 0 {
            self.not_ready -= 1;
            cx.waker().wake_by_ref();
            return Poll::Pending;
        }
        self.ready_seen = true;
        Poll::Ready(Ok(()))
    }
    fn call(&mut self, _req: Request<B>) -> Self::Future {
        if self.strict_ready && !self.ready_seen {
            panic!("called before ready");
        }
        self.ready_seen = false;
        let (head, body) = self.queue.lock().unwrap().pop_front().expect("a queued response");
        let slow = self.slow;
        Box::pin(async move {
            if slow {
                YieldOnce(false).await;
            }
            let mut resp = Response::new(body);
            if let Some(h) = head {
                *resp.status_mut() = http::StatusCode::from_u16(h.status).expect("checked");
                *resp.version_mut() = h.version;
                *resp.headers_mut() = header_map(&h.headers).expect("checked");
            }
            Ok(resp)
        })
    }
}

fn request() -> Request<ScriptBody> {
    let mut req = Request::new(ScriptBody::new(vec![]));
    *req.version_mut() = http::Version::HTTP_2;
    req.headers_mut().insert("content-type", http::HeaderValue::from_static("application/grpc"));
    req
}

fn push_frame(o: &mut Vec<String>, fr: Option<Result<Frame<Bytes>, tonic::Status>>) -> bool {
    match fr {
        None => {
            o.push("eos".into());
            true
        }
        Some(Err(_)) => {
            o.push("err".into());
            true
        }
        Some(Ok(frame)) => {
            match frame.into_data() {
                Ok(d) => {
                    o.push("d".into());
                    o.push(hex(&d));
                }
                Err(frame) => match frame.into_trailers() {
                    Ok(t) => super::render_sorted(&t, o),
                    Err(_) => o.push("other".into()),
                },
            }
            false
        }
    }
}

fn head_tokens(parts: &http::response::Parts, o: &mut Vec<String>) {
    o.push("rp".into());
    o.push(parts.status.as_u16().to_string());
    o.push(super::ver_tok(parts.version).into());
    o.push(crate::c16::render_headers_sorted(&parts.headers));
}

type WebBody = tonic_web::GrpcWebCall<ChainBody>;

/// one frame of the body (through `poll_frame`, or `Stream::poll_next`); `hints`: what the body said
/// right before the poll that produced the frame.  `None` = hang (a `Pending` without a wake-up).
fn next_frame(body: &mut Pin<Box<WebBody>>, stream: bool, hints: Option<&mut Vec<String>>) -> Option<Option<Result<Frame<Bytes>, tonic::Status>>> {
    let mut last: Option<(bool, http_body::SizeHint)> = None;
    let want = hints.is_some();
    let r = block_on(std::future::poll_fn(|cx| {
        if want {
            last = Some((body.is_end_stream(), body.size_hint()));
        }
        if stream {
            tokio_stream::Stream::poll_next(body.as_mut(), cx)
        } else {
            body.as_mut().poll_frame(cx)
        }
    }));
    if let (Some(h), Some((e, sh))) = (hints, last) {
        h.push("q".into());
        h.push(if e { "1" } else { "0" }.into());
        h.push(sh.lower().to_string());
        h.push(match sh.upper() {
            Some(u) => u.to_string(),
            None => "inf".into(),
        });
    }
    r
}

struct Run {
    out: Arc<Mutex<Vec<String>>>,
    after_end: Arc<Mutex<usize>>,
}

fn finish(r: std::thread::Result<bool>, run: &Run) -> String {
    let mut fr = run.out.lock().unwrap().clone();
    let ae = *run.after_end.lock().unwrap();
    match r {
        Err(_) => fr.push(if ae > 1000 { "busy".into() } else { "panic".into() }),
        Ok(false) => fr.push("hang".into()),
        Ok(true) => {}
    }
    format!("{} ae {}", fr.join(" "), ae.min(1001))
}

fn run_modes(modes: &str, head: Option<RespHead>, evs: Vec<Ev>, hints: bool) -> String {
    use std::panic::{catch_unwind, AssertUnwindSafe};
    let with_head = head.is_some();
    let has = |c: char| modes.contains(c);
    let sb = ScriptBody::new(evs);
    let run = Run { out: Arc::new(Mutex::new(Vec::new())), after_end: sb.after_end.clone() };
    let queue: Queue = Arc::new(Mutex::new(VecDeque::from(vec![(head, ChainBody { inner: sb, split: has('n') })])));
    let inner = InnerX { queue, not_ready: if has('r') { 2 } else { 0 }, ready_seen: false, strict_ready: true, slow: has('r') };
    let out = run.out.clone();
    let (l, b, c, s, a) = (has('l'), has('b'), has('c'), has('s'), has('a'));
    let r = catch_unwind(AssertUnwindSafe(move || {
        let mut svc: tonic_web::GrpcWebClientService<InnerX> = if l {
            tonic_web::GrpcWebClientLayer::new().layer(inner)
        } else if b {
            tower::ServiceBuilder::new().layer(tonic_web::GrpcWebClientLayer::default()).service(inner)
        } else {
            tonic_web::GrpcWebClientService::new(inner)
        };
        if c {
            let cl = svc.clone();
            drop(svc);
            svc = cl;
        }
        // readiness, then the call
        let ready = block_on(std::future::poll_fn(|cx| Service::<Request<ScriptBody>>::poll_ready(&mut svc, cx)));
        if ready.is_none() {
            return false;
        }
        let Some(res) = block_on(svc.call(request())) else { return false };
        let (parts, body) = res.unwrap().into_parts();
        if with_head {
            head_tokens(&parts, &mut out.lock().unwrap());
        }
        let mut body: Pin<Box<WebBody>> = Box::pin(body);
        loop {
            let mut hs = Vec::new();
            let Some(fr) = next_frame(&mut body, s, if hints { Some(&mut hs) } else { None }) else { return false };
            let mut o = out.lock().unwrap();
            o.extend(hs);
            let clean = fr.is_none();
            if push_frame(&mut o, fr) {
                if a && clean {
                    drop(o);
                    let mut k = 0;
                    for _ in 0..3 {
                        match next_frame(&mut body, s, None) {
                            None => return false,
                            Some(None) => k += 1,
                            Some(Some(_)) => {}
                        }
                    }
                    let mut o = out.lock().unwrap();
                    o.push("again".into());
                    o.push(k.to_string());
                }
                return true;
            }
            if o.len() > 100_000 {
                o.push("runaway".into());
                return true;
            }
        }
    }));
    finish(r, &run)
}

fn split_bodies<'a>(toks: &'a [&'a str]) -> Vec<&'a [&'a str]> {
    toks.split(|t| *t == "/").collect()
}

fn run_history(sched: &str, bodies: Vec<(Option<RespHead>, Vec<Ev>)>) -> String {
    use std::panic::{catch_unwind, AssertUnwindSafe};
    let n = bodies.len();
    let with_head: Vec<bool> = bodies.iter().map(|b| b.0.is_some()).collect();
    let mut runs: Vec<Run> = Vec::new();
    let mut q = VecDeque::new();
    for (head, evs) in bodies {
        let sb = ScriptBody::new(evs);
        runs.push(Run { out: Arc::new(Mutex::new(Vec::new())), after_end: sb.after_end.clone() });
        q.push_back((head, ChainBody { inner: sb, split: false }));
    }
    let outs: Vec<Arc<Mutex<Vec<String>>>> = runs.iter().map(|r| r.out.clone()).collect();
    let inner = InnerX { queue: Arc::new(Mutex::new(q)), not_ready: 0, ready_seen: false, strict_ready: true, slow: sched == "k" };
    let sched = sched.to_string();
    // per call: Ok(true) ended, Ok(false) hang
    let status: Arc<Mutex<Vec<Option<bool>>>> = Arc::new(Mutex::new(vec![None; n]));
    let st2 = status.clone();
    let r = catch_unwind(AssertUnwindSafe(move || {
        let mut svc = tonic_web::GrpcWebClientService::new(inner);
        let call = |svc: &mut tonic_web::GrpcWebClientService<InnerX>, i: usize| -> Option<Pin<Box<WebBody>>> {
            block_on(std::future::poll_fn(|cx| Service::<Request<ScriptBody>>::poll_ready(svc, cx)))?;
            let res = block_on(svc.call(request()))?;
            let (parts, body) = res.unwrap().into_parts();
            if with_head[i] {
                head_tokens(&parts, &mut outs[i].lock().unwrap());
            }
            Some(Box::pin(body))
        };
        let drain_one = |body: &mut Pin<Box<WebBody>>, i: usize| -> Option<bool> {
            let fr = next_frame(body, false, None)?;
            let mut o = outs[i].lock().unwrap();
            Some(push_frame(&mut o, fr) || o.len() > 100_000)
        };
        if sched == "q" {
            for i in 0..n {
                let Some(mut body) = call(&mut svc, i) else {
                    st2.lock().unwrap()[i] = Some(false);
                    continue;
                };
                loop {
                    match drain_one(&mut body, i) {
                        None => {
                            st2.lock().unwrap()[i] = Some(false);
                            break;
                        }
                        Some(true) => {
                            st2.lock().unwrap()[i] = Some(true);
                            break;
                        }
                        Some(false) => {}
                    }
                }
            }
            return;
        }
        let mut live: Vec<(usize, Pin<Box<WebBody>>)> = Vec::new();
        for i in 0..n {
            let b = if sched == "k" && i % 2 == 1 {
                let mut cl = svc.clone();
                call(&mut cl, i)
            } else {
                call(&mut svc, i)
            };
            match b {
                Some(b) => live.push((i, b)),
                None => st2.lock().unwrap()[i] = Some(false),
            }
        }
        if sched == "v" {
            live.reverse();
        }
        while !live.is_empty() {
            let mut keep = Vec::new();
            for (i, mut b) in live {
                match drain_one(&mut b, i) {
                    None => st2.lock().unwrap()[i] = Some(false),
                    Some(true) => st2.lock().unwrap()[i] = Some(true),
                    Some(false) => keep.push((i, b)),
                }
            }
            live = keep;
        }
    }));
    let st = status.lock().unwrap().clone();
    let mut parts = Vec::new();
    for (i, run) in runs.iter().enumerate() {
        let res: std::thread::Result<bool> = match st[i] {
            Some(b) => Ok(b),
            None => {
                if r.is_err() {
                    Err(Box::new(()))
                } else {
                    Ok(false)
                }
            }
        };
        parts.push(finish(res, run));
    }
    parts.join(" / ")
}

pub fn execute(t: &[&str]) -> Option<String> {
    Some(match t {
        ["clm", modes, rest @ ..] => {
            if !modes.chars().all(|c| "lbcrsna-".contains(c)) {
                return Some("bad-case".into());
            }
            let Some((head, evs)) = parse_head(rest) else { return Some("bad-case".into()) };
            let Some(evs) = parse_evs(evs) else { return Some("bad-case".into()) };
            run_modes(modes, head, evs, false)
        }
        ["cls", sched @ ("q" | "i" | "v" | "k"), rest @ ..] => {
            let mut bodies = Vec::new();
            for seg in split_bodies(rest) {
                let Some((head, evs)) = parse_head(seg) else { return Some("bad-case".into()) };
                let Some(evs) = parse_evs(evs) else { return Some("bad-case".into()) };
                bodies.push((head, evs));
            }
            run_history(sched, bodies)
        }
        ["clh", h @ ("0" | "1" | "2" | "3"), rest @ ..] => {
            let Some((head, evs)) = parse_head(rest) else { return Some("bad-case".into()) };
            let Some(evs) = parse_evs(evs) else { return Some("bad-case".into()) };
            BODY_HINTS.with(|c| c.set(h.parse().unwrap()));
            let out = std::panic::catch_unwind(std::panic::AssertUnwindSafe(|| run_modes("-", head, evs, true)));
            BODY_HINTS.with(|c| c.set(0));
            match out {
                Ok(s) => s,
                Err(_) => "panic ae 0".into(),
            }
        }
        ["sth", h @ ("0" | "1" | "2" | "3"), kind @ ("u" | "s"), rest @ ..] => {
            let Some((head, evs)) = parse_head(rest) else { return Some("bad-case".into()) };
            let Some(evs) = parse_evs(evs) else { return Some("bad-case".into()) };
            BODY_HINTS.with(|c| c.set(h.parse().unwrap()));
            let out = std::panic::catch_unwind(std::panic::AssertUnwindSafe(|| super::run_status(kind, head, evs)));
            BODY_HINTS.with(|c| c.set(0));
            match out {
                Ok(s) => s,
                Err(_) => "panic".into(),
            }
        }
        _ => return None,
    })
}

// ---------------------------------------------------------------------------------------------
// generators

/// a response body: message frames, mostly a trailers frame, sometimes cut off / a flipped bit / an
/// inner error / real HTTP trailers; cut into chunks at interesting places, with `Pending`s
fn gen_body(rng: &mut Rng) -> Vec<Ev> {
    let fs = gen_frames(rng, 3, false);
    let tr = gen_trailers_valid(rng);
    let sep: &[u8] = if rng.chance(1, 4) { b": " } else { b":" };
    let mut bytes = frames_bytes(&fs);
    let mlen = bytes.len();
    if rng.chance(9, 10) {
        bytes.extend_from_slice(&trailers_frame(&block_of(&tr, sep)));
    }
    match rng.below(12) {
        0 => {
            let c = rng.below(bytes.len() as u64 + 1) as usize;
            bytes.truncate(c);
        }
        1 => {
            if !bytes.is_empty() {
                let i = rng.below(bytes.len() as u64) as usize;
                bytes[i] ^= 1 << rng.below(8);
            }
        }
        _ => {}
    }
    let mut marks = prefix_marks(&fs);
    for d in 0..=7 {
        marks.push(mlen + d);
    }
    if bytes.len() > 2 {
        marks.push(bytes.len() - 1);
        marks.push(bytes.len() - 2);
    }
    marks.sort();
    marks.dedup();
    let cks = chunkings(&bytes, &marks, rng, 3);
    let ck = cks[rng.below(cks.len() as u64) as usize].clone();
    let dens = *rng.pick(&[0u64, 0, 3, 5]);
    let mut evs = with_pendings(&ck, rng, dens);
    match rng.below(30) {
        0 => evs.push(Ev::Err),
        1 => evs.push(Ev::Trailers(vec![(b"grpc-status".to_vec(), b"5".to_vec())])),
        2 => evs.push(Ev::Pending),
        _ => {}
    }
    evs
}

fn fixed_bodies() -> Vec<Vec<Ev>> {
    let msg = frame(0, &[9, 9]);
    let tf = trailers_frame(b"grpc-status:7\r\ngrpc-message:denied: a%3Ab\r\nx-a:1\r\nx-a:2\r\n");
    let body: Vec<u8> = [msg.clone(), tf.clone()].concat();
    vec![
        vec![Ev::Data(body.clone())],
        vec![Ev::Data(msg.clone()), Ev::Data(tf.clone())],
        vec![Ev::Data(body[..9].to_vec()), Ev::Data(body[9..].to_vec())],
        vec![Ev::Data(body[..3].to_vec()), Ev::Pending, Ev::Data(body[3..].to_vec())],
        body.iter().map(|b| Ev::Data(vec![*b])).collect(),
        vec![Ev::Data(tf.clone())],
        vec![Ev::Data(msg.clone())],
        vec![],
        vec![Ev::Data(body[..body.len() - 3].to_vec())],
        vec![Ev::Data(vec![0, 0, 0])],
        vec![Ev::Data(vec![7, 0, 0, 0, 0])],
        vec![Ev::Data(msg.clone()), Ev::Err],
        vec![Ev::Data(msg.clone()), Ev::Trailers(vec![(b"grpc-status".to_vec(), b"0".to_vec())])],
        vec![Ev::Data(vec![]), Ev::Data(body.clone()), Ev::Data(vec![])],
        vec![Ev::Data([msg.clone(), msg.clone(), frame(1, &[]), tf.clone()].concat())],
    ]
}

const MODES: [&str; 14] = ["-", "l", "b", "c", "r", "s", "n", "a", "lc", "bcr", "sa", "na", "lcrsna", "bn"];

pub fn generate(thorough: bool, rng: &mut Rng, out: &mut Vec<String>) {
    let fixed = fixed_bodies();
    // ---- clm: other ways in, other ways of consuming ------------------------------------------------
    for m in MODES {
        for evs in &fixed {
            out.push(case_of(&format!("clm {}", m), evs));
        }
    }
    let n = if thorough { 3000 } else { 300 };
    for _ in 0..n {
        let m = *rng.pick(&MODES);
        let evs = gen_body(rng);
        if rng.chance(1, 5) {
            let family = *rng.pick(&[0u64, 0, 0, 1, 2]);
            let head = gen_head(rng, family, false);
            out.push(case_with_head(&format!("clm {}", m), &head, &evs));
        } else {
            out.push(case_of(&format!("clm {}", m), &evs));
        }
    }
    // non-contiguous data at sizes beyond the buffer's first capacity
    for sz in [8191usize, 8192, 8193, 20000] {
        let p = crate::c16::big_payload(rng, sz);
        let mut bytes = frame(0, &p);
        bytes.extend_from_slice(&trailers_frame(b"grpc-status:0\r\n"));
        out.push(case_of("clm n", &[Ev::Data(bytes.clone())]));
        out.push(case_of("clm ns", &[Ev::Data(bytes[..sz / 2].to_vec()), Ev::Data(bytes[sz / 2..].to_vec())]));
    }
    // ---- cls: histories -----------------------------------------------------------------------------
    let seg = |head: Option<&RespHead>, evs: &[Ev]| -> String {
        let e = render_evs(evs);
        match head {
            Some(h) => format!("{} {}", super::render_head(h), e).trim().to_string(),
            None => e,
        }
    };
    for sched in ["q", "i", "v", "k"] {
        // the same body twice; a good one after a cut-off one (nothing may be left over); after an error
        out.push(format!("cls {} {} / {}", sched, seg(None, &fixed[0]), seg(None, &fixed[0])));
        out.push(format!("cls {} {} / {}", sched, seg(None, &fixed[8]), seg(None, &fixed[0])));
        out.push(format!("cls {} {} / {} / {}", sched, seg(None, &fixed[9]), seg(None, &fixed[5]), seg(None, &fixed[6])));
        out.push(format!("cls {} {} / {} / {}", sched, seg(None, &fixed[2]), seg(None, &fixed[3]), seg(None, &fixed[4])));
        out.push(format!("cls {} {} / {}", sched, seg(None, &fixed[11]), seg(None, &fixed[1])));
        out.push(format!("cls {} {} / {}", sched, seg(None, &fixed[7]), seg(None, &fixed[0])));
    }
    // a response cut off at every byte (error paths leave bytes in the buffer), then a good one on the same service
    if let Ev::Data(body) = &fixed[0][0] {
        for cut in 0..body.len() {
            if !thorough && cut % 3 != 1 && cut > 12 {
                continue;
            }
            let sched = ["q", "i", "k"][cut % 3];
            let first = vec![Ev::Data(body[..cut].to_vec())];
            out.push(format!("cls {} {} / {}", sched, seg(None, &first), seg(None, &fixed[0])).replace("  ", " "));
            out.push(format!("cls q {} / {} / {}", seg(None, &first), seg(None, &fixed[3]), seg(None, &fixed[5])).replace("  ", " "));
        }
    }
    let n = if thorough { 2000 } else { 200 };
    for _ in 0..n {
        let sched = *rng.pick(&["q", "q", "i", "v", "k"]);
        let k = rng.range(2, 4);
        let mut segs = Vec::new();
        for _ in 0..k {
            let evs = gen_body(rng);
            if rng.chance(1, 4) {
                let family = *rng.pick(&[0u64, 0, 0, 1, 2]);
                let head = gen_head(rng, family, false);
                segs.push(seg(Some(&head), &evs));
            } else {
                segs.push(seg(None, &evs));
            }
        }
        out.push(format!("cls {} {}", sched, segs.join(" / ")));
    }
    // ---- clh / sth: inner bodies that give hints, hints of the returned body ------------------------
    for h in 0..4u8 {
        for evs in &fixed {
            out.push(case_of(&format!("clh {}", h), evs));
        }
        let zero_msgs: Vec<u8> = [frame(0, &[]), trailers_frame(b"grpc-status:0\r\n")].concat();
        out.push(case_of(&format!("clh {}", h), &[Ev::Data(zero_msgs)]));
        for k in ["u", "s"] {
            for i in [0usize, 1, 2, 5, 6, 7, 8, 12] {
                out.push(case_of(&format!("sth {} {}", h, k), &fixed[i]));
            }
        }
    }
    // small-scope: every chunking of a small body (and of its prefixes), with every hint setting
    let small: Vec<u8> = [frame(0, &[7]), trailers_frame(b"a:1\r\n")].concat();
    let max = if thorough { 13 } else { 8 };
    for cut in 0..=small.len() {
        let pre = &small[..cut];
        let cks = if pre.len() <= max { all_chunkings(pre) } else { chunkings(pre, &(1..pre.len()).collect::<Vec<_>>(), rng, 6) };
        for ck in cks {
            let h = rng.below(4);
            let evs: Vec<Ev> = ck.iter().map(|c| Ev::Data(c.clone())).collect();
            out.push(case_of(&format!("clh {}", h), &evs));
        }
    }
    let n = if thorough { 4000 } else { 400 };
    for _ in 0..n {
        let h = rng.range(0, 3);
        let evs = gen_body(rng);
        if rng.chance(1, 6) {
            let family = *rng.pick(&[0u64, 0, 0, 1, 2]);
            let head = gen_head(rng, family, false);
            out.push(case_with_head(&format!("clh {}", h), &head, &evs));
        } else {
            out.push(case_of(&format!("clh {}", h), &evs));
        }
    }
    let n = if thorough { 1000 } else { 100 };
    for _ in 0..n {
        let h = rng.range(0, 3);
        let nf = rng.below(3);
        let fs: Vec<(u8, Vec<u8>)> = (0..nf).map(|_| (0u8, { let l = *rng.pick(&[0usize, 1, 2, 5, 9]); rng.bytes(l) })).collect();
        let tr = super::gen_status_trailers(rng);
        if header_map(&tr).is_none() {
            continue;
        }
        let mut bytes = frames_bytes(&fs);
        let mlen = bytes.len();
        if rng.chance(14, 15) {
            bytes.extend_from_slice(&trailers_frame(&block_of(&tr, b":")));
        }
        if rng.chance(1, 12) {
            let c = rng.below(bytes.len() as u64 + 1) as usize;
            bytes.truncate(c);
        }
        let mut marks = prefix_marks(&fs);
        for d in 0..=6 {
            marks.push(mlen + d);
        }
        let cks = chunkings(&bytes, &marks, rng, 2);
        let ck = cks[rng.below(cks.len() as u64) as usize].clone();
        let evs = with_pendings(&ck, rng, 4);
        out.push(case_of(&format!("sth {} {}", h, if rng.chance(1, 2) { "u" } else { "s" }), &evs));
    }
}
