//! C20 `x` cases (audit aC20): the round trip of c20.rs taken through the other public entry points,
//! value histories and observation paths.  One line:
//!
//!   x <trip> <pre> <obs> <hist> <inner>        inner = a `vec` / `set` / `raw` case of c20.rs
//!
//! trip  how the status crosses the header encoding
//!   ah     `Status::add_header` into an empty `HeaderMap`, `Status::from_header_map`
//!   ahp    `add_header` into a block that already holds `a: pre`, `x-pre: 1`
//!   http   `Status::into_http::<()>()` (a trailers-only response), `from_header_map(response.headers())`
//!   pad    `add_header`, then the peer-side form of another implementation: the base64 text padded with `=`
//!   twice  a proxy: recover the status, `add_header` the recovered status again, recover again
//!   reuse  the same `Status` value written into two maps; the second map is read
//! pre   what happens to the `Status` value between construction and the trip
//!   id | clone (`Status::clone`, original dropped) | box (`Status::from_error(Box::new(st))`) |
//!   try (`Status::try_from_error`) | chain (`from_error` of an error whose `source()` is the status:
//!   `find_status_in_source_chain` copies it) | src (`set_source`, then clone)
//! obs   st = the `StatusExt` methods of the recovered `tonic::Status`;
//!       rpc = `pb::Status::decode(details)` by hand, then the `RpcStatusExt` methods of that value
//! hist  h0 = none;
//!       h1 = vec: the details are handed over as an iterator whose `size_hint` is `(0, None)`-ish (a `filter`);
//!            set: every slot of the `ErrorDetails` held another detail before (`set_*` over an old value);
//!       h2 = the details value is cloned, the clone is attached to another status first, then the value itself
//! metadata of an inner `vec` / `set` head may use reserved names (`grpc-status`, `grpc-message`,
//! `content-type`, and — as a binary key — `grpc-status-details-bin`).
//!
//! Observed: the sections of c20.rs, then
//!   GV <n> <detail>*      get_error_details_vec(), in full
//!   GS <slot>*10          get_error_details(), in full
use super::*;
use std::sync::Arc;
use tonic::metadata::{Ascii, Binary};
use tonic_types::RpcStatusExt;

#[derive(Debug)]
struct Wrap(Box<dyn std::error::Error + Send + Sync + 'static>);
impl std::fmt::Display for Wrap {
    fn fmt(&self, f: &mut std::fmt::Formatter<'_>) -> std::fmt::Result {
        write!(f, "wrapped")
    }
}
impl std::error::Error for Wrap {
    fn source(&self) -> Option<&(dyn std::error::Error + 'static)> {
        Some(&*self.0)
    }
}

fn parse_meta_x(c: &mut Cur) -> Option<MetadataMap> {
    let n = c.num()?;
    let mut m = MetadataMap::new();
    for _ in 0..n {
        let k = c.string()?;
        let v = c.string()?;
        if k.ends_with("-bin") {
            let key: MetadataKey<Binary> = MetadataKey::from_bytes(k.as_bytes()).ok()?;
            m.append_bin(key, MetadataValue::<Binary>::from_bytes(v.as_bytes()));
        } else {
            let key: MetadataKey<Ascii> = MetadataKey::from_bytes(k.as_bytes()).ok()?;
            let val: MetadataValue<Ascii> = MetadataValue::try_from(v.as_str()).ok()?;
            m.append(key, val);
        }
    }
    Some(m)
}

/// an `ErrorDetails` whose ten slots all hold something else
fn junk_set() -> ErrorDetails {
    let mut d = ErrorDetails::new();
    d.set_retry_info(Some(Duration::new(77, 7)))
        .set_debug_info(vec!["old".to_string()], "old")
        .add_quota_failure_violation("old", "old")
        .set_error_info("OLD", "old.example", HashMap::from([("old".to_string(), "1".to_string())]))
        .add_precondition_failure_violation("OLD", "old", "old")
        .add_bad_request_violation("old", "old")
        .set_request_info("old", "old")
        .set_resource_info("old", "old", "old", "old")
        .add_help_link("old", "old")
        .set_localized_message("xx", "old");
    d
}

fn build(c: &mut Cur, hist: &str) -> Option<Status> {
    let kind = c.next()?;
    let code = Code::from_i32(c.num()? as i32);
    let msg = c.string()?;
    match kind {
        "vec" => {
            let _style = c.next()?;
            let meta = parse_meta_x(c)?;
            let n = c.num()?;
            let mut v = Vec::new();
            for _ in 0..n {
                v.push(parse_detail(c)?);
            }
            if !c.done() {
                return None;
            }
            if hist == "h2" {
                let other = Status::with_error_details_vec(Code::Internal, "another status", v.clone());
                let _ = other.check_error_details_vec();
            }
            Some(match (hist, meta.is_empty()) {
                ("h1", true) => Status::with_error_details_vec(code, msg.as_str(), v.into_iter().filter(|_| true)),
                ("h1", false) => {
                    Status::with_error_details_vec_and_metadata(code, msg.as_str(), v.into_iter().filter(|_| true), meta)
                }
                (_, true) => Status::with_error_details_vec(code, msg, v),
                (_, false) => Status::with_error_details_vec_and_metadata(code, msg, v, meta),
            })
        }
        "set" => {
            let style = c.next()?;
            let meta = parse_meta_x(c)?;
            let d = if hist == "h1" {
                // which slots does the case fill?  (dry run on a copy of the cursor)
                let mut probe = Cur { t: c.t.clone(), i: c.i };
                let want = build_set(&mut probe, 0)?;
                let junk = junk_set();
                let mut seed = ErrorDetails::new();
                if want.retry_info().is_some() {
                    seed.set_retry_info(junk.retry_info()?.retry_delay);
                }
                if want.debug_info().is_some() {
                    seed.set_debug_info(vec!["old".to_string()], "old");
                }
                if want.quota_failure().is_some() {
                    seed.add_quota_failure_violation("old", "old");
                }
                if want.error_info().is_some() {
                    seed.set_error_info("OLD", "old.example", junk.error_info()?.metadata.clone());
                }
                if want.precondition_failure().is_some() {
                    seed.add_precondition_failure_violation("OLD", "old", "old");
                }
                if want.bad_request().is_some() {
                    seed.add_bad_request_violation("old", "old");
                }
                if want.request_info().is_some() {
                    seed.set_request_info("old", "old");
                }
                if want.resource_info().is_some() {
                    seed.set_resource_info("old", "old", "old", "old");
                }
                if want.help().is_some() {
                    seed.add_help_link("old", "old");
                }
                if want.localized_message().is_some() {
                    seed.set_localized_message("xx", "old");
                }
                // the old value was in use before it is reconfigured
                let _ = Status::with_error_details(Code::Internal, "another status", seed.clone());
                build_set_from(c, 0, seed)?
            } else {
                build_set(c, match style { "b1" => 1, "b2" => 2, _ => 0 })?
            };
            if !c.done() {
                return None;
            }
            if hist == "h2" {
                let other = Status::with_error_details(Code::Internal, "another status", d.clone());
                let _ = other.check_error_details();
            }
            Some(if meta.is_empty() {
                Status::with_error_details(code, msg, d)
            } else {
                Status::with_error_details_and_metadata(code, msg, d, meta)
            })
        }
        "raw" => {
            let b = c.bytes()?;
            if !c.done() {
                return None;
            }
            Some(Status::with_details(code, msg, b.into()))
        }
        _ => None,
    }
}

fn apply_pre(st: Status, pre: &str) -> Option<Status> {
    Some(match pre {
        "id" => st,
        "clone" => {
            let c = st.clone();
            drop(st);
            c
        }
        "box" => Status::from_error(Box::new(st)),
        "try" => Status::try_from_error(Box::new(st)).ok()?,
        "chain" => Status::from_error(Box::new(Wrap(Box::new(Wrap(Box::new(st)))))),
        "src" => {
            let mut st = st;
            st.set_source(Arc::new(std::io::Error::new(std::io::ErrorKind::Other, "cause")));
            st.clone()
        }
        _ => return None,
    })
}

fn pad_details(hm: &mut HeaderMap) {
    if let Some(v) = hm.get(Status::GRPC_STATUS_DETAILS) {
        let mut b = v.as_bytes().to_vec();
        while b.len() % 4 != 0 {
            b.push(b'=');
        }
        hm.insert(Status::GRPC_STATUS_DETAILS, http::HeaderValue::from_bytes(&b).unwrap());
    }
}

fn apply_trip(st: Status, trip: &str) -> Result<Status, &'static str> {
    let mut hm = HeaderMap::new();
    match trip {
        "ah" => st.add_header(&mut hm).map_err(|_| "hdr-fail-add")?,
        "ahp" => {
            hm.insert("a", http::HeaderValue::from_static("pre"));
            hm.insert("x-pre", http::HeaderValue::from_static("1"));
            st.add_header(&mut hm).map_err(|_| "hdr-fail-add")?
        }
        "http" => {
            let resp = st.into_http::<()>();
            hm = resp.headers().clone();
        }
        "pad" => {
            st.add_header(&mut hm).map_err(|_| "hdr-fail-add")?;
            pad_details(&mut hm);
        }
        "twice" => {
            st.add_header(&mut hm).map_err(|_| "hdr-fail-add")?;
            let mid = Status::from_header_map(&hm).ok_or("hdr-fail-parse")?;
            hm = HeaderMap::new();
            mid.add_header(&mut hm).map_err(|_| "hdr-fail-add")?;
        }
        "reuse" => {
            let mut first = HeaderMap::new();
            st.add_header(&mut first).map_err(|_| "hdr-fail-add")?;
            st.add_header(&mut hm).map_err(|_| "hdr-fail-add")?;
        }
        _ => return Err("bad-case"),
    }
    Status::from_header_map(&hm).ok_or("hdr-fail-parse")
}

fn full_vec(v: &[ErrorDetail]) -> String {
    let mut out = format!(" GV {}", v.len());
    for d in v {
        out.push(' ');
        out.push_str(&render_detail(d));
    }
    out
}

/// the sections of `render_recovered`, computed the other way: decode the embedded
/// google.rpc.Status by hand and ask it (`RpcStatusExt`)
fn render_rpc(st: &Status) -> String {
    let mut out = render_head(st);
    let p = match pb::Status::decode(st.details()) {
        Ok(p) => p,
        Err(_) => {
            // nothing to ask: the caller has an error and no details
            out.push_str(" E err V err S err G - - - - - - - - - - D 0 0 GV 0 GS - - - - - - - - - -");
            return out;
        }
    };
    out.push_str(&format!(" E ok {} {} {}", p.code, hs(&p.message), p.details.len()));
    match p.check_error_details_vec() {
        Ok(v) => {
            out.push_str(&format!(" V ok {}", v.len()));
            for d in &v {
                out.push(' ');
                out.push_str(&render_detail(d));
            }
        }
        Err(_) => out.push_str(" V err"),
    }
    match p.check_error_details() {
        Ok(d) => {
            out.push_str(" S ok ");
            out.push_str(&render_set(&d).0);
        }
        Err(_) => out.push_str(" S err"),
    }
    let g = vec![
        slot(p.get_details_retry_info().as_ref(), r_retry),
        slot(p.get_details_debug_info().as_ref(), r_debug),
        slot(p.get_details_quota_failure().as_ref(), r_quota),
        slot(p.get_details_error_info().as_ref(), r_errinfo),
        slot(p.get_details_precondition_failure().as_ref(), r_prec),
        slot(p.get_details_bad_request().as_ref(), r_badreq),
        slot(p.get_details_request_info().as_ref(), r_reqinfo),
        slot(p.get_details_resource_info().as_ref(), r_resinfo),
        slot(p.get_details_help().as_ref(), r_help),
        slot(p.get_details_localized_message().as_ref(), r_locmsg),
    ];
    out.push_str(" G ");
    out.push_str(&g.join(" "));
    let gv = p.get_error_details_vec();
    let gs = render_set(&p.get_error_details());
    out.push_str(&format!(" D {} {}", gv.len(), gs.1));
    out.push_str(&full_vec(&gv));
    out.push_str(" GS ");
    out.push_str(&gs.0);
    out
}

pub fn execute(case: &str) -> String {
    let mut c = Cur::new(case);
    let (Some("x"), Some(trip), Some(pre), Some(obs), Some(hist)) = (c.next(), c.next(), c.next(), c.next(), c.next())
    else {
        return "bad-case".into();
    };
    if !matches!(hist, "h0" | "h1" | "h2") || !matches!(obs, "st" | "rpc") {
        return "bad-case".into();
    }
    let Some(st) = build(&mut c, hist) else { return "bad-case".into() };
    let Some(st) = apply_pre(st, pre) else { return "bad-case".into() };
    let st = match apply_trip(st, trip) {
        Ok(st) => st,
        Err(e) => return e.into(),
    };
    if obs == "rpc" {
        return render_rpc(&st);
    }
    let mut out = render_recovered(&st);
    out.push_str(&full_vec(&st.get_error_details_vec()));
    out.push_str(" GS ");
    out.push_str(&render_set(&st.get_error_details()).0);
    out
}

// ---------------------------------------------------------------------------------------------
// generator

const TRIPS: [&str; 6] = ["ah", "ahp", "http", "pad", "twice", "reuse"];
const PRES: [&str; 6] = ["id", "clone", "box", "try", "chain", "src"];
const OBS: [&str; 2] = ["st", "rpc"];
const HISTS: [&str; 3] = ["h0", "h1", "h2"];

/// metadata that also uses names the status encoding reserves
fn gen_meta_x(rng: &mut Rng) -> String {
    let names = [
        "x-request-id",
        "grpc-status-details-bin",
        "a",
        "grpc-status",
        "zz-top",
        "grpc-message",
        "content-type",
        "x-pre",
    ];
    let n = rng.range(1, 4) as usize;
    let start = rng.below(names.len() as u64) as usize;
    let mut s = format!("{}", n);
    for i in 0..n {
        let k = names[(start + i) % names.len()];
        let v: String = match k {
            // something that would pass for details / a code / a message if it leaked
            "grpc-status-details-bin" => "ABC".into(),
            "grpc-status" => "0".into(),
            "grpc-message" => "forged".into(),
            _ => (0..rng.range(1, 8)).map(|_| (b'!' + rng.below(90) as u8) as char).collect(),
        };
        s.push_str(&format!(" {} {}", hs(k), hs(&v)));
    }
    s
}

/// replace the metadata of a `vec` / `set` case line
fn with_meta(inner: &str, meta: &str) -> String {
    let t: Vec<&str> = inner.split(' ').collect();
    let n: usize = t[4].parse().unwrap_or(0);
    let mut out: Vec<String> = t[..4].iter().map(|x| x.to_string()).collect();
    out.push(meta.to_string());
    out.extend(t[5 + 2 * n..].iter().map(|x| x.to_string()));
    out.join(" ")
}

fn gen_inner(rng: &mut Rng) -> String {
    match rng.below(10) {
        0..=3 => {
            let c = gen_vec_case(rng);
            if rng.chance(1, 2) { with_meta(&c, &gen_meta_x(rng)) } else { c }
        }
        4..=7 => {
            let c = gen_set_case(rng);
            if rng.chance(1, 2) { with_meta(&c, &gen_meta_x(rng)) } else { c }
        }
        8 => gen_structured_raw(rng, 1).pop().unwrap(),
        _ => {
            let mut m = gen_mutations(rng, 1, 1, false);
            match m.pop() {
                Some(c) => c,
                None => raw_case(&[]),
            }
        }
    }
}

pub fn generate(thorough: bool, rng: &mut Rng) -> Vec<String> {
    let mut out = Vec::new();
    // corpus: each value of each dimension on a fixed set of inner cases — no details at all (the
    // details header is omitted: only here can something else pose as the details), one detail, a
    // repeated kind in an unusual order, a set, a payload beyond 8 KiB, hostile bytes
    let big = hs(&"w".repeat(9000));
    let inners: Vec<String> = vec![
        format!("vec 0 x b0 1 {} {} 0", hs("grpc-status-details-bin"), hs("ABC")),
        format!("set 0 x b0 2 {} {} {} {} - - - - - - - - - -", hs("grpc-status-details-bin"), hs("ABC"), hs("a"), hs("own")),
        format!("vec 3 {} b0 0 1 BR 2 {} {} {} {}", hs("m"), hs("f1"), hs("d1"), hs("f2"), hs("d2")),
        format!(
            "vec 5 {} b0 2 {} {} {} {} 5 LM {} {} HP 1 {} {} LM {} {} RI 0 250000000 HP 0",
            hs("not found: é"), hs("grpc-message"), hs("forged"), hs("a"), hs("own"),
            hs("en"), hs("one"), hs("d"), hs("u"), hs("fr"), hs("deux")
        ),
        format!(
            "set 9 {} b1 1 {} {} RN 5 0 - QF 2 {} {} {} {} EI {} {} 1 {} {} - BR 0 - - HP 1 {} {} -",
            hs("prec"), hs("grpc-status"), hs("0"), hs("s1"), hs("d1"), hs("s2"), hs("d2"),
            hs("R"), hs("dom"), hs("k"), hs("v"), hs("d"), hs("u")
        ),
        format!("vec 13 {} b0 0 1 DI 1 {} {}", hs("big"), big, hs("d")),
        raw_case(&w_status(3, b"m", &[w_any(URLS[9], &w_ld(1, b"en")), w_any(URLS[9], &[0x0a, 0x05, 0x41])])),
        raw_case(&[0x1a, 0x05, 0x0a]),
    ];
    for inner in &inners {
        for t in TRIPS {
            out.push(format!("x {} id st h0 {}", t, inner));
        }
        for p in PRES {
            out.push(format!("x ah {} st h0 {}", p, inner));
        }
        out.push(format!("x ah id rpc h0 {}", inner));
        out.push(format!("x http chain rpc h2 {}", inner));
        for h in HISTS {
            out.push(format!("x ah id st {} {}", h, inner));
        }
    }
    let n = if thorough { 40000 } else { 1500 };
    for _ in 0..n {
        let inner = gen_inner(rng);
        out.push(format!(
            "x {} {} {} {} {}",
            rng.pick(&TRIPS),
            rng.pick(&PRES),
            rng.pick(&OBS),
            rng.pick(&HISTS),
            inner
        ));
    }
    out
}
