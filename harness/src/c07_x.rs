//! C07 audit (aC07): the hostile bodies of `dec` / `pdec` cases offered through
//!   (1) unusual-but-legal `http_body::Body` implementations — `Streaming::new_*` take ANY `B: Body`:
//!       truthful `is_end_stream()` / `size_hint()` hints (hyper's `Incoming` reports `is_end_stream()`
//!       as soon as END_STREAM has been received, i.e. while tonic still holds a truncated frame),
//!       DATA as a NON-CONTIGUOUS `Buf` (`chunk()` shorter than `remaining()`), body errors that are not
//!       a bare `Status` (a `Box<dyn Error>` holding one / an error whose `source()` is one);
//!   (2) consumers that use the other public entry points of `Streaming`: `message()` (one poll of a
//!       fresh future per call: the future is dropped after a `Pending`, as `select!` does) and
//!       `trailers()` (tonic's own drain loop, used by `Grpc::unary` / `client_streaming` /
//!       `map_request_unary`), in any order on the one stream, long after the first error.
//!
//! Case grammar:  xdec <F[.h][.s<k>][.b|.w]> <O(n|m|t)*> <dec|pdec case, see framing.rs>
//!     F flavour: h = truthful hints, s<k> = DATA in segments of k bytes, b = boxed Status, w = wrapped Status,
//!                v = the stream is built by tonic's own layer (`client::Grpc::streaming` for resp*/empty,
//!                    `server::Grpc::streaming` for req) from an `http::Response` / `http::Request` carrying the body
//!     `Ou` (with v): the whole call through `client::Grpc::unary` / `server::Grpc::unary`, tonic's own draining
//!                callers; observed U<pendings>:m<hex> | U<pendings>:e<code>:<cls>
//!     O calls:   n = poll_next, m = one poll of `message()`, t = `trailers().await`
//! Observed: one token per call — n/m: m<hex> | e<code>:<cls> | n | p ;
//!     t: T<pendings>:none | T<pendings>:s<grpc-status|-> | T<pendings>:e<code>:<cls> — then a0|a1.
use crate::common::*;
use crate::framing::*;
use bytes::{Buf, Bytes};
use http::HeaderMap;
use http_body::{Body, Frame, SizeHint};
use std::collections::VecDeque;
use std::future::Future;
use std::pin::Pin;
use std::sync::atomic::{AtomicUsize, Ordering};
use std::sync::Arc;
use std::task::{Context, Poll};
use tokio_stream::Stream;
use tonic::codec::BufferSettings;
use tonic::{Status, Streaming};

#[derive(Clone, Copy, Default)]
pub struct Flavour {
    pub hints: bool,
    pub seg: usize,
    /// 0 = the `Status` itself (boxed by `Into`), 1 = `Box<dyn Error>` made by hand, 2 = wrapped (`source()`)
    pub err: u8,
    /// the `Streaming` is not built by the harness but by tonic's own layer: `client::Grpc::streaming`
    /// (`create_response`) for a response, `server::Grpc::streaming` (`map_request_streaming`) for a request
    pub via: bool,
}

impl Flavour {
    pub fn token(&self) -> String {
        let mut s = "F".to_string();
        if self.hints {
            s.push_str(".h");
        }
        if self.seg > 0 {
            s.push_str(&format!(".s{}", self.seg));
        }
        match self.err {
            1 => s.push_str(".b"),
            2 => s.push_str(".w"),
            _ => {}
        }
        if self.via {
            s.push_str(".v");
        }
        s
    }
    pub fn parse(s: &str) -> Flavour {
        let mut f = Flavour::default();
        for p in s.split('.').skip(1) {
            match p.as_bytes()[0] {
                b'h' => f.hints = true,
                b's' => f.seg = p[1..].parse().unwrap(),
                b'b' => f.err = 1,
                b'w' => f.err = 2,
                b'v' => f.via = true,
                _ => panic!("flavour"),
            }
        }
        f
    }
}

/// A `Buf` made of several non-empty segments: `chunk()` is only the first of them.
pub struct SegBuf {
    segs: VecDeque<Bytes>,
}

impl SegBuf {
    pub fn new(v: Vec<u8>, seg: usize) -> SegBuf {
        let b = Bytes::from(v);
        let mut segs = VecDeque::new();
        if seg == 0 {
            if !b.is_empty() {
                segs.push_back(b);
            }
        } else {
            let mut i = 0;
            while i < b.len() {
                let j = (i + seg).min(b.len());
                segs.push_back(b.slice(i..j));
                i = j;
            }
        }
        SegBuf { segs }
    }
}

impl Buf for SegBuf {
    fn remaining(&self) -> usize {
        self.segs.iter().map(|s| s.len()).sum()
    }
    fn chunk(&self) -> &[u8] {
        self.segs.front().map(|s| &s[..]).unwrap_or(&[])
    }
    fn advance(&mut self, mut cnt: usize) {
        while cnt > 0 {
            let front = self.segs.front_mut().expect("advance past the end");
            if cnt < front.len() {
                front.advance(cnt);
                return;
            }
            cnt -= front.len();
            self.segs.pop_front();
        }
    }
}

#[derive(Debug)]
struct Wrapped(Status);
impl std::fmt::Display for Wrapped {
    fn fmt(&self, f: &mut std::fmt::Formatter<'_>) -> std::fmt::Result {
        write!(f, "transport wrapper")
    }
}
impl std::error::Error for Wrapped {
    fn source(&self) -> Option<&(dyn std::error::Error + 'static)> {
        Some(&self.0)
    }
}

pub struct FlexBody {
    pub evs: VecDeque<BodyEv>,
    pub polls_after_end: Arc<AtomicUsize>,
    pub flv: Flavour,
}

impl Body for FlexBody {
    type Data = SegBuf;
    type Error = Box<dyn std::error::Error + Send + Sync>;
    fn poll_frame(mut self: Pin<&mut Self>, cx: &mut Context<'_>) -> Poll<Option<Result<Frame<SegBuf>, Self::Error>>> {
        let seg = self.flv.seg;
        match self.evs.pop_front() {
            None => {
                self.polls_after_end.fetch_add(1, Ordering::SeqCst);
                Poll::Ready(None)
            }
            Some(BodyEv::Pending) => {
                cx.waker().wake_by_ref();
                Poll::Pending
            }
            Some(BodyEv::Data(v)) => Poll::Ready(Some(Ok(Frame::data(SegBuf::new(v, seg))))),
            Some(BodyEv::Err(c)) => {
                let st = Status::new(tonic::Code::from_i32(c), "user");
                Poll::Ready(Some(Err(match self.flv.err {
                    2 => Box::new(Wrapped(st)),
                    _ => Box::new(st),
                })))
            }
            Some(BodyEv::Trailers(code)) => {
                let mut h = HeaderMap::new();
                h.insert("x-other", "1".parse().unwrap());
                if let Some(c) = code {
                    h.insert("grpc-status", c.to_string().parse().unwrap());
                    h.insert("grpc-message", "user".parse().unwrap());
                }
                Poll::Ready(Some(Ok(Frame::trailers(h))))
            }
        }
    }
    /// truthful: true only when the next `poll_frame` returns `None`
    fn is_end_stream(&self) -> bool {
        self.flv.hints && self.evs.is_empty()
    }
    /// truthful: exactly the DATA bytes still to come (trailers / an error may follow them)
    fn size_hint(&self) -> SizeHint {
        if self.flv.hints {
            SizeHint::with_exact(self.evs.iter().map(|e| if let BodyEv::Data(d) = e { d.len() as u64 } else { 0 }).sum())
        } else {
            SizeHint::default()
        }
    }
}

fn opt_usize(s: &str) -> Option<usize> {
    if s == "none" {
        None
    } else {
        Some(s.parse().unwrap())
    }
}

/// the calls of the case on one stream; stops at the first observation that means "never returns"
fn run_ops<T>(mut stream: Streaming<T>, ops: &str, after: &Arc<AtomicUsize>, ser: impl Fn(&T) -> Vec<u8>) -> Vec<String> {
    let (wakes, waker) = counting_waker(None);
    let mut cx = Context::from_waker(&waker);
    let mut out = Vec::new();
    for op in ops.bytes() {
        let (woken_before, refs_before) = (wakes.count(), Arc::strong_count(&wakes));
        match op {
            b'n' | b'm' => {
                let r: Poll<Option<Result<T, Status>>> = if op == b'n' {
                    Pin::new(&mut stream).poll_next(&mut cx)
                } else {
                    // a fresh `message()` future, polled once and dropped
                    let fut = stream.message();
                    let mut fut = std::pin::pin!(fut);
                    fut.as_mut().poll(&mut cx).map(|r| match r {
                        Ok(Some(m)) => Some(Ok(m)),
                        Ok(None) => None,
                        Err(e) => Some(Err(e)),
                    })
                };
                match r {
                    Poll::Pending if no_wakeup(&wakes, woken_before, refs_before) => {
                        out.push("lost-wakeup".to_string());
                        return out;
                    }
                    Poll::Pending => out.push("p".to_string()),
                    Poll::Ready(None) => out.push("n".to_string()),
                    Poll::Ready(Some(Err(st))) => out.push(st_tok("e", &st)),
                    Poll::Ready(Some(Ok(m))) => out.push(format!("m{}", hexr(&ser(&m)))),
                }
            }
            _ => {
                let mut pend = 0usize;
                let fut = stream.trailers();
                let mut fut = std::pin::pin!(fut);
                loop {
                    let (woken_before, refs_before) = (wakes.count(), Arc::strong_count(&wakes));
                    match fut.as_mut().poll(&mut cx) {
                        Poll::Pending if no_wakeup(&wakes, woken_before, refs_before) => {
                            out.push("lost-wakeup".to_string());
                            return out;
                        }
                        Poll::Pending => {
                            pend += 1;
                            if pend > 1_000_000 {
                                out.push("hang".to_string());
                                return out;
                            }
                        }
                        Poll::Ready(Ok(None)) => {
                            out.push(format!("T{}:none", pend));
                            break;
                        }
                        Poll::Ready(Ok(Some(md))) => {
                            let code = md.get("grpc-status").and_then(|v| v.to_str().ok()).map(|s| s.to_string()).unwrap_or_else(|| "-".into());
                            out.push(format!("T{}:s{}", pend, code));
                            break;
                        }
                        Poll::Ready(Err(st)) => {
                            out.push(format!("T{}:{}", pend, st_tok("e", &st)));
                            break;
                        }
                    }
                    if after.load(Ordering::SeqCst) > 1000 {
                        out.push("busy-loop".into());
                        return out;
                    }
                }
            }
        }
        if after.load(Ordering::SeqCst) > 1000 {
            out.push("busy-loop".into());
            return out;
        }
    }
    out
}

pub fn execute(case: &str) -> String {
    let all: Vec<&str> = case.split(' ').collect();
    if all.len() < 12 || all[0] != "xdec" || !all[2].starts_with('O') {
        return "bad-case".into();
    }
    let flv = Flavour::parse(all[1]);
    let ops = &all[2][1..];
    let t = &all[3..];
    let prost = t[0] == "pdec";
    let enc = parse_enc(t[2]);
    let max = opt_usize(t[3]);
    let buf_size: usize = t[4].parse().unwrap();
    let ev0 = t.iter().position(|x| *x == "EV").expect("EV") + 1;
    let evs: VecDeque<BodyEv> = t[ev0..]
        .iter()
        .map(|e| match e.as_bytes()[0] {
            b'd' => BodyEv::Data(unhexr(&e[1..])),
            b't' => BodyEv::Trailers(if &e[1..] == "none" { None } else { Some(e[1..].parse().unwrap()) }),
            b'e' => BodyEv::Err(e[1..].parse().unwrap()),
            _ => BodyEv::Pending,
        })
        .collect();
    let after = Arc::new(AtomicUsize::new(0));
    let total_data: usize = evs.iter().map(|e| if let BodyEv::Data(d) = e { d.len() } else { 0 }).sum();
    let all_data: Vec<u8> = evs.iter().flat_map(|e| if let BodyEv::Data(d) = e { d.clone() } else { vec![] }).collect();
    let body = FlexBody { evs, polls_after_end: after.clone(), flv };
    let bs = BufferSettings::new(buf_size, 32 * 1024);
    // allocation budget as for `dec` cases (framing.rs)
    let limit = if t[1] == "empty" { 4 * 1024 * 1024 } else { max.unwrap_or(4 * 1024 * 1024) };
    let zpos = t.iter().position(|x| *x == "Z").unwrap();
    let zk: usize = t[zpos + 1].parse().unwrap();
    let max_raw = (0..zk).map(|i| t[zpos + 2 + 2 * i]).filter(|r| *r != "F").map(|r| (r.len() - 1) / 2).max().unwrap_or(0);
    let budget = 64 * (total_data + buf_size) + 1024 * 1024 + 2 * declared_within(&all_data, limit) + 4 * max_raw;
    reset_max_alloc();
    macro_rules! mk {
        ($dec:expr) => {
            if t[1] == "req" {
                Streaming::new_request($dec, body, enc, max)
            } else if t[1] == "empty" {
                Streaming::new_empty($dec, body)
            } else {
                let code: u16 = t[1][4..].parse().unwrap();
                Streaming::new_response($dec, body, http::StatusCode::from_u16(code).unwrap(), enc, max)
            }
        };
    }
    let mut out = if flv.via {
        if prost {
            let codec = tonic::codec::ProstCodec::<prost_types::Any, prost_types::Any>::default();
            via(t[1], enc, max, body, codec, ops, &after, |m: &prost_types::Any| prost::Message::encode_to_vec(m))
        } else {
            via(t[1], enc, max, body, RawViaCodec(bs), ops, &after, |m: &Vec<u8>| m.clone())
        }
    } else if prost {
        // buffer size 8192 is the codec's default: take the decoder the way generated code does
        let dec = if buf_size == 8192 {
            use tonic::codec::Codec;
            tonic::codec::ProstCodec::<prost_types::Any, prost_types::Any>::default().decoder()
        } else {
            tonic::codec::ProstCodec::<prost_types::Any, prost_types::Any>::raw_decoder(bs)
        };
        let stream: Streaming<prost_types::Any> = mk!(dec);
        run_ops(stream, ops, &after, |m| prost::Message::encode_to_vec(m))
    } else {
        let stream: Streaming<Vec<u8>> = mk!(RawDec(bs));
        run_ops(stream, ops, &after, |m| m.clone())
    };
    let biggest = max_alloc();
    out.push(if biggest > budget { "a1".to_string() } else { "a0".to_string() });
    out.join(" ")
}

// ---------- through tonic's own layers ----------

#[derive(Clone, Copy)]
pub struct RawViaCodec(pub BufferSettings);
impl tonic::codec::Codec for RawViaCodec {
    type Encode = Vec<u8>;
    type Decode = Vec<u8>;
    type Encoder = RawEnc;
    type Decoder = RawDec;
    fn encoder(&mut self) -> RawEnc {
        RawEnc(self.0)
    }
    fn decoder(&mut self) -> RawDec {
        RawDec(self.0)
    }
}

/// the peer of `client::Grpc`: answers the one call with the prepared response
struct MockSvc(Option<http::Response<FlexBody>>);
impl tower_service::Service<http::Request<tonic::body::Body>> for MockSvc {
    type Response = http::Response<FlexBody>;
    type Error = Box<dyn std::error::Error + Send + Sync>;
    type Future = std::future::Ready<Result<Self::Response, Self::Error>>;
    fn poll_ready(&mut self, _: &mut Context<'_>) -> Poll<Result<(), Self::Error>> {
        Poll::Ready(Ok(()))
    }
    fn call(&mut self, _req: http::Request<tonic::body::Body>) -> Self::Future {
        std::future::ready(Ok(self.0.take().expect("one call per case")))
    }
}

/// unary handler: remembers the message it was called with and echoes it
struct Echo<M>(Arc<std::sync::Mutex<Option<M>>>);
impl<M: Clone> tonic::server::UnaryService<M> for Echo<M> {
    type Response = M;
    type Future = std::future::Ready<Result<tonic::Response<M>, Status>>;
    fn call(&mut self, request: tonic::Request<M>) -> Self::Future {
        let m = request.into_inner();
        *self.0.lock().unwrap() = Some(m.clone());
        std::future::ready(Ok(tonic::Response::new(m)))
    }
}

/// streaming handler: hands the request stream out to the harness
struct Grab<M>(Arc<std::sync::Mutex<Option<Streaming<M>>>>);
impl<M: Send + 'static> tonic::server::StreamingService<M> for Grab<M> {
    type Response = M;
    type ResponseStream = tokio_stream::Empty<Result<M, Status>>;
    type Future = std::future::Ready<Result<tonic::Response<Self::ResponseStream>, Status>>;
    fn call(&mut self, request: tonic::Request<Streaming<M>>) -> Self::Future {
        *self.0.lock().unwrap() = Some(request.into_inner());
        std::future::ready(Ok(tonic::Response::new(tokio_stream::empty())))
    }
}

/// poll a future to completion with the counting waker; Err = it would never complete
fn drive<F: Future>(fut: F, after: &Arc<AtomicUsize>) -> Result<(F::Output, usize), &'static str> {
    let (wakes, waker) = counting_waker(None);
    let mut cx = Context::from_waker(&waker);
    let mut fut = Box::pin(fut);
    let mut pend = 0usize;
    loop {
        let (woken_before, refs_before) = (wakes.count(), Arc::strong_count(&wakes));
        match fut.as_mut().poll(&mut cx) {
            Poll::Ready(v) => return Ok((v, pend)),
            Poll::Pending if no_wakeup(&wakes, woken_before, refs_before) => return Err("lost-wakeup"),
            Poll::Pending => pend += 1,
        }
        if after.load(Ordering::SeqCst) > 1000 {
            return Err("busy-loop");
        }
        if pend > 1_000_000 {
            return Err("hang");
        }
    }
}

#[allow(clippy::too_many_arguments)]
fn via<C, M>(dir: &str, enc: Option<tonic::codec::CompressionEncoding>, max: Option<usize>, body: FlexBody, codec: C, ops: &str,
             after: &Arc<AtomicUsize>, ser: impl Fn(&M) -> Vec<u8>) -> Vec<String>
where
    C: tonic::codec::Codec<Encode = M, Decode = M> + Send + Sync + 'static,
    M: Clone + Default + Send + Sync + 'static,
{
    let unary = ops == "u";
    let un_tok = |pend: usize, r: Result<M, Status>| match r {
        Ok(m) => format!("U{}:m{}", pend, hexr(&ser(&m))),
        Err(st) => format!("U{}:{}", pend, st_tok("e", &st)),
    };
    if dir == "req" {
        // ---- server side: `server::Grpc` configured as generated code configures it ----
        let mut grpc = tonic::server::Grpc::new(codec);
        if let Some(e) = enc {
            grpc = grpc.accept_compressed(e);
        }
        if let Some(m) = max {
            grpc = grpc.max_decoding_message_size(m);
        }
        let mut rb = http::Request::builder().method("POST").uri("http://h/s/m").header("content-type", "application/grpc").header("te", "trailers");
        if enc.is_some() {
            rb = rb.header("grpc-encoding", enc_name(enc));
        }
        let req = rb.body(body).unwrap();
        if unary {
            let slot = Arc::new(std::sync::Mutex::new(None));
            match drive(grpc.unary(Echo(slot.clone()), req), after) {
                Err(e) => vec![e.to_string()],
                Ok((resp, pend)) => {
                    let seen: Option<M> = slot.lock().unwrap().take();
                    match seen {
                        Some(m) => vec![un_tok(pend, Ok(m))],
                        None => match Status::from_header_map(resp.headers()) {
                            Some(st) => vec![un_tok(pend, Err(st))],
                            None => vec!["via-no-status".to_string()],
                        },
                    }
                }
            }
        } else {
            let slot = Arc::new(std::sync::Mutex::new(None));
            match drive(grpc.streaming(Grab(slot.clone()), req), after) {
                Err(e) => vec![e.to_string()],
                Ok((_resp, _)) => {
                    let got: Option<Streaming<M>> = slot.lock().unwrap().take();
                    match got {
                        Some(stream) => run_ops(stream, ops, after, ser),
                        None => vec!["via-not-called".to_string()],
                    }
                }
            }
        }
    } else {
        // ---- client side: `client::Grpc` over a service that answers with the scripted response ----
        let mut rb = http::Response::builder().header("content-type", "application/grpc");
        if dir == "empty" {
            // Trailers-Only: grpc-status in the response head
            rb = rb.status(200).header("grpc-status", "0");
        } else {
            rb = rb.status(dir[4..].parse::<u16>().unwrap());
            if enc.is_some() {
                rb = rb.header("grpc-encoding", enc_name(enc));
            }
        }
        let resp = rb.body(body).unwrap();
        let mut grpc = tonic::client::Grpc::new(MockSvc(Some(resp)));
        if let Some(e) = enc {
            grpc = grpc.accept_compressed(e);
        }
        if let Some(m) = max {
            grpc = grpc.max_decoding_message_size(m);
        }
        let path = http::uri::PathAndQuery::from_static("/s/m");
        if unary {
            match drive(grpc.unary(tonic::Request::new(M::default()), path, codec), after) {
                Err(e) => vec![e.to_string()],
                Ok((r, pend)) => vec![un_tok(pend, r.map(|r| r.into_inner()))],
            }
        } else {
            let r = drive(grpc.streaming(tonic::Request::new(tokio_stream::empty::<M>()), path, codec), after);
            match r {
                Err(e) => vec![e.to_string()],
                Ok((Err(st), _)) => vec![format!("via-err:{}", st_tok("e", &st))],
                Ok((Ok(resp), _)) => run_ops(resp.into_inner(), ops, after, ser),
            }
        }
    }
}

// ---------- generator ----------

fn npolls_of(line: &str) -> usize {
    line.split(' ').nth(5).unwrap().parse().unwrap()
}

pub fn gen_flavour(rng: &mut Rng) -> Flavour {
    Flavour { hints: rng.chance(1, 2), seg: *rng.pick(&[0usize, 0, 1, 2, 3, 4, 5, 7]), err: rng.below(3) as u8, via: rng.chance(1, 3) }
}

/// the consumer's calls: `n` of them (with `trailers()` draining, later calls find a finished stream)
pub fn gen_ops(rng: &mut Rng, n: usize) -> String {
    let style = rng.below(8);
    let mut s = String::from("O");
    match style {
        0 => s.extend(std::iter::repeat('n').take(n)),
        1 => s.extend(std::iter::repeat('m').take(n)),
        2 => {
            for _ in 0..n {
                s.push(if rng.chance(1, 2) { 'n' } else { 'm' });
            }
        }
        3 => {
            // `trailers()` first, then polls
            s.push('t');
            s.extend(std::iter::repeat('n').take(n.saturating_sub(1)));
        }
        4 => {
            // what `Grpc::unary` / `map_request_unary` do: first message, then `trailers()`; then more calls
            let k = 1 + rng.below(3) as usize;
            s.extend(std::iter::repeat('m').take(k.min(n)));
            s.push('t');
            for _ in 0..n.saturating_sub(k + 1) {
                s.push(*rng.pick(&['n', 'm', 't']));
            }
        }
        _ => {
            // any mixture, `trailers()` now and then
            for _ in 0..n {
                s.push(*rng.pick(&['n', 'n', 'm', 'm', 'm', 't']));
            }
        }
    }
    while s.len() - 1 < n {
        s.push('n');
    }
    s
}

pub fn wrap(flv: Flavour, ops: &str, line: &str) -> String {
    format!("xdec {} {} {}", flv.token(), ops, line)
}

pub fn generate(tier: &str, rng: &mut Rng) -> Vec<String> {
    let thorough = tier == "thorough";
    let mut out = Vec::new();
    // ---- corpus ----
    let h = Flavour { hints: true, seg: 0, err: 0, via: false };
    let hs = Flavour { hints: true, seg: 2, err: 2, via: false };
    for (line, ops) in [
        // a body that reports `is_end_stream()` while tonic holds a truncated frame: still Unexpected EOF
        ("dec req none none 8192 4 Z 0 EV d00000000050102", "Onnnn"),
        ("dec resp200 none none 8192 5 Z 0 EV d000000000109 d000000", "Onnnnn"),
        // exact size 0 and not ended: only trailers to come (seed C16e's shape) — the status is delivered
        ("dec resp200 none none 8192 4 Z 0 EV t5", "Onnnn"),
        ("dec resp200 none none 8192 4 Z 0 EV t5", "Otnnt"),
        ("dec resp200 none none 8192 4 Z 0 EV p t0", "Otnnt"),
        // `trailers()` consumes the stream's error; afterwards everything is quiet
        ("dec req none none 8192 6 Z 0 EV d000000000109 p d0700000000", "Otntmn"),
        ("dec req none none 8192 6 Z 0 EV d000000000109 p d0700000000", "Ommtnt"),
        // unary pattern on a truncated second message
        ("dec resp200 none none 8192 6 Z 0 EV d000000000109 d00000000050102", "Omtnnn"),
        // a body error met by the drain, boxed and wrapped
        ("dec req none none 8192 6 Z 0 EV d000000000109 e14 d000000000108", "Otnnnn"),
        ("dec req none none 8192 6 Z 0 EV d000000000109 e1 d000000000108 t0", "Ottnnt"),
        // trailers mid-stream, data behind them
        ("dec resp200 none none 8192 8 Z 0 EV d000000000109 t0 d000000000108 d07", "Omtmtnnn"),
    ] {
        for f in [Flavour::default(), h, hs, Flavour { via: true, ..h }, Flavour { via: true, ..hs }] {
            out.push(wrap(f, ops, line));
        }
        if !line.contains(" empty ") {
            out.push(wrap(Flavour { via: true, ..Flavour::default() }, "Ou", line));
            out.push(wrap(Flavour { via: true, ..hs }, "Ou", line));
        }
    }
    // ---- every flavour x consumer over the hostile generators of the framing family ----
    let n = if thorough { 12000 } else { 900 };
    for i in 0..n {
        let line = match i % 4 {
            0 | 1 => gen_dec_hostile(rng).line(),
            2 => gen_pdec_hostile(rng).pline(),
            _ => gen_dec_valid(rng, true).line(),
        };
        let mut flv = gen_flavour(rng);
        let mut ops = gen_ops(rng, npolls_of(&line));
        if i % 5 == 4 {
            // the whole call through tonic's own draining callers (`Grpc::unary` on either side)
            flv.via = true;
            ops = "Ou".to_string();
        }
        out.push(wrap(flv, &ops, &line));
    }
    // ---- every truncation point of a few streams, under truthful hints and segmented DATA ----
    for _ in 0..(if thorough { 30 } else { 4 }) {
        let enc = *rng.pick(&ENCS);
        let (bytes, starts, _) = gen_valid_stream(rng, enc, 12);
        for cut in 0..bytes.len() {
            let b = &bytes[..cut];
            let style = rng.below(4);
            let chunks = chunkings(rng, b, &starts, style);
            let pend = rng.chance(1, 3);
            let evs = events_from_chunks(rng, chunks, pend);
            let dir = if rng.chance(1, 2) { "req".to_string() } else { "resp200".to_string() };
            let line = DecCase { dir, enc, max: None, buf_size: *rng.pick(&BUF_SIZES), evs, stream: b.to_vec(), extra_polls: 3 }.line();
            let flv = Flavour { hints: true, seg: *rng.pick(&[0usize, 1, 3]), err: 0, via: rng.chance(1, 4) };
            let ops = if rng.chance(1, 3) { gen_ops(rng, npolls_of(&line)) } else { format!("O{}", "n".repeat(npolls_of(&line))) };
            out.push(wrap(flv, &ops, &line));
        }
    }
    out
}
