//! Pool of generated services (built by `build.rs` with the real tonic-build generator) plus the
//! hand-written scaffolding they are exercised with.  Used by C10 (routing) and C11 (generated
//! client ↔ generated server agreement).
#![allow(dead_code)]
use std::convert::Infallible;
use std::sync::{Arc, Mutex};
use std::task::{Context, Poll};
use tonic::body::Body;
use tonic::server::NamedService;
use tonic::service::{interceptor::InterceptedService, LayerExt, Routes, RoutesBuilder};
use tower_service::Service;

/// Request / response message types of every pool method (distinct on purpose: a generator
/// that swapped them would not compile).
pub type Req = String;
pub type Resp = u32;
pub type OutStream = tonic::codegen::BoxStream<Resp>;

#[derive(Debug, Clone, PartialEq, Eq)]
pub enum Ev {
    /// a request entered the (wrapped) service registered for pool index i
    Enter(usize),
    /// handler of method j of pool service i ran; `usize` = number of request messages seen
    Hit(usize, usize, usize),
}

/// Implements every generated server trait of the pool; records what ran.
#[derive(Clone, Default)]
pub struct Handler {
    pub rec: Arc<Mutex<Vec<Ev>>>,
}

pub fn resp_code(i: usize, j: usize, payload_len: usize) -> Resp {
    (i * 10000 + j * 100 + payload_len.min(99)) as u32
}

impl Handler {
    pub fn enter(&self, i: usize) {
        self.rec.lock().unwrap().push(Ev::Enter(i));
    }
    fn hit(&self, i: usize, j: usize, n: usize) {
        self.rec.lock().unwrap().push(Ev::Hit(i, j, n));
    }
    pub fn events(&self) -> Vec<Ev> {
        self.rec.lock().unwrap().clone()
    }
    pub fn unary(&self, i: usize, j: usize, r: tonic::Request<Req>) -> Result<tonic::Response<Resp>, tonic::Status> {
        self.hit(i, j, 1);
        Ok(tonic::Response::new(resp_code(i, j, r.get_ref().len())))
    }
    pub fn server_streaming(&self, i: usize, j: usize, r: tonic::Request<Req>) -> Result<tonic::Response<OutStream>, tonic::Status> {
        self.hit(i, j, 1);
        let c = resp_code(i, j, r.get_ref().len());
        Ok(tonic::Response::new(Box::pin(tokio_stream::iter(vec![Ok(c), Ok(c + 1_000_000)]))))
    }
    pub async fn client_streaming(&self, i: usize, j: usize, r: tonic::Request<tonic::Streaming<Req>>) -> Result<tonic::Response<Resp>, tonic::Status> {
        let mut s = r.into_inner();
        let (mut n, mut len) = (0, 0);
        while let Some(m) = s.message().await? {
            n += 1;
            len += m.len();
        }
        self.hit(i, j, n);
        Ok(tonic::Response::new(resp_code(i, j, len)))
    }
    pub async fn streaming(&self, i: usize, j: usize, r: tonic::Request<tonic::Streaming<Req>>) -> Result<tonic::Response<OutStream>, tonic::Status> {
        let mut s = r.into_inner();
        let (mut n, mut len) = (0, 0);
        while let Some(m) = s.message().await? {
            n += 1;
            len += m.len();
        }
        self.hit(i, j, n);
        let c = resp_code(i, j, len);
        Ok(tonic::Response::new(Box::pin(tokio_stream::iter(vec![Ok(c), Ok(c + 1_000_000)]))))
    }
}

pub async fn drain(mut s: tonic::Streaming<Resp>) -> Result<Vec<Resp>, tonic::Status> {
    let mut out = Vec::new();
    while let Some(m) = s.message().await? {
        out.push(m);
    }
    Ok(out)
}

/// How a generated server is wrapped before registration.
#[derive(Debug, Clone, Copy, PartialEq, Eq)]
pub enum Wrap {
    /// harness-side pass-through wrapper (NAME forwarded by the harness)
    Probe,
    /// `tonic::service::interceptor::InterceptedService` (NAME forwarded by tonic)
    Icept,
    /// `LayerExt::named_layer` → `tonic::service::Layered` (NAME forwarded by tonic)
    Layer,
    /// `Layered` around `InterceptedService`
    Both,
}

impl Wrap {
    pub const ALL: [Wrap; 4] = [Wrap::Probe, Wrap::Icept, Wrap::Layer, Wrap::Both];
    pub fn token(self) -> &'static str {
        match self {
            Wrap::Probe => "probe",
            Wrap::Icept => "icept",
            Wrap::Layer => "layer",
            Wrap::Both => "both",
        }
    }
    pub fn parse(s: &str) -> Option<Wrap> {
        Wrap::ALL.into_iter().find(|w| w.token() == s)
    }
}

/// Registration API used.
pub enum Reg {
    /// `Routes::new(first).add_service(second)…`
    Routes(Option<Routes>),
    /// `Routes::builder()` / `RoutesBuilder::add_service`
    Builder(RoutesBuilder),
    /// `transport::Server::builder().add_service(first)` then alternately
    /// `Router::add_optional_service(Some(_))` / `Router::add_service(_)`
    Server(tonic::transport::Server, Option<tonic::transport::server::Router>, usize),
}

pub enum Built {
    Routes(Routes),
    Router(tonic::transport::server::Router),
}

impl Reg {
    pub fn new(api: &str) -> Option<Reg> {
        match api {
            "routes" => Some(Reg::Routes(None)),
            "builder" => Some(Reg::Builder(Routes::builder())),
            "server" => Some(Reg::Server(tonic::transport::Server::builder(), None, 0)),
            _ => None,
        }
    }
    /// (the bounds on `RB` make `http::Response<RB>: axum::response::IntoResponse` without
    /// naming axum here)
    fn push<S, RB>(&mut self, svc: S)
    where
        S: Service<http::Request<Body>, Response = http::Response<RB>, Error = Infallible> + NamedService + Clone + Send + Sync + 'static,
        S::Future: Send + 'static,
        RB: http_body::Body<Data = bytes::Bytes> + Send + 'static,
        RB::Error: Into<Box<dyn std::error::Error + Send + Sync>>,
    {
        match self {
            Reg::Routes(r) => {
                *r = Some(match r.take() {
                    None => Routes::new(svc),
                    Some(routes) => routes.add_service(svc),
                })
            }
            Reg::Builder(b) => {
                b.add_service(svc);
            }
            Reg::Server(server, router, k) => {
                *router = Some(match router.take() {
                    None => server.add_service(svc),
                    Some(r) => {
                        if *k % 2 == 1 {
                            r.add_optional_service(Some(svc))
                        } else {
                            r.add_service(svc)
                        }
                    }
                });
                *k += 1;
            }
        }
    }
    pub fn finish(self) -> Built {
        match self {
            Reg::Routes(r) => Built::Routes(r.unwrap_or_default()),
            Reg::Builder(b) => Built::Routes(b.routes()),
            Reg::Server(mut server, router, _) => Built::Router(router.unwrap_or_else(|| server.add_routes(Routes::default()))),
        }
    }
}

/// Pass-through service that records entry.
#[derive(Clone)]
pub struct Probe<S> {
    inner: S,
    i: usize,
    h: Handler,
}

impl<S: NamedService> NamedService for Probe<S> {
    const NAME: &'static str = S::NAME;
}

impl<S, R> Service<R> for Probe<S>
where
    S: Service<R>,
{
    type Response = S::Response;
    type Error = S::Error;
    type Future = S::Future;
    fn poll_ready(&mut self, cx: &mut Context<'_>) -> Poll<Result<(), Self::Error>> {
        self.inner.poll_ready(cx)
    }
    fn call(&mut self, req: R) -> Self::Future {
        self.h.enter(self.i);
        self.inner.call(req)
    }
}

#[derive(Clone)]
pub struct ProbeLayer {
    i: usize,
    h: Handler,
}

impl<S> tower_layer::Layer<S> for ProbeLayer {
    type Service = Probe<S>;
    fn layer(&self, inner: S) -> Probe<S> {
        Probe { inner, i: self.i, h: self.h.clone() }
    }
}

/// Wrap the generated server `svc` (pool index `i`) as requested and register it.
pub fn add_wrapped<S>(reg: &mut Reg, svc: S, i: usize, wrap: Wrap, h: Handler)
where
    S: Service<http::Request<Body>, Response = http::Response<Body>, Error = Infallible> + NamedService + Clone + Send + Sync + 'static,
    S::Future: Send + 'static,
{
    match wrap {
        Wrap::Probe => reg.push(Probe { inner: svc, i, h }),
        Wrap::Icept => reg.push(InterceptedService::new(svc, move |r: tonic::Request<()>| {
            h.enter(i);
            Ok(r)
        })),
        Wrap::Layer => reg.push(ProbeLayer { i, h }.named_layer(svc)),
        Wrap::Both => reg.push(ProbeLayer { i, h }.named_layer(InterceptedService::new(svc, |r: tonic::Request<()>| Ok(r)))),
    }
}

include!(concat!(env!("OUT_DIR"), "/c10_pool.rs"));
