//! Pool of generated services (built by `build.rs` with the real tonic-build generator) plus the
//! hand-written scaffolding they are exercised with.  Used by C10 (routing) and C11 (generated
//! client ↔ generated server agreement).
#![allow(dead_code)]
use std::convert::Infallible;
use std::sync::{Arc, Mutex};
use std::task::{Context, Poll};
use tonic::body::Body;
use tonic::server::NamedService;
use tonic::service::{interceptor::InterceptedService, LayerExt, Routes, RoutesBuilder};
use tower_service::Service;

/// Request / response message types of every pool method (distinct on purpose: a generator
/// that swapped them would not compile).
pub type Req = String;
pub type Resp = u32;
pub type OutStream = tonic::codegen::BoxStream<Resp>;

#[derive(Debug, Clone, PartialEq, Eq)]
pub enum Ev {
    /// a request entered the (wrapped) service registered for pool index i
    Enter(usize),
    /// handler of method j of pool service i ran; `usize` = number of request messages seen
    Hit(usize, usize, usize),
}

/// Implements every generated server trait of the pool; records what ran.
#[derive(Clone, Default)]
pub struct Handler {
    pub rec: Arc<Mutex<Vec<Ev>>>,
}

pub fn resp_code(i: usize, j: usize, payload_len: usize) -> Resp {
    (i * 10000 + j * 100 + payload_len.min(99)) as u32
}

impl Handler {
    pub fn enter(&self, i: usize) {
        self.rec.lock().unwrap().push(Ev::Enter(i));
    }
    fn hit(&self, i: usize, j: usize, n: usize) {
        self.rec.lock().unwrap().push(Ev::Hit(i, j, n));
    }
    pub fn events(&self) -> Vec<Ev> {
        self.rec.lock().unwrap().clone()
    }
    pub fn unary(&self, i: usize, j: usize, r: tonic::Request<Req>) -> Result<tonic::Response<Resp>, tonic::Status> {
        self.hit(i, j, 1);
        Ok(tonic::Response::new(resp_code(i, j, r.get_ref().len())))
    }
    pub fn server_streaming(&self, i: usize, j: usize, r: tonic::Request<Req>) -> Result<tonic::Response<OutStream>, tonic::Status> {
        self.hit(i, j, 1);
        let c = resp_code(i, j, r.get_ref().len());
        Ok(tonic::Response::new(Box::pin(tokio_stream::iter(vec![Ok(c), Ok(c + 1_000_000)]))))
    }
    pub async fn client_streaming(&self, i: usize, j: usize, r: tonic::Request<tonic::Streaming<Req>>) -> Result<tonic::Response<Resp>, tonic::Status> {
        let mut s = r.into_inner();
        let (mut n, mut len) = (0, 0);
        while let Some(m) = s.message().await? {
            n += 1;
            len += m.len();
        }
        self.hit(i, j, n);
        Ok(tonic::Response::new(resp_code(i, j, len)))
    }
    pub async fn streaming(&self, i: usize, j: usize, r: tonic::Request<tonic::Streaming<Req>>) -> Result<tonic::Response<OutStream>, tonic::Status> {
        let mut s = r.into_inner();
        let (mut n, mut len) = (0, 0);
        while let Some(m) = s.message().await? {
            n += 1;
            len += m.len();
        }
        self.hit(i, j, n);
        let c = resp_code(i, j, len);
        Ok(tonic::Response::new(Box::pin(tokio_stream::iter(vec![Ok(c), Ok(c + 1_000_000)]))))
    }
}

pub async fn drain(mut s: tonic::Streaming<Resp>) -> Result<Vec<Resp>, tonic::Status> {
    let mut out = Vec::new();
    while let Some(m) = s.message().await? {
        out.push(m);
    }
    Ok(out)
}

/// How a generated server is wrapped before registration.
#[derive(Debug, Clone, Copy, PartialEq, Eq)]
pub enum Wrap {
    /// harness-side pass-through wrapper (NAME forwarded by the harness)
    Probe,
    /// `tonic::service::interceptor::InterceptedService` (NAME forwarded by tonic)
    Icept,
    /// `LayerExt::named_layer` → `tonic::service::Layered` (NAME forwarded by tonic)
    Layer,
    /// `Layered` around `InterceptedService`
    Both,
    /// `InterceptedService` whose interceptor returns a fresh `Request::new(())`
    IceptFresh,
    /// … clears the extensions and puts unrelated values of its own there
    IceptClear,
    /// … plants an `http::Uri` (the path of the service's *last* method) and an `http::Method`
    /// of its own in the extensions
    IceptUri,
    /// … throws the metadata away and writes its own (among it the path of the last method)
    IceptMeta,
}

impl Wrap {
    pub const ALL: [Wrap; 4] = [Wrap::Probe, Wrap::Icept, Wrap::Layer, Wrap::Both];
    /// interceptors that do not hand back the request they were given
    pub const REWRITING: [Wrap; 4] = [Wrap::IceptFresh, Wrap::IceptClear, Wrap::IceptUri, Wrap::IceptMeta];
    pub fn token(self) -> &'static str {
        match self {
            Wrap::Probe => "probe",
            Wrap::Icept => "icept",
            Wrap::Layer => "layer",
            Wrap::Both => "both",
            Wrap::IceptFresh => "icept-fresh",
            Wrap::IceptClear => "icept-clear",
            Wrap::IceptUri => "icept-uri",
            Wrap::IceptMeta => "icept-meta",
        }
    }
    pub fn parse(s: &str) -> Option<Wrap> {
        Wrap::ALL.into_iter().chain(Wrap::REWRITING).find(|w| w.token() == s)
    }
}

/// Registration API used.
pub enum Reg {
    /// `Routes::new(first).add_service(second)…`
    Routes(Option<Routes>),
    /// `Routes::builder()` / `RoutesBuilder::add_service`
    Builder(RoutesBuilder),
    /// `transport::Server::builder().add_service(first)` then alternately
    /// `Router::add_optional_service(Some(_))` / `Router::add_service(_)`
    Server(tonic::transport::Server, Option<tonic::transport::server::Router>, usize),
    /// a scripted construction (`plan` cases): the value built so far and the call the next
    /// service goes through
    Plan(Plan),
}

/// The value a `plan` case has built so far.
pub enum St {
    Empty,
    Routes(Routes),
    Builder(RoutesBuilder),
    Server(tonic::transport::server::Router),
}

/// Which call registers the next service.
#[derive(Clone, Copy, PartialEq, Eq)]
pub enum How {
    /// `Routes::new(svc)`
    New,
    /// `Server::builder().add_service(svc)`
    SrvAdd,
    /// `Server::builder().add_optional_service(Some(svc))`
    SrvOpt,
    /// `add_service(svc)` of whatever is being built
    Add,
    /// `Router::add_optional_service(Some(svc))` (on `Routes` / `RoutesBuilder`: `add_service`)
    Opt,
}

pub struct Plan {
    pub st: St,
    pub how: How,
    server: tonic::transport::Server,
}

fn plain(status: u16) -> http::Response<axum::body::Body> {
    http::Response::builder().status(status).header("content-type", "text/plain").body(axum::body::Body::empty()).unwrap()
}
async fn user_route() -> http::Response<axum::body::Body> {
    plain(200)
}
async fn user_fallback() -> http::Response<axum::body::Body> {
    plain(418)
}

/// A router as a user would make it: `own_fallback` — with a fallback of his own;
/// `routes` — with two plain routes (one of them below the name of pool service `a.S`).
pub fn user_router(own_fallback: bool, routes: bool) -> axum::Router {
    let mut r = axum::Router::new();
    if routes {
        r = r.route("/u/hello", axum::routing::any(user_route)).route("/a.S/Own", axum::routing::any(user_route));
    }
    if own_fallback {
        r = r.fallback(user_fallback);
    }
    r
}

impl Plan {
    /// the first call, for the starts that take no service
    pub fn start(tok: &str) -> Option<Plan> {
        let mut server = tonic::transport::Server::builder();
        let t: Vec<&str> = tok.split(':').collect();
        let (st, how) = match t.as_slice() {
            ["new", _] => (St::Empty, How::New),
            ["srv", _] => (St::Empty, How::SrvAdd),
            ["srvopt", _] => (St::Empty, How::SrvOpt),
            ["default"] => (St::Routes(Routes::default()), How::Add),
            ["builder"] => (St::Builder(Routes::builder()), How::Add),
            ["axum", fb, u] => (St::Routes(Routes::from(user_router(*fb == "own", *u == "1"))), How::Add),
            ["baxum", fb, u] => (St::Builder(RoutesBuilder::from(user_router(*fb == "own", *u == "1"))), How::Add),
            ["srvnone"] => (St::Server(server.add_optional_service(None::<AnyServer>)), How::Add),
            _ => return None,
        };
        Some(Plan { st, how, server })
    }
    /// every later call that takes no service; a call the value at hand does not offer is skipped
    pub fn apply(&mut self, op: &str) -> Option<()> {
        let st = std::mem::replace(&mut self.st, St::Empty);
        self.st = match (op, st) {
            ("none", St::Server(r)) => St::Server(r.add_optional_service(None::<AnyServer>)),
            ("prepare", St::Routes(r)) => St::Routes(r.prepare()),
            ("axum", St::Routes(r)) => St::Routes(Routes::from(r.into_axum_router())),
            ("uroute", St::Routes(mut r)) => {
                let ar = r.axum_router_mut();
                *ar = std::mem::take(ar).route("/u/late", axum::routing::any(user_route));
                St::Routes(r)
            }
            ("tobuilder", St::Routes(r)) => St::Builder(RoutesBuilder::from(r)),
            ("tobuilder-axum", St::Routes(r)) => St::Builder(RoutesBuilder::from(r.into_axum_router())),
            ("routes", St::Builder(b)) => St::Routes(b.routes()),
            ("serve", St::Routes(r)) => St::Server(self.server.add_routes(r)),
            ("serve", St::Builder(b)) => St::Server(self.server.add_routes(b.routes())),
            ("none" | "prepare" | "axum" | "uroute" | "tobuilder" | "tobuilder-axum" | "routes" | "serve", st) => st,
            _ => return None,
        };
        Some(())
    }
}

pub enum Built {
    Routes(Routes),
    Router(tonic::transport::server::Router),
}

impl Reg {
    pub fn new(api: &str) -> Option<Reg> {
        match api {
            "routes" => Some(Reg::Routes(None)),
            "builder" => Some(Reg::Builder(Routes::builder())),
            "server" => Some(Reg::Server(tonic::transport::Server::builder(), None, 0)),
            _ => None,
        }
    }
    /// (the bounds on `RB` make `http::Response<RB>: axum::response::IntoResponse` without
    /// naming axum here)
    fn push<S, RB>(&mut self, svc: S)
    where
        S: Service<http::Request<Body>, Response = http::Response<RB>, Error = Infallible> + NamedService + Clone + Send + Sync + 'static,
        S::Future: Send + 'static,
        RB: http_body::Body<Data = bytes::Bytes> + Send + 'static,
        RB::Error: Into<Box<dyn std::error::Error + Send + Sync>>,
    {
        match self {
            Reg::Routes(r) => {
                *r = Some(match r.take() {
                    None => Routes::new(svc),
                    Some(routes) => routes.add_service(svc),
                })
            }
            Reg::Builder(b) => {
                b.add_service(svc);
            }
            Reg::Server(server, router, k) => {
                *router = Some(match router.take() {
                    None => server.add_service(svc),
                    Some(r) => {
                        if *k % 2 == 1 {
                            r.add_optional_service(Some(svc))
                        } else {
                            r.add_service(svc)
                        }
                    }
                });
                *k += 1;
            }
            Reg::Plan(p) => {
                let st = std::mem::replace(&mut p.st, St::Empty);
                p.st = match (p.how, st) {
                    (How::New, _) => St::Routes(Routes::new(svc)),
                    (How::SrvAdd, _) => St::Server(p.server.add_service(svc)),
                    (How::SrvOpt, _) => St::Server(p.server.add_optional_service(Some(svc))),
                    (_, St::Empty) => St::Routes(Routes::default().add_service(svc)),
                    (_, St::Routes(r)) => St::Routes(r.add_service(svc)),
                    (_, St::Builder(mut b)) => {
                        b.add_service(svc);
                        St::Builder(b)
                    }
                    (How::Opt, St::Server(r)) => St::Server(r.add_optional_service(Some(svc))),
                    (_, St::Server(r)) => St::Server(r.add_service(svc)),
                };
            }
        }
    }
    pub fn finish(self) -> Built {
        match self {
            Reg::Routes(r) => Built::Routes(r.unwrap_or_default()),
            Reg::Builder(b) => Built::Routes(b.routes()),
            Reg::Server(mut server, router, _) => Built::Router(router.unwrap_or_else(|| server.add_routes(Routes::default()))),
            Reg::Plan(p) => match p.st {
                St::Empty => Built::Routes(Routes::default()),
                St::Routes(r) => Built::Routes(r),
                St::Builder(b) => Built::Routes(b.routes()),
                St::Server(r) => Built::Router(r),
            },
        }
    }
}

/// Pass-through service that records entry.
#[derive(Clone)]
pub struct Probe<S> {
    inner: S,
    i: usize,
    h: Handler,
}

impl<S: NamedService> NamedService for Probe<S> {
    const NAME: &'static str = S::NAME;
}

impl<S, R> Service<R> for Probe<S>
where
    S: Service<R>,
{
    type Response = S::Response;
    type Error = S::Error;
    type Future = S::Future;
    fn poll_ready(&mut self, cx: &mut Context<'_>) -> Poll<Result<(), Self::Error>> {
        self.inner.poll_ready(cx)
    }
    fn call(&mut self, req: R) -> Self::Future {
        self.h.enter(self.i);
        self.inner.call(req)
    }
}

#[derive(Clone)]
pub struct ProbeLayer {
    i: usize,
    h: Handler,
}

impl<S> tower_layer::Layer<S> for ProbeLayer {
    type Service = Probe<S>;
    fn layer(&self, inner: S) -> Probe<S> {
        Probe { inner, i: self.i, h: self.h.clone() }
    }
}

/// Wrap the generated server `svc` (pool index `i`) as requested and register it.
pub fn add_wrapped<S>(reg: &mut Reg, svc: S, i: usize, wrap: Wrap, h: Handler)
where
    S: Service<http::Request<Body>, Response = http::Response<Body>, Error = Infallible> + NamedService + Clone + Send + Sync + 'static,
    S::Future: Send + 'static,
{
    match wrap {
        Wrap::Probe => reg.push(Probe { inner: svc, i, h }),
        Wrap::Icept => reg.push(InterceptedService::new(svc, move |r: tonic::Request<()>| {
            h.enter(i);
            Ok(r)
        })),
        Wrap::Layer => reg.push(ProbeLayer { i, h }.named_layer(svc)),
        Wrap::Both => reg.push(ProbeLayer { i, h }.named_layer(InterceptedService::new(svc, |r: tonic::Request<()>| Ok(r)))),
        Wrap::IceptFresh => reg.push(InterceptedService::new(svc, move |_r: tonic::Request<()>| {
            h.enter(i);
            Ok(tonic::Request::new(()))
        })),
        Wrap::IceptClear => reg.push(InterceptedService::new(svc, move |mut r: tonic::Request<()>| {
            h.enter(i);
            r.extensions_mut().clear();
            r.extensions_mut().insert(7u32);
            r.extensions_mut().insert(String::from("/a.S/Mx"));
            Ok(r)
        })),
        Wrap::IceptUri => reg.push(InterceptedService::new(svc, move |mut r: tonic::Request<()>| {
            h.enter(i);
            r.extensions_mut().insert(http::Uri::try_from(last_method_path(i)).unwrap());
            r.extensions_mut().insert(http::Method::GET);
            Ok(r)
        })),
        Wrap::IceptMeta => reg.push(InterceptedService::new(svc, move |mut r: tonic::Request<()>| {
            h.enter(i);
            r.metadata_mut().clear();
            r.metadata_mut().insert("x-forwarded-uri", last_method_path(i).parse().unwrap());
            r.metadata_mut().insert("content-type", "application/grpc+other".parse().unwrap());
            Ok(r)
        })),
    }
}

/// `/<full name>/<last method>` of pool service `i`
pub fn last_method_path(i: usize) -> String {
    let (pkg, name, ms) = POOL[i];
    let m = ms.last().map(|x| x.0).unwrap_or("");
    if pkg.is_empty() || !POOL_EMIT[i] {
        format!("/{name}/{m}")
    } else {
        format!("/{pkg}.{name}/{m}")
    }
}

include!(concat!(env!("OUT_DIR"), "/c10_pool.rs"));
