//! C15 — `resume <sops A> <sops B>`: two tonic servers in ONE process (same certificate, different client-auth
//! settings: a public TLS port and an mTLS admin port) and a client that does its own TLS with ONE rustls
//! `ClientConfig` - so it offers server B the session it got from server A.  A resumed session skips the
//! client-certificate request: were the two servers to share a session store (seed C15g: one process-wide cache
//! "so that rebuilding the TLS configuration does not throw resumable sessions away"), an anonymous client that has
//! talked to A would be served by B.  Observed: `a:<ok|refused> b:<ok|refused> fresh:<ok|refused>` - the health
//! `Check` through A, then through B with the same client configuration, then through B with a fresh one.
use super::*;

fn server_cfg(sops: &str) -> Option<ServerTlsConfig> {
    let mut cfg = ServerTlsConfig::new().identity(Identity::from_pem(cert_pem("s1good")?, key_pem("s1good")?));
    if sops != "-" {
        for op in sops.split('+') {
            if let Some(n) = op.strip_prefix("ca:") {
                cfg = cfg.client_ca_root(Certificate::from_pem(cert_pem(n)?));
            } else if let Some(b) = op.strip_prefix("opt:") {
                cfg = cfg.client_auth_optional(b == "1");
            } else {
                return None;
            }
        }
    }
    Some(cfg)
}

type Offer = tokio::sync::mpsc::Sender<tokio::io::DuplexStream>;

fn start_server(cfg: ServerTlsConfig) -> Option<Offer> {
    let (tx, rx) = tokio::sync::mpsc::channel::<tokio::io::DuplexStream>(8);
    let (_reporter, health) = tonic_health::server::health_reporter();
    let mut builder = tonic::transport::Server::builder().tls_config(cfg).ok()?;
    let router = builder.add_service(health);
    tokio::spawn(async move {
        let _keep = _reporter;
        let _ = router.serve_with_incoming(rx_stream(rx)).await;
    });
    Some(tx)
}

fn client_cfg() -> Option<Arc<rustls::ClientConfig>> {
    let provider = Arc::new(rustls::crypto::ring::default_provider());
    let mut roots = rustls::RootCertStore::empty();
    for d in ders(cert_pem("ca1")?) {
        roots.add(CertificateDer::from(d)).ok()?;
    }
    let mut cfg = rustls::ClientConfig::builder_with_provider(provider)
        .with_safe_default_protocol_versions()
        .ok()?
        .with_root_certificates(roots)
        .with_no_client_auth();
    cfg.alpn_protocols = vec![b"h2".to_vec()];
    Some(Arc::new(cfg))
}

async fn check(offer: &Offer, cfg: Arc<rustls::ClientConfig>) -> &'static str {
    let offer = offer.clone();
    let connector = tower::service_fn(move |_: http::Uri| {
        let offer = offer.clone();
        let cfg = cfg.clone();
        async move {
            let (cli, srv) = tokio::io::duplex(64 * 1024);
            offer.send(srv).await.map_err(|_| io::Error::new(io::ErrorKind::ConnectionRefused, "server gone"))?;
            let name = rustls::pki_types::ServerName::try_from("good.test").map_err(|e| io::Error::new(io::ErrorKind::InvalidInput, e))?;
            let tls = tokio_rustls::TlsConnector::from(cfg).connect(name, cli).await?;
            Ok::<_, io::Error>(hyper_util::rt::TokioIo::new(tls))
        }
    });
    let ch = match Endpoint::from_static("http://good.test").connect_with_connector(connector).await {
        Ok(ch) => ch,
        Err(_) => return "refused",
    };
    let mut client = tonic_health::pb::health_client::HealthClient::new(ch);
    let r = tokio::time::timeout(Duration::from_secs(60), client.check(tonic_health::pb::HealthCheckRequest { service: String::new() })).await;
    match r {
        Ok(Ok(_)) => "ok",
        Ok(Err(_)) => "refused",
        Err(_) => "hang",
    }
}

pub fn execute_resume(case: &str) -> String {
    let t: Vec<&str> = case.split(' ').collect();
    if t.len() != 3 || t[0] != "resume" {
        return "bad-case".into();
    }
    let (Some(cfg_a), Some(cfg_b)) = (server_cfg(t[1]), server_cfg(t[2])) else {
        return "bad-case".into();
    };
    let rt = tokio::runtime::Builder::new_current_thread().enable_all().build().unwrap();
    let out = rt.block_on(async move {
        let (Some(a), Some(b)) = (start_server(cfg_a), start_server(cfg_b)) else {
            return "server-config-unusable".to_string();
        };
        let (Some(shared), Some(fresh)) = (client_cfg(), client_cfg()) else {
            return "harness-error".to_string();
        };
        let ra = check(&a, shared.clone()).await;
        // a second session through A, so that a ticket / session id is certainly stored
        let _ = check(&a, shared.clone()).await;
        let rb = check(&b, shared).await;
        let rf = check(&b, fresh).await;
        format!("a:{} b:{} fresh:{}", ra, rb, rf)
    });
    drop(rt);
    out
}

pub fn generate_resume(out: &mut Vec<String>) {
    for a in ["-", "ca:ca1+opt:1", "ca:ca2+opt:1"] {
        for b in ["ca:ca1", "ca:ca1+opt:0", "ca:ca2", "ca:ca1+opt:1", "-"] {
            out.push(format!("resume {} {}", a, b));
        }
    }
}
