//! C08, case kind `eops`: operation sequences on one `MetadataMap` through the whole entry API
//! (`entry` / `entry_bin` with every key type, `Entry`, `VacantEntry`, `OccupiedEntry`, `GetAll`
//! from both ends).
//!
//! What is printed as the category (`A` / `B`) of a key, a value or an entry handle is the
//! *static* Rust type tonic handed out: the printing traits below are implemented once for the
//! `Ascii` and once for the `Binary` instantiation of each type, and the compiler picks the
//! implementation from the type the API returned — not this file.  (`ValueEncoding` itself is not
//! exported by tonic, so the code is instantiated by macro rather than written generically.)
use crate::c04::{parse_entries, render_map};
use crate::common::*;
use tonic::metadata::{Ascii, Binary, Entry, MetadataKey, MetadataMap, MetadataValue, OccupiedEntry};

#[derive(Clone, Debug)]
pub enum OccOp {
    Key,
    Get,
    GetMut,
    Insert(Vec<u8>),
    InsertMult(Vec<u8>),
    Append(Vec<u8>),
    Iter,
    IterMut,
    IntoIter,
    IntoMut,
    Remove,
    RemoveEntry,
    RemoveEntryMult,
}

#[derive(Clone, Debug)]
pub enum VacOp {
    Nothing,
    Key,
    IntoKey,
    Insert(Vec<u8>),
    InsertEntry(Vec<u8>),
}

#[derive(Clone, Debug)]
pub enum Use {
    OrInsert(Vec<u8>),
    OrInsertWith(Vec<u8>),
    Branch(VacOp, Vec<OccOp>),
}

pub trait ShowKey {
    fn show(&self, api: &str) -> String;
}
pub trait ShowVal {
    fn show(&self, api: &str, name: &str) -> String;
    fn wrote(&self, name: &str, raw: &[u8]) -> String;
}
/// an `OccupiedEntry<'_, VE>` of either encoding
pub trait OccHandle {
    fn show_key(&self, api: &str) -> String;
    fn run(self, ops: &[OccOp], out: &mut Vec<String>);
}
/// the calls that exist once per encoding (`x` / `x_bin`)
pub trait EncOps {
    /// `None`: the case asks for a string key that is not UTF-8 / an unknown key form
    fn entry_op(m: &mut MetadataMap, kf: &str, key: &[u8], u: &Use, out: &mut Vec<String>) -> Option<()>;
    fn ga_op(m: &MetadataMap, kf: &str, key: &[u8], out: &mut Vec<String>) -> Option<()>;
    fn ins_op(m: &mut MetadataMap, key: &[u8], raw: &[u8], append: bool, out: &mut Vec<String>);
    fn rm_op(m: &mut MetadataMap, key: &str, out: &mut Vec<String>);
}

macro_rules! impl_enc {
    ($ve:ty, $tag:expr, $mk:expr, $entry:ident, $get_all:ident, $insert:ident, $append:ident, $remove:ident) => {
        impl ShowKey for MetadataKey<$ve> {
            fn show(&self, api: &str) -> String {
                format!("k:{}:{}:{}", api, $tag, hex(self.as_str().as_bytes()))
            }
        }
        impl ShowVal for MetadataValue<$ve> {
            fn show(&self, api: &str, name: &str) -> String {
                let d = self.to_bytes().map(|b| hex(&b)).unwrap_or_else(|_| "!".into());
                format!("v:{}:{}:{}:{}:{}", api, $tag, hex(name.as_bytes()), hex(self.as_encoded_bytes()), d)
            }
            fn wrote(&self, name: &str, raw: &[u8]) -> String {
                format!("w:{}:{}:{}:{}", $tag, hex(name.as_bytes()), hex(raw), hex(self.as_encoded_bytes()))
            }
        }
        impl<'a> OccHandle for OccupiedEntry<'a, $ve> {
            fn show_key(&self, api: &str) -> String {
                self.key().show(api)
            }
            fn run(mut self, ops: &[OccOp], out: &mut Vec<String>) {
                let mk = $mk;
                let name = self.key().as_str().to_string();
                for op in ops {
                    match op {
                        OccOp::Key => out.push(self.key().show("okey")),
                        OccOp::Get => out.push(self.get().show("get", &name)),
                        OccOp::GetMut => {
                            let v: &mut MetadataValue<$ve> = self.get_mut();
                            out.push(v.show("getmut", &name))
                        }
                        OccOp::Insert(raw) => match mk(raw) {
                            None => out.push("n:valerr".into()),
                            Some(v) => {
                                out.push(v.wrote(&name, raw));
                                let old = self.insert(v);
                                out.push(old.show("oinsert", &name));
                            }
                        },
                        OccOp::InsertMult(raw) => match mk(raw) {
                            None => out.push("n:valerr".into()),
                            Some(v) => {
                                out.push(v.wrote(&name, raw));
                                let old: Vec<MetadataValue<$ve>> = self.insert_mult(v).collect();
                                for o in old {
                                    out.push(o.show("drain", &name));
                                }
                            }
                        },
                        OccOp::Append(raw) => match mk(raw) {
                            None => out.push("n:valerr".into()),
                            Some(v) => {
                                out.push(v.wrote(&name, raw));
                                self.append(v);
                            }
                        },
                        OccOp::Iter => {
                            for v in self.iter() {
                                out.push(v.show("iter", &name));
                            }
                        }
                        OccOp::IterMut => {
                            for v in self.iter_mut() {
                                out.push(v.show("itermut", &name));
                            }
                        }
                        OccOp::IntoIter => {
                            for v in self {
                                out.push(v.show("intoiter", &name));
                            }
                            return;
                        }
                        OccOp::IntoMut => {
                            let v: &mut MetadataValue<$ve> = self.into_mut();
                            out.push(v.show("intomut", &name));
                            return;
                        }
                        OccOp::Remove => {
                            let v = self.remove();
                            out.push(v.show("remove", &name));
                            return;
                        }
                        OccOp::RemoveEntry => {
                            let (k, v) = self.remove_entry();
                            out.push(k.show("rekey"));
                            out.push(v.show("reval", &name));
                            return;
                        }
                        OccOp::RemoveEntryMult => {
                            let (k, d) = self.remove_entry_mult();
                            out.push(k.show("remkey"));
                            for v in d {
                                out.push(v.show("remval", &name));
                            }
                            return;
                        }
                    }
                }
            }
        }
        impl EncOps for $ve {
            fn entry_op(m: &mut MetadataMap, kf: &str, key: &[u8], u: &Use, out: &mut Vec<String>) -> Option<()> {
                let mk = $mk;
                let owned;
                let e: Result<Entry<'_, $ve>, ()> = match kf {
                    "s" => m.$entry(std::str::from_utf8(key).ok()?).map_err(|_| ()),
                    "S" => m.$entry(std::str::from_utf8(key).ok()?.to_string()).map_err(|_| ()),
                    "rS" => {
                        owned = std::str::from_utf8(key).ok()?.to_string();
                        m.$entry(&owned).map_err(|_| ())
                    }
                    "t" => match MetadataKey::<$ve>::from_bytes(key) {
                        Ok(k) => m.$entry(k).map_err(|_| ()),
                        Err(_) => Err(()),
                    },
                    "rt" => match MetadataKey::<$ve>::from_bytes(key) {
                        Ok(k) => m.$entry(&k).map_err(|_| ()),
                        Err(_) => Err(()),
                    },
                    _ => return None,
                };
                let e = match e {
                    Ok(e) => e,
                    Err(()) => {
                        out.push("n:keyerr".into());
                        return Some(());
                    }
                };
                let occupied = matches!(e, Entry::Occupied(_));
                out.push(format!("n:{}", if occupied { "occupied" } else { "vacant" }));
                out.push(e.key().show("ekey"));
                let name = e.key().as_str().to_string();
                match u {
                    Use::OrInsert(raw) => match mk(raw) {
                        None => out.push("n:valerr".into()),
                        Some(v) => {
                            if !occupied {
                                out.push(v.wrote(&name, raw));
                            }
                            let r: &mut MetadataValue<$ve> = e.or_insert(v);
                            out.push(r.show("or_insert", &name));
                        }
                    },
                    Use::OrInsertWith(raw) => match mk(raw) {
                        None => out.push("n:valerr".into()),
                        Some(v) => {
                            let announce = v.wrote(&name, raw);
                            let mut called = false;
                            let shown = {
                                let r: &mut MetadataValue<$ve> = e.or_insert_with(|| {
                                    called = true;
                                    v
                                });
                                r.show("or_insert_with", &name)
                            };
                            out.push(format!("n:{}", if called { "called" } else { "notcalled" }));
                            if called {
                                out.push(announce);
                            }
                            out.push(shown);
                        }
                    },
                    Use::Branch(vac, occ) => match e {
                        Entry::Occupied(o) => o.run(occ, out),
                        Entry::Vacant(v) => match vac {
                            VacOp::Nothing => {}
                            VacOp::Key => out.push(v.key().show("vkey")),
                            VacOp::IntoKey => {
                                let k = v.into_key();
                                out.push(k.show("vintokey"));
                            }
                            VacOp::Insert(raw) => match mk(raw) {
                                None => out.push("n:valerr".into()),
                                Some(val) => {
                                    out.push(val.wrote(&name, raw));
                                    let r = v.insert(val);
                                    out.push(r.show("vinsert", &name));
                                }
                            },
                            VacOp::InsertEntry(raw) => match mk(raw) {
                                None => out.push("n:valerr".into()),
                                Some(val) => {
                                    out.push(val.wrote(&name, raw));
                                    // the type of `h` is whatever `insert_entry` returns
                                    let h = v.insert_entry(val);
                                    out.push(h.show_key("iekey"));
                                    h.run(occ, out);
                                }
                            },
                        },
                    },
                }
                Some(())
            }
            fn ga_op(m: &MetadataMap, kf: &str, key: &[u8], out: &mut Vec<String>) -> Option<()> {
                let owned;
                let ga = match kf {
                    "s" => m.$get_all(std::str::from_utf8(key).ok()?),
                    "S" => m.$get_all(std::str::from_utf8(key).ok()?.to_string()),
                    "rS" => {
                        owned = std::str::from_utf8(key).ok()?.to_string();
                        m.$get_all(&owned)
                    }
                    "t" | "rt" => match MetadataKey::<$ve>::from_bytes(key) {
                        Ok(k) => {
                            if kf == "t" {
                                m.$get_all(k)
                            } else {
                                m.$get_all(&k)
                            }
                        }
                        Err(_) => {
                            out.push("n:keyerr".into());
                            return Some(());
                        }
                    },
                    _ => return None,
                };
                // `GetAll` does not expose its name: HeaderMap looks up the lower-cased key
                let name = String::from_utf8_lossy(&key.to_ascii_lowercase()).to_string();
                let fwd: Vec<&MetadataValue<$ve>> = ga.iter().collect();
                out.push(format!("n:ga:{}", fwd.len()));
                for v in &fwd {
                    out.push(v.show("ga", &name));
                }
                for v in ga.iter().rev() {
                    out.push(v.show("gab", &name));
                }
                let mut it = ga.iter();
                loop {
                    match it.next() {
                        Some(v) => out.push(v.show("gam", &name)),
                        None => break,
                    }
                    match it.next_back() {
                        Some(v) => out.push(v.show("gam", &name)),
                        None => break,
                    }
                }
                Some(())
            }
            fn ins_op(m: &mut MetadataMap, key: &[u8], raw: &[u8], append: bool, out: &mut Vec<String>) {
                let mk = $mk;
                let k = match MetadataKey::<$ve>::from_bytes(key) {
                    Ok(k) => k,
                    Err(_) => return out.push("n:keyerr".into()),
                };
                let v = match mk(raw) {
                    Some(v) => v,
                    None => return out.push("n:valerr".into()),
                };
                let name = k.as_str().to_string();
                out.push(v.wrote(&name, raw));
                if append {
                    let existed = m.$append(k, v);
                    out.push(format!("n:existed:{}", existed as u8));
                } else {
                    match m.$insert(k, v) {
                        Some(p) => out.push(p.show("prev", &name)),
                        None => out.push("n:prev:none".into()),
                    }
                }
            }
            fn rm_op(m: &mut MetadataMap, key: &str, out: &mut Vec<String>) {
                let name = key.to_ascii_lowercase();
                match m.$remove(key) {
                    Some(v) => out.push(v.show("removed", &name)),
                    None => out.push("n:removed:none".into()),
                }
            }
        }
    };
}

impl_enc!(Ascii, "A", |raw: &[u8]| MetadataValue::<Ascii>::try_from(raw).ok(), entry, get_all, insert, append, remove);
impl_enc!(Binary, "B", |raw: &[u8]| Some(MetadataValue::<Binary>::from_bytes(raw)), entry_bin, get_all_bin, insert_bin, append_bin, remove_bin);

// ---------------------------------------------------------------------------------------------
// case syntax: `eops <n> (<name> <value>)* <k> <op>*`

fn parse_occ<'a>(it: &mut impl Iterator<Item = &'a str>) -> Option<Vec<OccOp>> {
    let n: usize = it.next()?.parse().ok()?;
    let mut out = Vec::new();
    for _ in 0..n {
        out.push(match it.next()? {
            "k" => OccOp::Key,
            "g" => OccOp::Get,
            "gm" => OccOp::GetMut,
            "i" => OccOp::Insert(unhex(it.next()?)?),
            "im" => OccOp::InsertMult(unhex(it.next()?)?),
            "a" => OccOp::Append(unhex(it.next()?)?),
            "it" => OccOp::Iter,
            "itm" => OccOp::IterMut,
            "ii" => OccOp::IntoIter,
            "into" => OccOp::IntoMut,
            "r" => OccOp::Remove,
            "re" => OccOp::RemoveEntry,
            "rem" => OccOp::RemoveEntryMult,
            _ => return None,
        });
    }
    Some(out)
}

fn parse_use<'a>(it: &mut impl Iterator<Item = &'a str>) -> Option<Use> {
    Some(match it.next()? {
        "oi" => Use::OrInsert(unhex(it.next()?)?),
        "ow" => Use::OrInsertWith(unhex(it.next()?)?),
        "m" => {
            let vac = match it.next()? {
                "vn" => VacOp::Nothing,
                "vk" => VacOp::Key,
                "vik" => VacOp::IntoKey,
                "vi" => VacOp::Insert(unhex(it.next()?)?),
                "vie" => VacOp::InsertEntry(unhex(it.next()?)?),
                _ => return None,
            };
            Use::Branch(vac, parse_occ(it)?)
        }
        _ => return None,
    })
}

pub fn execute<'a>(it: &mut impl Iterator<Item = &'a str>) -> String {
    run(it).unwrap_or_else(|| "bad-case".into())
}

fn run<'a>(it: &mut impl Iterator<Item = &'a str>) -> Option<String> {
    let mut m = MetadataMap::from_headers(parse_entries(it)?);
    let n: usize = it.next()?.parse().ok()?;
    let mut toks: Vec<String> = Vec::new();
    for _ in 0..n {
        let op = it.next()?;
        let bin = match it.next()? {
            "A" => false,
            "B" => true,
            _ => return None,
        };
        let mut out: Vec<String> = Vec::new();
        match op {
            "ins" | "app" => {
                let k = unhex(it.next()?)?;
                let v = unhex(it.next()?)?;
                if bin {
                    Binary::ins_op(&mut m, &k, &v, op == "app", &mut out)
                } else {
                    Ascii::ins_op(&mut m, &k, &v, op == "app", &mut out)
                }
            }
            "rm" => {
                let k = String::from_utf8(unhex(it.next()?)?).ok()?;
                if bin {
                    Binary::rm_op(&mut m, &k, &mut out)
                } else {
                    Ascii::rm_op(&mut m, &k, &mut out)
                }
            }
            "ga" => {
                let kf = it.next()?;
                let k = unhex(it.next()?)?;
                if bin {
                    Binary::ga_op(&m, kf, &k, &mut out)?
                } else {
                    Ascii::ga_op(&m, kf, &k, &mut out)?
                }
            }
            "ent" => {
                let kf = it.next()?;
                let k = unhex(it.next()?)?;
                let u = parse_use(it)?;
                if bin {
                    Binary::entry_op(&mut m, kf, &k, &u, &mut out)?
                } else {
                    Ascii::entry_op(&mut m, kf, &k, &u, &mut out)?
                }
            }
            _ => return None,
        }
        toks.push("|".into());
        toks.extend(out);
        toks.push("m".into());
        toks.push(render_map(&m.clone().into_headers()));
    }
    if it.next().is_some() {
        return None;
    }
    toks.push("view".into());
    toks.push(super::typed_view(&m));
    Some(toks.join(" "))
}

// ---------------------------------------------------------------------------------------------
// generation

const NAMES: [&str; 8] = ["x-a", "x-bin", "k", "k-bin", "x-trace-bin", "bin", "x-bin-x", "te"];
const KFS: [&str; 5] = ["s", "S", "rS", "t", "rt"];

fn gen_key(rng: &mut Rng, bin: bool) -> Vec<u8> {
    // mostly a name of the method family's own category
    let mut k: Vec<u8> = loop {
        let n = *rng.pick(&NAMES);
        if n.ends_with("-bin") == bin || rng.chance(1, 8) {
            break n.as_bytes().to_vec();
        }
    };
    match rng.below(10) {
        0 => k = k.to_ascii_uppercase(),
        1 => {
            // upper-case (part of) the suffix only
            let n = k.len();
            let from = n.saturating_sub(rng.range(1, 4) as usize);
            for b in k[from..].iter_mut() {
                *b = b.to_ascii_uppercase();
            }
        }
        2 if rng.chance(1, 4) => k = b"a b".to_vec(),
        _ => {}
    }
    k
}

pub fn gen_raw(rng: &mut Rng, bin: bool) -> Vec<u8> {
    if bin {
        super::gen_bin_value(rng)
    } else if rng.chance(1, 12) {
        b"bad\nvalue".to_vec()
    } else if rng.chance(1, 6) {
        b"not base64!".to_vec()
    } else {
        crate::c04::gen_value(rng)
    }
}

fn gen_occ(rng: &mut Rng, bin: bool, max: u64) -> String {
    let n = rng.range(0, max);
    let mut toks = vec![n.to_string()];
    for i in 0..n {
        // consuming calls mostly at the end of a script
        let last = i + 1 == n;
        let t = match rng.below(if last { 16 } else { 12 }) {
            0 => "k".to_string(),
            1 => "g".to_string(),
            2 => "gm".to_string(),
            3 | 4 => format!("i {}", hex(&gen_raw(rng, bin))),
            5 => format!("im {}", hex(&gen_raw(rng, bin))),
            6 | 7 | 8 => format!("a {}", hex(&gen_raw(rng, bin))),
            9 => "it".to_string(),
            10 => "itm".to_string(),
            11 => (*rng.pick(&["ii", "into", "r", "re", "rem"])).to_string(),
            12 => "r".to_string(),
            13 => "re".to_string(),
            14 => "rem".to_string(),
            _ => "ii".to_string(),
        };
        toks.push(t);
    }
    toks.join(" ")
}

fn gen_op(rng: &mut Rng) -> String {
    let bin = rng.chance(1, 2);
    let e = if bin { "B" } else { "A" };
    let key = gen_key(rng, bin);
    match rng.below(12) {
        0 => format!("ins {} {} {}", e, hex(&key), hex(&gen_raw(rng, bin))),
        1 | 2 => format!("app {} {} {}", e, hex(&key), hex(&gen_raw(rng, bin))),
        3 => format!("rm {} {}", e, hex(&key)),
        4 | 5 => format!("ga {} {} {}", e, rng.pick(&KFS), hex(&key)),
        6 => format!("ent {} {} {} oi {}", e, rng.pick(&KFS), hex(&key), hex(&gen_raw(rng, bin))),
        7 => format!("ent {} {} {} ow {}", e, rng.pick(&KFS), hex(&key), hex(&gen_raw(rng, bin))),
        _ => {
            let vac = match rng.below(8) {
                0 => "vn".to_string(),
                1 => "vk".to_string(),
                2 => "vik".to_string(),
                3 | 4 => format!("vi {}", hex(&gen_raw(rng, bin))),
                _ => format!("vie {}", hex(&gen_raw(rng, bin))),
            };
            format!("ent {} {} {} m {} {}", e, rng.pick(&KFS), hex(&key), vac, gen_occ(rng, bin, 5))
        }
    }
}

pub fn generate(thorough: bool, rng: &mut Rng, out: &mut Vec<String>) {
    // corpus: the insert_entry witness (rev2 F1) and its neighbours
    let nb = hex(b"not base64!");
    for kf in KFS {
        out.push(format!("eops 0 1 ent B {} {} m vie {} 2 g a {}", kf, hex(b"x-bin"), hex(&[0, 1, 2]), nb));
        out.push(format!("eops 0 1 ent B {} {} m vie {} 3 k it re", kf, hex(b"X-BIN"), hex(&[0, 1, 2])));
        out.push(format!("eops 0 1 ent A {} {} m vie {} 2 g a {}", kf, hex(b"x-a"), hex(b"v"), nb));
    }
    out.push(format!("eops 0 2 ent B s {} m vie {} 1 a {} ga B s {}", hex(b"k-bin"), hex(&[255]), hex(&[1, 2, 3, 4]), hex(b"k-bin")));
    // OccupiedEntry::append really appends (rev2 mutant c08_occ_append)
    out.push(format!("eops 0 2 app A {} {} ent A s {} m vn 2 a {} it", hex(b"x-a"), hex(b"1"), hex(b"x-a"), hex(b"2")));
    // every OccupiedEntry call on an entry with three values, both encodings
    for (e, name, vals) in [("A", "x-a", [b"1".to_vec(), b"2".to_vec(), b"3".to_vec()]), ("B", "k-bin", [vec![1u8], vec![2, 2], vec![3, 3, 3]])] {
        let pre = format!("app {e} {n} {} app {e} {n} {} app {e} {n} {}", hex(&vals[0]), hex(&vals[1]), hex(&vals[2]), e = e, n = hex(name.as_bytes()));
        for call in ["k", "g", "gm", "it", "itm", "ii", "into", "r", "re", "rem"] {
            out.push(format!("eops 0 4 {} ent {} s {} m vn 1 {}", pre, e, hex(name.as_bytes()), call));
        }
        for call in ["i", "im", "a"] {
            out.push(format!("eops 0 5 {} ent {} s {} m vn 1 {} {} ga {} s {}", pre, e, hex(name.as_bytes()), call, hex(&vals[1]), e, hex(name.as_bytes())));
        }
        out.push(format!("eops 0 4 {} ga {} rt {}", pre, e, hex(name.as_bytes())));
    }
    // large values (8 KiB, 64 KiB) through the entry API
    for n in [8192usize, 65536] {
        let big_a = vec![b'v'; n];
        let big_b: Vec<u8> = (0..n).map(|i| (i * 31 + 7) as u8).collect();
        out.push(format!("eops 0 2 ent A s {} oi {} ga A s {}", hex(b"x-a"), hex(&big_a), hex(b"x-a")));
        out.push(format!("eops 0 2 ent B s {} m vie {} 2 a {} it ga B s {}", hex(b"k-bin"), hex(&big_b), hex(&big_b[..n - 1]), hex(b"k-bin")));
    }
    let n = if thorough { 150000 } else { 4000 };
    for _ in 0..n {
        // received headers to start from (values under -bin names are whatever a peer sent)
        let init: Vec<(Vec<u8>, Vec<u8>)> = if rng.chance(1, 3) {
            let cnt = rng.range(0, 4);
            (0..cnt)
                .map(|_| {
                    let name = *rng.pick(&NAMES);
                    let v = if name.ends_with("-bin") {
                        use base64::Engine;
                        let raw = super::gen_bin_value(rng);
                        if rng.chance(1, 2) {
                            base64::engine::general_purpose::STANDARD.encode(&raw).into_bytes()
                        } else {
                            base64::engine::general_purpose::STANDARD_NO_PAD.encode(&raw).into_bytes()
                        }
                    } else {
                        crate::c04::gen_value(rng)
                    };
                    (name.as_bytes().to_vec(), v)
                })
                .collect()
        } else {
            vec![]
        };
        let k = rng.range(1, 6);
        let ops: Vec<String> = (0..k).map(|_| gen_op(rng)).collect();
        out.push(format!("eops {} {} {}", crate::c04::entries_tok(&init), k, ops.join(" ")));
    }
}
