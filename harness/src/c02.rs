//! C02 — client observes exactly the messages, metadata and status the server produced
//! (and the handler exactly the request the caller sent), under any transport fragmentation.
//!
//! The real `tonic::client::Grpc` (raw byte codec) talks to the real `tonic::server::Grpc`
//! running a scripted handler.  Quick tier: an in-process adapter service forwards the
//! `http::Request`; request and response bodies are wrapped by `ReChunk`, which re-cuts the data
//! at case-chosen sizes, injects `Pending`s, and delivers the trailers last.  Thorough tier
//! additionally runs the same pair over real hyper/h2 on `tokio::io::duplex` pipes whose traffic
//! is forwarded in fragments of case-chosen sizes (`h2` cases).
//!
//! Case grammar (space separated):
//!   (call|callz-<g|d|z>|h2|h2x).S<q><s>.C<s'> <yieldThr> RQMD <hmap> RQ <k> <tok>*k RQCUT <j> <step>*j
//!        H <reads> E <status|-> INIT <hmap> BODY <k> <tok>*k FINAL <status|-> RSCUT <j> <step>*j
//!     q,s,s' ∈ {0,1}: server entry point takes a request stream / returns a response stream;
//!                     client API returns a response stream
//!     hmap   = <n> (<name> <value>)*n        wire entries (hex), in order
//!     tok    = x<hex> message | p Pending
//!     step   = <size> take that many bytes as one data frame | p Pending
//!              (for `h2` cases the steps are the fragment sizes of the byte pipe, cyclically;
//!               `h2x` = the same call three times concurrently on the one connection;
//!               `callz-*` = compression enabled on both ends, plans cut the compressed bytes)
//!     status = <code> <msg> <details> <hmap>
//!   The kind token may carry flags `+<flag>`… (in the order of `FLAG_NAMES`).  Every flag switches on a dimension
//!   that must be INVISIBLE in the result (the Lean driver validates the names and predicts as without them):
//!     lim    message-size limits on all four ends (client enc/dec, server dec/enc) set to exactly the largest
//!            message of that direction
//!     gen    the server `Grpc` is configured the way generated code does it (`apply_compression_config`,
//!            `apply_max_message_size_config`)
//!     clone  the configured client `Grpc` is cloned and the clone makes the call
//!     twice  the same client `Grpc` (same service / channel) makes the call twice in a row; both must come out the same
//!     api2   the other public constructors / accessors: `Grpc::new`, `IntoRequest` / `IntoStreamingRequest`, `Request::new` +
//!            `metadata_mut`, `Request::map`, `Response::from_parts` / `From<T>` / `map`, `metadata()` + `into_inner()`,
//!            `Stream::poll_next` (`StreamExt::next`) instead of `Streaming::message`
//!     hints  the transport bodies give honest `size_hint` / `is_end_stream` hints and, like hyper, stop polling a
//!            body that says `is_end_stream()` (in-process cases)
//!     icpt   a pass-through interceptor (`InterceptedService`) around the client's service and around the server
//!     knobs  (`h2`) `Server::builder()` and `Endpoint` builder knobs that must not change a call: timeouts far away,
//!            concurrency / rate limits not reached, small flow-control windows, frame size, a user layer whose
//!            response body gives no hints, user-agent
//!     lazy   (`h2`) `Endpoint::connect_with_connector_lazy`
//!     nocomp (`callz`) the handler of a unary-response shape calls `Response::disable_compression`
//!   `callz-<x><y>`: requests compressed with x, responses with y (client send x / accept y, server accept x / send y).
//! Observed (after a summary token `K=<handler got>/<client got>`):
//!   SEEN notcalled | SEEN unary <rhmap> <msg> | SEEN stream <rhmap> <k> <msg>*k open|done|err <rstatus>
//!   CLIENT err <rstatus> | CLIENT single <rhmap> <msg> | CLIENT hang
//!        | CLIENT stream <rhmap> <k> <msg>*k ok|err <rstatus> TR none|<rhmap>
//!     rhmap = <#names> (<name> <#values> <value>*)*   names ascending;  rstatus = <code> <msg> <details> <rhmap>
use crate::common::*;
use crate::framing::{gen_msg, RawDec, RawEnc};
use bytes::{Bytes, BytesMut};
use http::HeaderMap;
use http_body::{Body as HttpBody, Frame};
use std::collections::VecDeque;
use std::future::Future;
use std::pin::Pin;
use std::sync::{Arc, Mutex};
use std::task::{Context, Poll};
use std::time::Duration;
use tokio_stream::Stream;
use tonic::body::Body;
use tonic::codec::{BufferSettings, Codec};
use tonic::metadata::MetadataMap;
use tonic::{Request, Response, Status, Streaming};

// ---------------------------------------------------------------------------------------------
// case
// ---------------------------------------------------------------------------------------------

#[derive(Clone, Debug)]
pub enum Tok {
    Msg(Vec<u8>),
    Pend,
}

#[derive(Clone, Debug)]
pub enum Step {
    Take(usize),
    Pend,
}

type Entries = Vec<(Vec<u8>, Vec<u8>)>;

#[derive(Clone, Debug)]
pub struct StatusSpec {
    pub code: i32,
    pub msg: Vec<u8>,
    pub details: Vec<u8>,
    pub md: Entries,
}

#[derive(Clone, Debug)]
pub struct Case {
    pub h2: bool,
    /// number of concurrent identical calls on the one HTTP/2 connection (`h2x` cases)
    pub conc: usize,
    /// compression enabled (send + accept) on both ends: 'g' gzip, 'd' deflate, 'z' zstd (`callz-*` cases)
    pub comp: Option<char>,
    /// encoding of the response direction when it differs from `comp` (`callz-<x><y>`)
    pub comp2: Option<char>,
    /// invisible dimensions switched on (names from `FLAG_NAMES`)
    pub flags: Vec<&'static str>,
    pub srv_req_stream: bool,
    pub srv_resp_stream: bool,
    pub cli_resp_stream: bool,
    pub yield_thr: usize,
    pub rq_md: Entries,
    pub rq: Vec<Tok>,
    pub rq_cut: Vec<Step>,
    pub reads: usize,
    pub early: Option<StatusSpec>,
    pub init_md: Entries,
    pub body: Vec<Tok>,
    pub fin: Option<StatusSpec>,
    pub rs_cut: Vec<Step>,
}

fn b(x: bool) -> char {
    if x {
        '1'
    } else {
        '0'
    }
}

fn entries_line(e: &Entries) -> String {
    let mut s = e.len().to_string();
    for (k, v) in e {
        s.push_str(&format!(" {} {}", hex(k), hex(v)));
    }
    s
}

fn toks_line(t: &[Tok]) -> String {
    let mut s = t.len().to_string();
    for x in t {
        match x {
            Tok::Msg(m) => s.push_str(&format!(" {}", hex(m))),
            Tok::Pend => s.push_str(" p"),
        }
    }
    s
}

fn steps_line(t: &[Step]) -> String {
    let mut s = t.len().to_string();
    for x in t {
        match x {
            Step::Take(n) => s.push_str(&format!(" {}", n)),
            Step::Pend => s.push_str(" p"),
        }
    }
    s
}

fn status_line(st: &Option<StatusSpec>) -> String {
    match st {
        None => "-".into(),
        Some(s) => format!("{} {} {} {}", s.code, hex(&s.msg), hex(&s.details), entries_line(&s.md)),
    }
}

pub const FLAG_NAMES: [&str; 10] = ["lim", "gen", "clone", "twice", "api2", "hints", "icpt", "knobs", "lazy", "nocomp"];

impl Case {
    pub fn has(&self, f: &str) -> bool {
        self.flags.iter().any(|x| *x == f)
    }
    fn flag_suffix(&self) -> String {
        FLAG_NAMES.iter().filter(|f| self.has(f)).map(|f| format!("+{}", f)).collect()
    }
    /// response-direction encoding
    pub fn comp_resp(&self) -> Option<char> {
        self.comp2.or(self.comp)
    }
    /// `lim`: (largest request message, largest response message)
    pub fn limits(&self) -> Option<(usize, usize)> {
        if !self.has("lim") {
            return None;
        }
        let mx = |t: &[Tok]| t.iter().filter_map(|x| if let Tok::Msg(m) = x { Some(m.len()) } else { None }).max().unwrap_or(0);
        // with compression on the limits apply to the compressed payload: leave room
        let slack = |n: usize| if self.comp.is_some() { n * 2 + 1024 } else { n };
        Some((slack(mx(&self.rq)), slack(mx(&self.body))))
    }
    pub fn line(&self) -> String {
        format!(
            "{}{}.S{}{}.C{} {} RQMD {} RQ {} RQCUT {} H {} E {} INIT {} BODY {} FINAL {} RSCUT {}",
            match (self.h2, self.conc > 1, self.comp) {
                (true, true, _) => "h2x".to_string(),
                (true, false, _) => "h2".to_string(),
                (false, _, Some(c)) => match self.comp2 {
                    Some(c2) => format!("callz-{}{}", c, c2),
                    None => format!("callz-{}", c),
                },
                (false, _, None) => "call".to_string(),
            },
            self.flag_suffix(),
            b(self.srv_req_stream),
            b(self.srv_resp_stream),
            b(self.cli_resp_stream),
            self.yield_thr,
            entries_line(&self.rq_md),
            toks_line(&self.rq),
            steps_line(&self.rq_cut),
            self.reads,
            status_line(&self.early),
            entries_line(&self.init_md),
            toks_line(&self.body),
            status_line(&self.fin),
            steps_line(&self.rs_cut)
        )
    }
}

struct Cur<'a> {
    t: Vec<&'a str>,
    i: usize,
}

impl<'a> Cur<'a> {
    fn next(&mut self) -> Option<&'a str> {
        let r = self.t.get(self.i).copied();
        self.i += 1;
        r
    }
    fn expect(&mut self, s: &str) -> Option<()> {
        if self.next()? == s {
            Some(())
        } else {
            None
        }
    }
    fn num(&mut self) -> Option<usize> {
        self.next()?.parse().ok()
    }
    fn bytes(&mut self) -> Option<Vec<u8>> {
        unhex(self.next()?)
    }
    fn entries(&mut self) -> Option<Entries> {
        let n = self.num()?;
        let mut e = Vec::new();
        for _ in 0..n {
            let k = self.bytes()?;
            let v = self.bytes()?;
            e.push((k, v));
        }
        Some(e)
    }
    fn toks(&mut self) -> Option<Vec<Tok>> {
        let n = self.num()?;
        let mut e = Vec::new();
        for _ in 0..n {
            let t = self.next()?;
            e.push(if t == "p" { Tok::Pend } else { Tok::Msg(unhex(t)?) });
        }
        Some(e)
    }
    fn steps(&mut self) -> Option<Vec<Step>> {
        let n = self.num()?;
        let mut e = Vec::new();
        for _ in 0..n {
            let t = self.next()?;
            e.push(if t == "p" { Step::Pend } else { Step::Take(t.parse().ok()?) });
        }
        Some(e)
    }
    fn status(&mut self) -> Option<Option<StatusSpec>> {
        if self.t.get(self.i).copied()? == "-" {
            self.i += 1;
            return Some(None);
        }
        let code = self.num()? as i32;
        let msg = self.bytes()?;
        let details = self.bytes()?;
        let md = self.entries()?;
        Some(Some(StatusSpec { code, msg, details, md }))
    }
}

pub fn parse_case(line: &str) -> Option<Case> {
    let mut c = Cur { t: line.split(' ').filter(|x| !x.is_empty()).collect(), i: 0 };
    let head: Vec<&str> = c.next()?.split('.').collect();
    if head.len() != 3 {
        return None;
    }
    let mut kf = head[0].split('+');
    let kind = kf.next()?;
    let mut flags = Vec::new();
    for f in kf {
        flags.push(*FLAG_NAMES.iter().find(|n| **n == f)?);
    }
    if kind != "call" && kind != "h2" && kind != "h2x" && !kind.starts_with("callz-") {
        return None;
    }
    let s = head[1].as_bytes();
    let cl = head[2].as_bytes();
    if s.len() != 3 || cl.len() != 2 || s[0] != b'S' || cl[0] != b'C' {
        return None;
    }
    let yield_thr = c.num()?;
    c.expect("RQMD")?;
    let rq_md = c.entries()?;
    c.expect("RQ")?;
    let rq = c.toks()?;
    c.expect("RQCUT")?;
    let rq_cut = c.steps()?;
    c.expect("H")?;
    let reads = c.num()?;
    c.expect("E")?;
    let early = c.status()?;
    c.expect("INIT")?;
    let init_md = c.entries()?;
    c.expect("BODY")?;
    let body = c.toks()?;
    c.expect("FINAL")?;
    let fin = c.status()?;
    c.expect("RSCUT")?;
    let rs_cut = c.steps()?;
    Some(Case {
        h2: kind == "h2" || kind == "h2x",
        conc: if kind == "h2x" { 3 } else { 1 },
        comp: kind.strip_prefix("callz-").and_then(|c| c.chars().next()),
        comp2: kind.strip_prefix("callz-").and_then(|c| c.chars().nth(1)),
        flags,
        srv_req_stream: s[1] == b'1',
        srv_resp_stream: s[2] == b'1',
        cli_resp_stream: cl[1] == b'1',
        yield_thr,
        rq_md,
        rq,
        rq_cut,
        reads,
        early,
        init_md,
        body,
        fin,
        rs_cut,
    })
}

// ---------------------------------------------------------------------------------------------
// raw codec with a configurable yield threshold
// ---------------------------------------------------------------------------------------------

#[derive(Clone, Copy)]
pub struct RawCodec(pub usize);

impl Codec for RawCodec {
    type Encode = Vec<u8>;
    type Decode = Vec<u8>;
    type Encoder = RawEnc;
    type Decoder = RawDec;
    fn encoder(&mut self) -> RawEnc {
        RawEnc(BufferSettings::new(8192, self.0))
    }
    fn decoder(&mut self) -> RawDec {
        RawDec(BufferSettings::new(8192, self.0))
    }
}

// ---------------------------------------------------------------------------------------------
// building and rendering metadata / statuses
// ---------------------------------------------------------------------------------------------

fn header_map(e: &Entries) -> HeaderMap {
    let mut h = HeaderMap::new();
    for (k, v) in e {
        if let (Ok(n), Ok(val)) = (http::HeaderName::from_bytes(k), http::HeaderValue::from_bytes(v)) {
            h.append(n, val);
        }
    }
    h
}

fn metadata(e: &Entries) -> MetadataMap {
    MetadataMap::from_headers(header_map(e))
}

fn make_status(s: &StatusSpec) -> Status {
    Status::with_details_and_metadata(
        tonic::Code::from_i32(s.code),
        String::from_utf8(s.msg.clone()).expect("case status messages are UTF-8"),
        Bytes::from(s.details.clone()),
        metadata(&s.md),
    )
}

pub fn render_headers(h: &HeaderMap) -> String {
    let mut names: Vec<&str> = h.keys().map(|k| k.as_str()).collect();
    names.sort_by(|a, b| a.as_bytes().cmp(b.as_bytes()));
    names.dedup();
    let mut s = names.len().to_string();
    for n in names {
        let vals: Vec<String> = h.get_all(n).iter().map(|v| hex(v.as_bytes())).collect();
        s.push_str(&format!(" {} {}", hex(n.as_bytes()), vals.len()));
        for v in vals {
            s.push(' ');
            s.push_str(&v);
        }
    }
    s
}

fn render_md(m: &MetadataMap) -> String {
    render_headers(&m.clone().into_headers())
}

/// texts of statuses produced inside tonic whose tails carry numbers: cut to the fixed prefix
const INTERNAL_PREFIXES: [&str; 6] = [
    "Error, encoded message length too large",
    "Cannot return body with more than 4GB of data",
    "protocol error: received message with invalid compression flag",
    "protocol error: received message with compressed-flag but no grpc-encoding was specified",
    "Error, decoded message length too large",
    "Error decompressing",
];

fn canon_msg(m: &str) -> Vec<u8> {
    for p in INTERNAL_PREFIXES {
        if m.starts_with(p) {
            return p.as_bytes().to_vec();
        }
    }
    m.as_bytes().to_vec()
}

fn render_status(st: &Status) -> String {
    format!("{} {} {} {}", st.code() as i32, hex(&canon_msg(st.message())), hex(st.details()), render_md(st.metadata()))
}

// ---------------------------------------------------------------------------------------------
// the re-chunking body (the transport of the quick tier)
// ---------------------------------------------------------------------------------------------

pub struct ReChunk {
    inner: Body,
    plan: VecDeque<Step>,
    buf: BytesMut,
    inner_done: bool,
    trailers: Option<HeaderMap>,
    polls_after_end: usize,
    /// `hints` cases: give honest `size_hint` / `is_end_stream` answers, and (like hyper) do not poll
    /// a wrapped body that says it is at its end
    hints: bool,
    /// an upper bound of the data bytes the wrapped body will produce in all, when the case tells
    bound: Option<usize>,
    pulled: usize,
}

impl ReChunk {
    pub fn new(inner: Body, plan: &[Step]) -> Self {
        ReChunk {
            inner,
            plan: plan.iter().cloned().collect(),
            buf: BytesMut::new(),
            inner_done: false,
            trailers: None,
            polls_after_end: 0,
            hints: false,
            bound: None,
            pulled: 0,
        }
    }
    pub fn with_hints(inner: Body, plan: &[Step], bound: Option<usize>) -> Self {
        ReChunk { hints: true, bound, ..ReChunk::new(inner, plan) }
    }
    /// pull one frame of the wrapped body into the buffer
    fn pull(&mut self, cx: &mut Context<'_>) -> Poll<Result<(), Status>> {
        if self.hints && self.inner.is_end_stream() {
            // hyper looks at `is_end_stream()` before the first poll and after every frame and
            // closes the stream without polling again
            self.inner_done = true;
            return Poll::Ready(Ok(()));
        }
        match Pin::new(&mut self.inner).poll_frame(cx) {
            Poll::Pending => Poll::Pending,
            Poll::Ready(None) => {
                self.inner_done = true;
                Poll::Ready(Ok(()))
            }
            Poll::Ready(Some(Err(e))) => Poll::Ready(Err(e)),
            Poll::Ready(Some(Ok(f))) => {
                if f.is_data() {
                    let d = f.into_data().unwrap();
                    self.pulled += d.len();
                    self.buf.extend_from_slice(&d);
                } else if let Ok(t) = f.into_trailers() {
                    // trailers end a body
                    self.trailers = Some(t);
                    self.inner_done = true;
                }
                Poll::Ready(Ok(()))
            }
        }
    }
}

impl HttpBody for ReChunk {
    type Data = Bytes;
    type Error = Status;
    fn poll_frame(mut self: Pin<&mut Self>, cx: &mut Context<'_>) -> Poll<Option<Result<Frame<Bytes>, Status>>> {
        let this = &mut *self;
        loop {
            match this.plan.front().cloned() {
                Some(Step::Pend) => {
                    this.plan.pop_front();
                    cx.waker().wake_by_ref();
                    return Poll::Pending;
                }
                Some(Step::Take(k)) => {
                    while this.buf.len() < k && !this.inner_done {
                        match this.pull(cx) {
                            Poll::Pending => return Poll::Pending,
                            Poll::Ready(Err(e)) => return Poll::Ready(Some(Err(e))),
                            Poll::Ready(Ok(())) => {}
                        }
                    }
                    this.plan.pop_front();
                    let n = k.min(this.buf.len());
                    if k > 0 && n == 0 {
                        continue; // nothing left to cut
                    }
                    return Poll::Ready(Some(Ok(Frame::data(this.buf.split_to(n).freeze()))));
                }
                None => {
                    while !this.inner_done {
                        match this.pull(cx) {
                            Poll::Pending => return Poll::Pending,
                            Poll::Ready(Err(e)) => return Poll::Ready(Some(Err(e))),
                            Poll::Ready(Ok(())) => {}
                        }
                    }
                    if !this.buf.is_empty() {
                        let n = this.buf.len();
                        return Poll::Ready(Some(Ok(Frame::data(this.buf.split_to(n).freeze()))));
                    }
                    if let Some(t) = this.trailers.take() {
                        return Poll::Ready(Some(Ok(Frame::trailers(t))));
                    }
                    this.polls_after_end += 1;
                    return Poll::Ready(None);
                }
            }
        }
    }
    fn is_end_stream(&self) -> bool {
        if !self.hints {
            return false;
        }
        // true only when `poll_frame` would answer `None` right away
        self.plan.is_empty() && self.buf.is_empty() && self.trailers.is_none() && (self.inner_done || self.inner.is_end_stream())
    }
    fn size_hint(&self) -> http_body::SizeHint {
        let mut h = http_body::SizeHint::new();
        if !self.hints {
            return h;
        }
        // data bytes still to be handed out: what is buffered, plus what the wrapped body still has
        let have = self.buf.len() as u64;
        h.set_lower(have);
        if self.inner_done || self.inner.is_end_stream() {
            h.set_exact(have);
        } else if let Some(b) = self.bound {
            h.set_upper(have + (b.saturating_sub(self.pulled)) as u64);
        }
        h
    }
}

// ---------------------------------------------------------------------------------------------
// scripted streams
// ---------------------------------------------------------------------------------------------

// Both scripted streams are strict: once they have returned `Ready(None)` a further poll panics
// (as `futures::stream::unfold` does) — tonic must not poll a finished user stream again (seed C02c).
struct ReqStream(VecDeque<Tok>, bool);

impl Stream for ReqStream {
    type Item = Vec<u8>;
    fn poll_next(mut self: Pin<&mut Self>, cx: &mut Context<'_>) -> Poll<Option<Vec<u8>>> {
        match self.0.pop_front() {
            None => {
                if self.1 {
                    panic!("request stream polled again after it returned Ready(None)");
                }
                self.1 = true;
                Poll::Ready(None)
            }
            Some(Tok::Pend) => {
                cx.waker().wake_by_ref();
                Poll::Pending
            }
            Some(Tok::Msg(m)) => Poll::Ready(Some(m)),
        }
    }
}

struct RespStream {
    toks: VecDeque<Tok>,
    fin: Option<Status>,
    ended: bool,
}

impl Stream for RespStream {
    type Item = Result<Vec<u8>, Status>;
    fn poll_next(mut self: Pin<&mut Self>, cx: &mut Context<'_>) -> Poll<Option<Self::Item>> {
        match self.toks.pop_front() {
            None => match self.fin.take() {
                Some(st) => Poll::Ready(Some(Err(st))),
                None => {
                    if self.ended {
                        panic!("response stream polled again after it returned Ready(None)");
                    }
                    self.ended = true;
                    Poll::Ready(None)
                }
            },
            Some(Tok::Pend) => {
                cx.waker().wake_by_ref();
                Poll::Pending
            }
            Some(Tok::Msg(m)) => Poll::Ready(Some(Ok(m))),
        }
    }
}

type BoxStream = Pin<Box<dyn Stream<Item = Result<Vec<u8>, Status>> + Send>>;
type BoxFut<T> = Pin<Box<dyn Future<Output = T> + Send>>;

// ---------------------------------------------------------------------------------------------
// the scripted handler (all four service traits)
// ---------------------------------------------------------------------------------------------

#[derive(Clone)]
struct Handler {
    case: Arc<Case>,
    seen: Arc<Mutex<String>>,
}

impl Handler {
    fn single(&self) -> Result<Response<Vec<u8>>, Status> {
        if let Some(e) = &self.case.early {
            return Err(make_status(e));
        }
        let m = self
            .case
            .body
            .iter()
            .find_map(|t| if let Tok::Msg(m) = t { Some(m.clone()) } else { None })
            .expect("a unary-response handler script has a message");
        let mut r = if self.case.has("api2") {
            // the other ways to a `Response`: `From<T>` for a bare message, `from_parts`, `map`
            if self.case.init_md.is_empty() {
                Response::from(m)
            } else {
                Response::from_parts(metadata(&self.case.init_md), (m, 0u8), Default::default()).map(|(m, _)| m)
            }
        } else {
            let mut r = Response::new(m);
            *r.metadata_mut() = metadata(&self.case.init_md);
            r
        };
        if self.case.has("nocomp") {
            r.disable_compression();
        }
        Ok(r)
    }
    fn stream(&self) -> Result<Response<BoxStream>, Status> {
        if let Some(e) = &self.case.early {
            return Err(make_status(e));
        }
        let s = RespStream { toks: self.case.body.iter().cloned().collect(), fin: self.case.fin.as_ref().map(make_status), ended: false };
        let r = if self.case.has("api2") {
            Response::from_parts(metadata(&self.case.init_md), s, Default::default()).map(|s| Box::pin(s) as BoxStream)
        } else {
            let mut r = Response::new(Box::pin(s) as BoxStream);
            *r.metadata_mut() = metadata(&self.case.init_md);
            r
        };
        Ok(r)
    }
    /// metadata as the handler got it; over the real channel tonic's transport adds its own
    /// `user-agent` (a reserved name, not user metadata)
    fn seen_md(&self, m: &MetadataMap) -> String {
        let mut h = m.clone().into_headers();
        if self.case.h2 {
            h.remove("user-agent");
        }
        if self.case.comp.is_some() {
            for n in COMPRESSION_NAMES {
                h.remove(n);
            }
        }
        render_headers(&h)
    }
    /// every invocation must have seen the same thing (concurrent identical calls)
    fn record(&self, what: String) {
        let mut cur = self.seen.lock().unwrap();
        if *cur == "notcalled" {
            *cur = what;
        } else if *cur != what && !cur.starts_with("DIVERGED") {
            *cur = format!("DIVERGED {} || {}", cur, what).replace(' ', "_");
        }
    }
    fn saw_unary(&self, req: &Request<Vec<u8>>) {
        self.record(format!("unary {} {}", self.seen_md(req.metadata()), hex(req.get_ref())));
    }
    async fn read_stream(&self, req: Request<Streaming<Vec<u8>>>) {
        let api2 = self.case.has("api2");
        let (md, mut s) = if api2 {
            let md = req.metadata().clone();
            (md, req.into_inner())
        } else {
            let (md, _ext, s) = req.into_parts();
            (md, s)
        };
        let mut msgs = Vec::new();
        let mut ended = "open".to_string();
        for _ in 0..self.case.reads {
            let item = if api2 {
                // `Streaming` as a `Stream`
                tokio_stream::StreamExt::next(&mut s).await.transpose()
            } else {
                s.message().await
            };
            match item {
                Ok(Some(m)) => msgs.push(hex(&m)),
                Ok(None) => {
                    ended = "done".into();
                    break;
                }
                Err(st) => {
                    ended = format!("err {}", render_status(&st));
                    break;
                }
            }
        }
        let mut out = format!("stream {} {}", self.seen_md(&md), msgs.len());
        for m in msgs {
            out.push(' ');
            out.push_str(&m);
        }
        out.push(' ');
        out.push_str(&ended);
        self.record(out);
    }
}

impl tonic::server::UnaryService<Vec<u8>> for Handler {
    type Response = Vec<u8>;
    type Future = BoxFut<Result<Response<Vec<u8>>, Status>>;
    fn call(&mut self, req: Request<Vec<u8>>) -> Self::Future {
        let h = self.clone();
        Box::pin(async move {
            h.saw_unary(&req);
            h.single()
        })
    }
}

impl tonic::server::ServerStreamingService<Vec<u8>> for Handler {
    type Response = Vec<u8>;
    type ResponseStream = BoxStream;
    type Future = BoxFut<Result<Response<BoxStream>, Status>>;
    fn call(&mut self, req: Request<Vec<u8>>) -> Self::Future {
        let h = self.clone();
        Box::pin(async move {
            h.saw_unary(&req);
            h.stream()
        })
    }
}

impl tonic::server::ClientStreamingService<Vec<u8>> for Handler {
    type Response = Vec<u8>;
    type Future = BoxFut<Result<Response<Vec<u8>>, Status>>;
    fn call(&mut self, req: Request<Streaming<Vec<u8>>>) -> Self::Future {
        let h = self.clone();
        Box::pin(async move {
            h.read_stream(req).await;
            h.single()
        })
    }
}

impl tonic::server::StreamingService<Vec<u8>> for Handler {
    type Response = Vec<u8>;
    type ResponseStream = BoxStream;
    type Future = BoxFut<Result<Response<BoxStream>, Status>>;
    fn call(&mut self, req: Request<Streaming<Vec<u8>>>) -> Self::Future {
        let h = self.clone();
        Box::pin(async move {
            h.read_stream(req).await;
            h.stream()
        })
    }
}

/// the real `server::Grpc` entry point the case names
fn encoding_of(c: Option<char>) -> Option<tonic::codec::CompressionEncoding> {
    match c {
        Some('g') => Some(tonic::codec::CompressionEncoding::Gzip),
        Some('d') => Some(tonic::codec::CompressionEncoding::Deflate),
        Some('z') => Some(tonic::codec::CompressionEncoding::Zstd),
        _ => None,
    }
}

/// names the protocol itself adds when compression is on; removed before comparing (the Lean
/// model has compression off: these cases check that compression is transparent end to end)
const COMPRESSION_NAMES: [&str; 2] = ["grpc-encoding", "grpc-accept-encoding"];

async fn serve(case: Arc<Case>, seen: Arc<Mutex<String>>, req: http::Request<Body>) -> http::Response<Body> {
    let mut grpc = tonic::server::Grpc::new(RawCodec(case.yield_thr));
    let (acc, snd) = (encoding_of(case.comp), encoding_of(case.comp_resp()));
    let lims = case.limits();
    if case.has("gen") {
        // what generated servers do
        let mut a = tonic::codec::EnabledCompressionEncodings::default();
        let mut s = tonic::codec::EnabledCompressionEncodings::default();
        if let Some(e) = acc {
            a.enable(e);
        }
        if let Some(e) = snd {
            s.enable(e);
        }
        grpc = grpc.apply_compression_config(a, s).apply_max_message_size_config(lims.map(|l| l.0), lims.map(|l| l.1));
    } else {
        if let Some(e) = acc {
            grpc = grpc.accept_compressed(e);
        }
        if let Some(e) = snd {
            grpc = grpc.send_compressed(e);
        }
        if let Some((rq, rs)) = lims {
            grpc = grpc.max_decoding_message_size(rq).max_encoding_message_size(rs);
        }
    }
    let h = Handler { case: case.clone(), seen };
    match (case.srv_req_stream, case.srv_resp_stream) {
        (false, false) => grpc.unary(h, req).await,
        (false, true) => grpc.server_streaming(h, req).await,
        (true, false) => grpc.client_streaming(h, req).await,
        (true, true) => grpc.streaming(h, req).await,
    }
}

// ---------------------------------------------------------------------------------------------
// quick tier transport: in-process adapter
// ---------------------------------------------------------------------------------------------

/// the interceptor of `icpt` cases: hands the request on as it is
type PassFn = fn(Request<()>) -> Result<Request<()>, Status>;
fn pass_through(r: Request<()>) -> Result<Request<()>, Status> {
    Ok(r)
}

#[derive(Clone)]
struct InProc {
    case: Arc<Case>,
    seen: Arc<Mutex<String>>,
}

impl tower::Service<http::Request<Body>> for InProc {
    type Response = http::Response<Body>;
    type Error = Status;
    type Future = BoxFut<Result<Self::Response, Status>>;
    fn poll_ready(&mut self, _cx: &mut Context<'_>) -> Poll<Result<(), Status>> {
        Poll::Ready(Ok(()))
    }
    fn call(&mut self, req: http::Request<Body>) -> Self::Future {
        let case = self.case.clone();
        let seen = self.seen.clone();
        Box::pin(async move {
            let hints = case.has("hints");
            // what the case tells about the size of the two bodies (nothing when they are compressed)
            let bound = |t: &[Tok]| if case.comp.is_some() { None } else { Some(frame_starts(t).1) };
            let (parts, body) = req.into_parts();
            let rq_body = if hints { ReChunk::with_hints(body, &case.rq_cut, bound(&case.rq)) } else { ReChunk::new(body, &case.rq_cut) };
            let req = http::Request::from_parts(parts, Body::new(rq_body));
            let resp = if case.has("icpt") {
                use tower::ServiceExt;
                let (c2, s2) = (case.clone(), seen.clone());
                let inner = tower::service_fn(move |req: http::Request<Body>| {
                    let (c3, s3) = (c2.clone(), s2.clone());
                    async move { Ok::<_, Status>(serve(c3, s3, req).await) }
                });
                tonic::service::interceptor::InterceptedService::new(inner, pass_through as PassFn).oneshot(req).await?.map(Body::new)
            } else {
                serve(case.clone(), seen, req).await
            };
            let (parts, body) = resp.into_parts();
            let rs_body = if hints { ReChunk::with_hints(body, &case.rs_cut, bound(&case.body)) } else { ReChunk::new(body, &case.rs_cut) };
            Ok(http::Response::from_parts(parts, Body::new(rs_body)))
        })
    }
}

// ---------------------------------------------------------------------------------------------
// the client side: one call through the public client API, observed to its end
// ---------------------------------------------------------------------------------------------

async fn client_call<T>(case: &Case, svc: T, strip: &[&str]) -> String
where
    T: tonic::client::GrpcService<Body> + Clone + Send,
    T::ResponseBody: HttpBody<Data = Bytes> + Send + 'static,
    <T::ResponseBody as HttpBody>::Error: Into<Box<dyn std::error::Error + Send + Sync>> + Send,
    T::Future: Send,
{
    // `api2`: `Grpc::new`, as generated clients do (over a channel the origin comes from its AddOrigin layer)
    let mut grpc = if case.has("api2") {
        tonic::client::Grpc::new(svc)
    } else {
        tonic::client::Grpc::with_origin(svc, http::Uri::from_static("http://verif.test"))
    };
    if let Some(e) = encoding_of(case.comp) {
        grpc = grpc.send_compressed(e);
    }
    if let Some(e) = encoding_of(case.comp_resp()) {
        grpc = grpc.accept_compressed(e);
    }
    if let Some((rq, rs)) = case.limits() {
        grpc = grpc.max_encoding_message_size(rq).max_decoding_message_size(rs);
    }
    if case.has("clone") {
        // the configured value is cloned (generated clients are `Clone`); the clone makes the call
        let c = grpc.clone();
        drop(grpc);
        grpc = c;
    }
    let first = one_call(case, &mut grpc, strip).await;
    if case.has("twice") {
        // the same client value again: it must behave as the first time
        let second = one_call(case, &mut grpc, strip).await;
        if second != first {
            return format!("CLIENT DIVERGED {}", format!("{}_||_{}", first, second).replace(' ', "_"));
        }
    }
    first
}

async fn one_call<T>(case: &Case, grpc: &mut tonic::client::Grpc<T>, strip: &[&str]) -> String
where
    T: tonic::client::GrpcService<Body> + Send,
    T::ResponseBody: HttpBody<Data = Bytes> + Send + 'static,
    <T::ResponseBody as HttpBody>::Error: Into<Box<dyn std::error::Error + Send + Sync>> + Send,
    T::Future: Send,
{
    use tonic::{IntoRequest, IntoStreamingRequest};
    if grpc.ready().await.is_err() {
        return "CLIENT notready".into();
    }
    let api2 = case.has("api2");
    let path = http::uri::PathAndQuery::from_static("/verif.Svc/Call");
    let codec = RawCodec(case.yield_thr);
    let md = metadata(&case.rq_md);
    let single_req: Option<Vec<u8>> = match &case.rq[..] {
        [Tok::Msg(m)] => Some(m.clone()),
        _ => None,
    };
    let mk_stream = || ReqStream(case.rq.iter().cloned().collect(), false);
    // `api2`: the way generated clients and their users build requests: a bare message / stream or a
    // `Request::new` value with `metadata_mut`, through `IntoRequest` / `IntoStreamingRequest`
    let single = |m: Vec<u8>| -> Request<Vec<u8>> {
        if !api2 {
            Request::from_parts(md.clone(), Default::default(), m)
        } else if case.rq_md.is_empty() {
            m.into_request()
        } else {
            let mut r = Request::new((m, 0u8));
            *r.metadata_mut() = md.clone();
            r.map(|(m, _)| m).into_request()
        }
    };
    let streamed = || -> Request<ReqStream> {
        if !api2 {
            Request::from_parts(md.clone(), Default::default(), mk_stream())
        } else if case.rq_md.is_empty() {
            mk_stream().into_streaming_request()
        } else {
            let mut r = Request::new(mk_stream());
            *r.metadata_mut() = md.clone();
            r.into_streaming_request()
        }
    };
    let clean = |m: &MetadataMap| {
        let mut h = m.clone().into_headers();
        for s in strip {
            h.remove(*s);
        }
        render_headers(&h)
    };
    let clean_status = |st: &Status| {
        let mut h = st.metadata().clone().into_headers();
        for s in strip {
            h.remove(*s);
        }
        format!("{} {} {} {}", st.code() as i32, hex(&canon_msg(st.message())), hex(st.details()), render_headers(&h))
    };
    if !case.cli_resp_stream {
        let r = match single_req {
            Some(m) => grpc.unary(single(m), path, codec).await,
            None => grpc.client_streaming(streamed(), path, codec).await,
        };
        match r {
            Err(st) => format!("CLIENT err {}", clean_status(&st)),
            Ok(resp) => {
                if api2 {
                    let md = clean(resp.metadata());
                    format!("CLIENT single {} {}", md, hex(&resp.into_inner()))
                } else {
                    let (md, m, _) = resp.into_parts();
                    format!("CLIENT single {} {}", clean(&md), hex(&m))
                }
            }
        }
    } else {
        let r = match single_req {
            Some(m) => grpc.server_streaming(single(m), path, codec).await,
            None => grpc.streaming(streamed(), path, codec).await,
        };
        match r {
            Err(st) => format!("CLIENT err {}", clean_status(&st)),
            Ok(resp) => {
                let (md, mut s) = if api2 {
                    let md = resp.metadata().clone();
                    (md, resp.into_inner())
                } else {
                    let (md, s, _) = resp.into_parts();
                    (md, s)
                };
                let mut msgs = Vec::new();
                let ended;
                loop {
                    let item = if api2 {
                        // `Streaming` as a `Stream`
                        tokio_stream::StreamExt::next(&mut s).await.transpose()
                    } else {
                        s.message().await
                    };
                    match item {
                        Ok(Some(m)) => msgs.push(hex(&m)),
                        Ok(None) => {
                            ended = "ok".to_string();
                            break;
                        }
                        Err(st) => {
                            ended = format!("err {}", clean_status(&st));
                            break;
                        }
                    }
                    if msgs.len() > 100_000 {
                        return "CLIENT busy-loop".into();
                    }
                }
                let tr = match s.trailers().await {
                    Ok(None) => "none".to_string(),
                    Ok(Some(t)) => clean(&t),
                    Err(st) => format!("err {}", clean_status(&st)),
                };
                let mut out = format!("CLIENT stream {} {}", clean(&md), msgs.len());
                for m in msgs {
                    out.push(' ');
                    out.push_str(&m);
                }
                format!("{} {} TR {}", out, ended, tr)
            }
        }
    }
}

fn exec_inproc(case: Case) -> String {
    let rt = paused_rt();
    rt.block_on(async move {
        let case = Arc::new(case);
        let seen = Arc::new(Mutex::new("notcalled".to_string()));
        let svc = InProc { case: case.clone(), seen: seen.clone() };
        let strip: &'static [&'static str] = if case.comp.is_some() { &COMPRESSION_NAMES } else { &[] };
        let fut: BoxFut<String> = if case.has("icpt") {
            let c = case.clone();
            let svc = tonic::service::interceptor::InterceptedService::new(svc, pass_through as PassFn);
            Box::pin(async move { client_call(&c, svc, strip).await })
        } else {
            let c = case.clone();
            Box::pin(async move { client_call(&c, svc, strip).await })
        };
        let client = match tokio::time::timeout(Duration::from_secs(30), fut).await {
            Ok(s) => s,
            Err(_) => "CLIENT hang".to_string(),
        };
        let s = seen.lock().unwrap().clone();
        summarise(&s, &client)
    })
}

/// `K=<what the handler got>/<what the client got>`: a summary token put first so that the
/// evidence's distribution by observed class is informative
fn summarise(seen: &str, client: &str) -> String {
    let sw: Vec<&str> = seen.split(' ').collect();
    let sk = match sw[0] {
        "stream" => format!("stream-{}", if sw.contains(&"err") { "err" } else { sw[sw.len() - 1] }),
        other => other.to_string(),
    };
    let cw: Vec<&str> = client.split(' ').collect();
    let ck = match cw.get(1).copied().unwrap_or("?") {
        "stream" => {
            let tr = cw.iter().position(|x| *x == "TR").unwrap_or(cw.len());
            format!("stream-{}", if cw[..tr].contains(&"err") { "err" } else { "ok" })
        }
        "err" => format!("err{}", cw.get(2).copied().unwrap_or("")),
        other => other.to_string(),
    };
    format!("K={}/{} SEEN {} {}", sk, ck, seen, client)
}

// ---------------------------------------------------------------------------------------------
// thorough tier transport: real hyper/h2 over fragmenting duplex pipes
// ---------------------------------------------------------------------------------------------

#[derive(Clone)]
struct H2Svc {
    case: Arc<Case>,
    seen: Arc<Mutex<String>>,
}

impl tonic::server::NamedService for H2Svc {
    const NAME: &'static str = "verif.Svc";
}

impl tower::Service<http::Request<Body>> for H2Svc {
    type Response = http::Response<Body>;
    type Error = std::convert::Infallible;
    type Future = BoxFut<Result<Self::Response, Self::Error>>;
    fn poll_ready(&mut self, _cx: &mut Context<'_>) -> Poll<Result<(), Self::Error>> {
        Poll::Ready(Ok(()))
    }
    fn call(&mut self, req: http::Request<Body>) -> Self::Future {
        let case = self.case.clone();
        let seen = self.seen.clone();
        Box::pin(async move { Ok(serve(case, seen, req).await) })
    }
}

/// forward bytes from `r` to `w` in fragments whose sizes follow `sizes` cyclically, yielding
/// to the scheduler between fragments (`Pend` = an extra yield)
async fn fragmenting_copy<R, W>(mut r: R, mut w: W, steps: Vec<Step>)
where
    R: tokio::io::AsyncRead + Unpin,
    W: tokio::io::AsyncWrite + Unpin,
{
    use tokio::io::{AsyncReadExt, AsyncWriteExt};
    let mut i = 0usize;
    let mut buf = vec![0u8; 64 * 1024];
    loop {
        // next fragment size; `Pend` steps on the way are extra yields (never a spin: at most one
        // pass over the plan per fragment)
        let mut want = buf.len();
        for _ in 0..steps.len() {
            let s = steps[i % steps.len()].clone();
            i += 1;
            match s {
                Step::Pend => tokio::task::yield_now().await,
                Step::Take(k) => {
                    want = k.clamp(1, buf.len());
                    break;
                }
            }
        }
        match r.read(&mut buf[..want]).await {
            Ok(0) | Err(_) => break,
            Ok(n) => {
                if w.write_all(&buf[..n]).await.is_err() {
                    break;
                }
                let _ = w.flush().await;
                tokio::task::yield_now().await;
            }
        }
    }
    let _ = w.shutdown().await;
}

/// a user layer (`Server::builder().layer(..)`) whose response body implements `poll_frame` only:
/// no `is_end_stream` / `size_hint` hints reach hyper
#[derive(Clone)]
struct PlainSvc<S>(S);

struct PlainBody<B>(B);

impl<B: HttpBody + Unpin> HttpBody for PlainBody<B> {
    type Data = B::Data;
    type Error = B::Error;
    fn poll_frame(mut self: Pin<&mut Self>, cx: &mut Context<'_>) -> Poll<Option<Result<Frame<B::Data>, B::Error>>> {
        Pin::new(&mut self.0).poll_frame(cx)
    }
}

impl<S, B> tower::Service<http::Request<Body>> for PlainSvc<S>
where
    S: tower::Service<http::Request<Body>, Response = http::Response<B>>,
    S::Future: Send + 'static,
    B: HttpBody + Unpin,
{
    type Response = http::Response<PlainBody<B>>;
    type Error = S::Error;
    type Future = BoxFut<Result<Self::Response, S::Error>>;
    fn poll_ready(&mut self, cx: &mut Context<'_>) -> Poll<Result<(), S::Error>> {
        self.0.poll_ready(cx)
    }
    fn call(&mut self, req: http::Request<Body>) -> Self::Future {
        let f = self.0.call(req);
        Box::pin(async move { Ok(f.await?.map(PlainBody)) })
    }
}

#[derive(Clone)]
struct PipeConnector {
    case: Arc<Case>,
    seen: Arc<Mutex<String>>,
    stops: Arc<Mutex<Vec<tokio::sync::oneshot::Sender<()>>>>,
}

impl tower::Service<http::Uri> for PipeConnector {
    type Response = hyper_util::rt::TokioIo<tokio::io::DuplexStream>;
    type Error = std::io::Error;
    type Future = BoxFut<Result<Self::Response, Self::Error>>;
    fn poll_ready(&mut self, _cx: &mut Context<'_>) -> Poll<Result<(), Self::Error>> {
        Poll::Ready(Ok(()))
    }
    fn call(&mut self, _uri: http::Uri) -> Self::Future {
        let me = self.clone();
        Box::pin(async move {
            let (client_io, cable_a) = tokio::io::duplex(64 * 1024);
            let (cable_b, server_io) = tokio::io::duplex(64 * 1024);
            let (stop_tx, stop_rx) = tokio::sync::oneshot::channel::<()>();
            me.stops.lock().unwrap().push(stop_tx);
            let svc = H2Svc { case: me.case.clone(), seen: me.seen.clone() };
            let (knobs, icpt) = (me.case.has("knobs"), me.case.has("icpt"));
            tokio::spawn(async move {
                use tokio_stream::StreamExt;
                let incoming = tokio_stream::once(Ok::<_, std::io::Error>(server_io)).chain(tokio_stream::pending());
                let stop = async move {
                    let _ = stop_rx.await;
                };
                let plain = tonic::transport::Server::builder;
                // `knobs`: settings that must not change any call
                let knobbed = || {
                    tonic::transport::Server::builder()
                        .timeout(Duration::from_secs(3600))
                        .concurrency_limit_per_connection(8)
                        // windows LARGER than HTTP/2's initial 65 535: a server that shrinks its stream window
                        // (e.g. 5000) while the client already has more than 65 535 bytes of one request in flight
                        // (its SETTINGS still on the way over a slow pipe) stalls the stream inside h2 — flow
                        // control is outside this property's transport relation (props.d/C02.json, level_note)
                        .initial_stream_window_size(1_000_000u32)
                        .initial_connection_window_size(2_000_000u32)
                        .max_concurrent_streams(16u32)
                        .max_frame_size(20_000u32)
                        .layer(tower::layer::layer_fn(PlainSvc))
                };
                let isvc = || tonic::service::interceptor::InterceptedService::new(svc.clone(), pass_through as PassFn);
                let _ = match (knobs, icpt) {
                    (false, false) => plain().add_service(svc.clone()).serve_with_incoming_shutdown(incoming, stop).await,
                    (false, true) => plain().add_service(isvc()).serve_with_incoming_shutdown(incoming, stop).await,
                    (true, false) => knobbed().add_service(svc.clone()).serve_with_incoming_shutdown(incoming, stop).await,
                    (true, true) => knobbed().add_service(isvc()).serve_with_incoming_shutdown(incoming, stop).await,
                };
            });
            let (ar, aw) = tokio::io::split(cable_a);
            let (br, bw) = tokio::io::split(cable_b);
            tokio::spawn(fragmenting_copy(ar, bw, me.case.rq_cut.clone()));
            tokio::spawn(fragmenting_copy(br, aw, me.case.rs_cut.clone()));
            Ok(hyper_util::rt::TokioIo::new(client_io))
        })
    }
}

fn exec_h2(case: Case) -> String {
    let rt = paused_rt();
    rt.block_on(async move {
        let case = Arc::new(case);
        let seen = Arc::new(Mutex::new("notcalled".to_string()));
        let stops = Arc::new(Mutex::new(Vec::new()));
        let connector = PipeConnector { case: case.clone(), seen: seen.clone(), stops: stops.clone() };
        let mut endpoint = tonic::transport::Endpoint::from_static("http://verif.test");
        if case.has("knobs") {
            // settings that must not change any call
            endpoint = endpoint
                .timeout(Duration::from_secs(3600))
                .concurrency_limit(8)
                .rate_limit(1000, Duration::from_secs(1))
                .initial_stream_window_size(5000u32)
                .initial_connection_window_size(100_000u32)
                .buffer_size(4usize)
                .user_agent("verif-agent/1")
                .expect("a valid user-agent");
        }
        let connecting: BoxFut<Result<tonic::transport::Channel, tonic::transport::Error>> = if case.has("lazy") {
            let ch = endpoint.connect_with_connector_lazy(connector);
            Box::pin(async move { Ok(ch) })
        } else {
            Box::pin(async move { endpoint.connect_with_connector(connector).await })
        };
        let channel = match tokio::time::timeout(Duration::from_secs(30), connecting).await {
            Ok(Ok(ch)) => ch,
            Ok(Err(e)) => return format!("K=notcalled/connect-failed SEEN notcalled CLIENT connect-failed {}", format!("{:?}", e).replace(' ', "_")),
            Err(_) => return "K=notcalled/hang SEEN notcalled CLIENT hang".to_string(),
        };
        // hyper's server adds `date`; it is not part of what tonic or the handler sent
        let client = if case.conc <= 1 {
            let fut: BoxFut<String> = if case.has("icpt") {
                let c = case.clone();
                let svc = tonic::service::interceptor::InterceptedService::new(channel, pass_through as PassFn);
                Box::pin(async move { client_call(&c, svc, &["date"]).await })
            } else {
                let c = case.clone();
                Box::pin(async move { client_call(&c, channel, &["date"]).await })
            };
            match tokio::time::timeout(Duration::from_secs(60), fut).await {
                Ok(s) => s,
                Err(_) => "CLIENT hang".to_string(),
            }
        } else {
            // the same call several times at once on the one connection: h2 interleaves the
            // frames of the streams; every call must come out the same
            let mut handles = Vec::new();
            for _ in 0..case.conc {
                let ch = channel.clone();
                let case = case.clone();
                handles.push(tokio::spawn(async move {
                    match tokio::time::timeout(Duration::from_secs(60), client_call(&case, ch, &["date"])).await {
                        Ok(s) => s,
                        Err(_) => "CLIENT hang".to_string(),
                    }
                }));
            }
            let mut results = Vec::new();
            for h in handles {
                results.push(h.await.unwrap_or_else(|_| "CLIENT panic".to_string()));
            }
            if results.iter().all(|r| *r == results[0]) {
                results[0].clone()
            } else {
                format!("CLIENT DIVERGED {}", results.join("_||_").replace(' ', "_"))
            }
        };
        for s in stops.lock().unwrap().drain(..) {
            let _ = s.send(());
        }
        let s = seen.lock().unwrap().clone();
        summarise(&s, &client)
    })
}

pub fn execute(case: &str) -> String {
    match parse_case(case) {
        None => "bad-case".into(),
        Some(c) => {
            if !c.srv_resp_stream && c.early.is_none() && !c.body.iter().any(|t| matches!(t, Tok::Msg(_))) {
                return "bad-case".into();
            }
            if c.h2 {
                exec_h2(c)
            } else {
                exec_inproc(c)
            }
        }
    }
}

// ---------------------------------------------------------------------------------------------
// generators
// ---------------------------------------------------------------------------------------------

fn s(x: &str) -> Vec<u8> {
    x.as_bytes().to_vec()
}

const B64: &[u8; 64] = b"ABCDEFGHIJKLMNOPQRSTUVWXYZabcdefghijklmnopqrstuvwxyz0123456789+/";

/// unpadded standard base64 (what tonic stores for a binary metadata value)
fn b64(raw: &[u8]) -> Vec<u8> {
    let mut out = Vec::new();
    for c in raw.chunks(3) {
        let n = (c[0] as u32) << 16 | (*c.get(1).unwrap_or(&0) as u32) << 8 | *c.get(2).unwrap_or(&0) as u32;
        out.push(B64[(n >> 18) as usize & 63]);
        out.push(B64[(n >> 12) as usize & 63]);
        if c.len() > 1 {
            out.push(B64[(n >> 6) as usize & 63]);
        }
        if c.len() > 2 {
            out.push(B64[n as usize & 63]);
        }
    }
    out
}

const CUSTOM_NAMES: [&str; 8] = ["x-a", "x-b", "x-trace-id", "a", "zz-top", "x-a-bin", "data-bin", "x_under.dot"];
const RESERVED_NAMES: [&str; 7] = ["te", "user-agent", "content-type", "grpc-status", "grpc-message", "grpc-message-type", "grpc-status-details-bin"];

fn gen_value(rng: &mut Rng, bin: bool) -> Vec<u8> {
    if bin {
        let n = *rng.pick(&[0usize, 1, 2, 3, 4, 5, 16, 33]);
        return b64(&rng.bytes(n));
    }
    match rng.below(8) {
        0 => vec![],
        1 => s("1"),
        2 => s("a b  c"),
        3 => s("v:1,v:2;q=0.5"),
        4 => s("%41%zz 100%"),
        5 => {
            // obs-text and TAB are legal header value bytes
            vec![b'x', 0x09, 0x80, 0xC3, 0xA9, 0xFF, b'y']
        }
        6 => {
            let n = rng.range(1, 120) as usize;
            (0..n).map(|_| rng.range(0x21, 0x7e) as u8).collect()
        }
        _ => s("value"),
    }
}

/// metadata with repeated names (interleaved with other names), binary names, reserved names
fn gen_md(rng: &mut Rng, h2: bool) -> Entries {
    let mut e = Vec::new();
    let n = match rng.below(6) {
        0 => 0,
        1 => 1,
        _ => rng.range(1, 7),
    };
    for _ in 0..n {
        let name = if rng.chance(1, 5) { *rng.pick(&RESERVED_NAMES) } else { *rng.pick(&CUSTOM_NAMES) };
        // over real HTTP/2 `te` may only be "trailers" on the wire; it is stripped anyway
        let bin = name.ends_with("-bin");
        let mut v = gen_value(rng, bin);
        if h2 {
            // h2 rejects nothing in values that http accepts, but keep to visible ASCII + obs-text
            v.retain(|b| *b != 0x09 || true);
        }
        e.push((s(name), v.clone()));
        if rng.chance(1, 3) {
            // repeat the name right away or later
            let v2 = gen_value(rng, bin);
            if rng.chance(1, 2) {
                e.push((s(name), v2));
            } else {
                let other = *rng.pick(&CUSTOM_NAMES);
                e.push((s(other), gen_value(rng, other.ends_with("-bin"))));
                e.push((s(name), v2));
            }
        }
    }
    e
}

const TEXTS: [&str; 14] = [
    "",
    "user",
    "50% off",
    "%",
    "%41%zz",
    "line1\nline2\r\n",
    "na\u{ef}ve \u{fc}n\u{ef} \u{2014} \u{2713} \u{1F600}",
    " leading and trailing ",
    "tab\there\u{0}nul\u{7f}del",
    "{\"json\": [1,2,3]}",
    "grpc-status: 0",
    "\u{feff}bom",
    "status: 13 internal? no: a user text",
    "a+b=c&d / e\\f",
];

fn gen_text(rng: &mut Rng) -> Vec<u8> {
    match rng.below(4) {
        0 => {
            let n = rng.range(0, 12) as usize;
            let pool: Vec<char> = "a %\n\u{e9}\u{4e2d}\u{1F600}~\u{80}\u{7ff}\u{800}\u{ffff}\t\"".chars().collect();
            let st: String = (0..n).map(|_| *rng.pick(&pool)).collect();
            st.into_bytes()
        }
        1 => {
            let n = *rng.pick(&[1usize, 63, 64, 255, 256, 300, 1000]);
            vec![b'm'; n]
        }
        _ => s(*rng.pick(&TEXTS)),
    }
}

fn gen_details(rng: &mut Rng) -> Vec<u8> {
    match rng.below(6) {
        0 | 1 => vec![],
        2 => { let n = rng.range(1, 4) as usize; rng.bytes(n) } // every base64 tail length
        3 => vec![0xFF, 0x00, 0xFB, 0xEF, 0xBE], // '+' and '/' heavy
        4 => { let n = rng.range(5, 200) as usize; rng.bytes(n) }
        _ => vec![0u8; rng.range(1, 7) as usize],
    }
}

fn gen_status(rng: &mut Rng, h2: bool) -> StatusSpec {
    let mut st = StatusSpec { code: rng.range(1, 16) as i32, msg: gen_text(rng), details: gen_details(rng), md: gen_md(rng, h2) };
    // large fields (in-process only: over real HTTP/2 they would exceed the peer's header-list limit):
    // a status message / details / one metadata value well beyond 32 KiB must arrive whole
    if !h2 && rng.chance(1, 40) {
        match rng.below(3) {
            0 => {
                let n = *rng.pick(&[8192usize, 40000, 70000]);
                let mut m = vec![b'm'; n];
                m.extend_from_slice("\u{e9}%\n".as_bytes());
                st.msg = m;
            }
            1 => {
                let n = *rng.pick(&[8191usize, 40000, 70001]);
                st.details = rng.bytes(n);
            }
            _ => {
                let n = *rng.pick(&[8192usize, 16384, 40000]);
                st.md.push((s("x-big"), (0..n).map(|i| b'a' + (i % 26) as u8).collect()));
            }
        }
    }
    st
}

/// sizes around HTTP/2's default frame size and flow-control window and tonic's yield threshold
const BIG: [usize; 9] = [16379, 16384, 16385, 32763, 32768, 65530, 65536, 70000, 150000];

fn gen_big(rng: &mut Rng) -> Vec<u8> {
    let n = *rng.pick(&BIG);
    let seed = rng.next() as u8;
    let mut m: Vec<u8> = (0..n).map(|i| (i as u8).wrapping_mul(31).wrapping_add(seed)).collect();
    if m[0] == 0xFF {
        m[0] = 0xFE;
    }
    m
}

fn gen_sched(rng: &mut Rng, k: usize, maxlen: usize, pendings: bool) -> Vec<Tok> {
    let mut t = Vec::new();
    for _ in 0..k {
        while pendings && rng.chance(1, 4) {
            t.push(Tok::Pend);
        }
        t.push(Tok::Msg(if rng.chance(1, 150) { gen_big(rng) } else { gen_msg(rng, maxlen) }));
    }
    while pendings && rng.chance(1, 4) {
        t.push(Tok::Pend);
    }
    t
}

fn frame_starts(t: &[Tok]) -> (Vec<usize>, usize) {
    let mut starts = Vec::new();
    let mut pos = 0;
    for x in t {
        if let Tok::Msg(m) = x {
            starts.push(pos);
            pos += 5 + m.len();
        }
    }
    (starts, pos)
}

/// a transport plan over a body of `total` bytes whose frames start at `starts`
fn gen_plan(rng: &mut Rng, starts: &[usize], total: usize) -> Vec<Step> {
    let style = rng.below(7);
    let mut cuts: Vec<usize> = match style {
        0 => vec![],
        1 if total <= 400 => (1..total).collect(),
        2 | 1 => {
            // every boundary inside the 5-byte prefix (and just after it) of each frame, with prob.
            let mut c = Vec::new();
            for st in starts {
                for k in 0..=6 {
                    if rng.chance(2, 3) {
                        c.push(st + k);
                    }
                }
            }
            c
        }
        3 => {
            // the last message and the end of the body in one piece, everything before byte by byte
            let last = starts.last().copied().unwrap_or(0);
            (1..=last.min(300)).collect()
        }
        4 => {
            // one cut at a frame boundary ± 1
            let mut c = Vec::new();
            if let Some(st) = starts.get(rng.below(starts.len().max(1) as u64) as usize) {
                c.push((*st + rng.below(3) as usize).saturating_sub(1));
            }
            c
        }
        _ => {
            let k = rng.range(1, 6) as usize;
            (0..k).map(|_| rng.below(total as u64 + 1) as usize).collect()
        }
    };
    cuts.retain(|c| *c > 0 && *c < total);
    cuts.sort();
    cuts.dedup();
    let mut plan = Vec::new();
    let mut prev = 0;
    let pend = rng.chance(1, 2);
    for c in cuts {
        while pend && rng.chance(1, 5) {
            plan.push(Step::Pend);
        }
        if rng.chance(1, 30) {
            plan.push(Step::Take(0)); // an empty data frame
        }
        plan.push(Step::Take(c - prev));
        prev = c;
    }
    match rng.below(4) {
        0 => {
            // rest of the data explicitly, then Pending before the trailers / end
            if total > prev {
                plan.push(Step::Take(total - prev));
            }
            plan.push(Step::Pend);
        }
        1 => {
            if total > prev {
                plan.push(Step::Take(total - prev + rng.below(3) as usize)); // asks for more than there is
            }
        }
        _ => {} // last piece and trailers handed over back to back
    }
    plan
}

/// fragment sizes of the byte pipe for `h2` cases
fn gen_pipe_plan(rng: &mut Rng) -> Vec<Step> {
    match rng.below(6) {
        0 => vec![],
        1 => vec![Step::Take(1)],
        2 => vec![Step::Take(rng.range(2, 9) as usize)],
        3 => vec![Step::Take(9), Step::Take(1), Step::Pend, Step::Take(5)], // frame header | first payload byte | …
        4 => (0..rng.range(2, 6)).map(|_| if rng.chance(1, 5) { Step::Pend } else { Step::Take(rng.range(1, 40) as usize) }).collect(),
        _ => vec![Step::Take(rng.range(10, 4000) as usize)],
    }
}

fn gen_yield(rng: &mut Rng, total: usize) -> usize {
    match rng.below(7) {
        0 => 0,
        1 => 1,
        2 => 5,
        3 => 6,
        4 => rng.below(total as u64 + 2) as usize,
        _ => 32 * 1024,
    }
}

/// a call of one of the four shapes with matching client and server, everything in scope
fn gen_structured(rng: &mut Rng, h2: bool) -> Case {
    let q = rng.chance(1, 2);
    let sresp = rng.chance(1, 2);
    let maxlen = *rng.pick(&[8usize, 40, 300, 2000]);
    let rq = if q {
        let k = match rng.below(5) {
            0 => 0,
            1 => 1,
            _ => rng.range(2, 5) as usize,
        };
        gen_sched(rng, k, maxlen, true)
    } else {
        vec![Tok::Msg(gen_msg(rng, maxlen))]
    };
    let nreq = rq.iter().filter(|t| matches!(t, Tok::Msg(_))).count();
    let reads = if q {
        match rng.below(4) {
            0 => rng.below(nreq as u64 + 1) as usize, // stops early, or asks exactly as many times as there are messages
            1 => nreq + 1,
            _ => nreq + 1 + rng.below(3) as usize,
        }
    } else {
        0
    };
    let early = if rng.chance(1, 5) { Some(gen_status(rng, h2)) } else { None };
    let (body, fin) = if sresp {
        let k = match rng.below(5) {
            0 => 0,
            1 => 1,
            _ => rng.range(2, 5) as usize,
        };
        (gen_sched(rng, k, maxlen, true), if rng.chance(2, 5) { Some(gen_status(rng, h2)) } else { None })
    } else {
        (vec![Tok::Msg(gen_msg(rng, maxlen))], None)
    };
    let (rq_starts, rq_total) = frame_starts(&rq);
    let (rs_starts, rs_total) = frame_starts(&body);
    let yield_thr = gen_yield(rng, rq_total.max(rs_total));
    Case {
        h2,
        conc: 1,
        comp: None,
        comp2: None,
        flags: vec![],
        srv_req_stream: q,
        srv_resp_stream: sresp,
        cli_resp_stream: sresp,
        yield_thr,
        rq_md: gen_md(rng, h2),
        rq_cut: if h2 { gen_pipe_plan(rng) } else { gen_plan(rng, &rq_starts, rq_total) },
        rq,
        reads,
        early,
        init_md: gen_md(rng, h2),
        body,
        fin,
        rs_cut: if h2 { gen_pipe_plan(rng) } else { gen_plan(rng, &rs_starts, rs_total) },
    }
}

/// out-of-contract variations: mismatched shapes, undecodable messages, OK-coded errors,
/// protocol headers in user metadata, no message where one is due
fn gen_malformed(rng: &mut Rng, h2: bool) -> Case {
    let mut c = gen_structured(rng, h2);
    match rng.below(8) {
        0 => {
            // client stream API against a unary-request server: 0 or several request messages
            c.srv_req_stream = false;
            let k = *rng.pick(&[0usize, 2, 3]);
            c.rq = gen_sched(rng, k, 20, true);
        }
        1 => {
            // unary client API against a streaming-response server (0, 1, 2 messages; maybe an error)
            c.srv_resp_stream = true;
            c.cli_resp_stream = false;
            let k = *rng.pick(&[0usize, 1, 2]);
            c.body = gen_sched(rng, k, 20, true);
            c.fin = if rng.chance(1, 2) { Some(gen_status(rng, h2)) } else { None };
        }
        2 => {
            // a request message the server's codec refuses
            let pos = rng.below(c.rq.len() as u64 + 1) as usize;
            c.rq.insert(pos.min(c.rq.len()), Tok::Msg(vec![0xFF, 1, 2]));
            if !c.srv_req_stream {
                c.rq.truncate(1);
                c.rq[0] = Tok::Msg(vec![0xFF, 1, 2]);
            }
        }
        3 => {
            // a response message the client's codec refuses
            if c.srv_resp_stream {
                let pos = rng.below(c.body.len() as u64 + 1) as usize;
                c.body.insert(pos, Tok::Msg(vec![0xFF, 9]));
            } else {
                c.body = vec![Tok::Msg(vec![0xFF, 9])];
            }
        }
        4 => {
            // an "error" whose code is OK
            let mut st = gen_status(rng, h2);
            st.code = 0;
            if rng.chance(1, 2) || !c.srv_resp_stream {
                c.early = Some(st);
            } else {
                c.early = None;
                c.fin = Some(st);
            }
        }
        5 => {
            // user metadata naming the compression header
            let v = s(*rng.pick(&["gzip", "identity", "br", "zstd"]));
            match rng.below(3) {
                0 => c.rq_md.push((s("grpc-encoding"), v)),
                1 => c.init_md.push((s("grpc-encoding"), v)),
                _ => {
                    let mut st = gen_status(rng, h2);
                    st.md.push((s("grpc-encoding"), v));
                    c.early = Some(st);
                }
            }
        }
        6 => {
            // other protocol-looking names that tonic does not reserve
            c.rq_md.push((s("grpc-accept-encoding"), s("gzip")));
            c.init_md.push((s("grpc-accept-encoding"), s("identity,gzip")));
            c.init_md.push((s("grpc-timeout"), s("1S")));
        }
        _ => {
            // mismatched response API the other way: streaming client API, unary-response server
            c.srv_resp_stream = false;
            c.cli_resp_stream = true;
            c.body = vec![Tok::Msg(gen_msg(rng, 30))];
            c.fin = None;
        }
    }
    c
}

/// switch on invisible dimensions (see the header): one case in three carries some
fn gen_flags(rng: &mut Rng, c: &mut Case) {
    if !rng.chance(1, 3) {
        return;
    }
    let mut on: Vec<&'static str> = Vec::new();
    for f in ["lim", "gen", "clone", "twice", "api2", "icpt"] {
        if rng.chance(1, 3) {
            on.push(f);
        }
    }
    if c.h2 {
        if rng.chance(1, 2) {
            on.push("knobs");
        }
        if rng.chance(1, 3) {
            on.push("lazy");
        }
    } else if rng.chance(1, 2) {
        on.push("hints");
    }
    if c.comp.is_some() {
        on.retain(|f| *f != "lim");
        if !c.srv_resp_stream && rng.chance(1, 2) {
            on.push("nocomp");
        }
    }
    c.flags = FLAG_NAMES.iter().copied().filter(|f| on.contains(f)).collect();
}

/// the corpus cases once more with every invisible dimension on its own, and all together
fn corpus_flagged() -> Vec<Case> {
    let base = corpus();
    // unary ok, unary rich error, server streaming with error after two messages, error before the first
    // message (both ways), a stream of no messages that ends OK, client streaming, bidi
    let mut picks: Vec<Case> = [0usize, 1, 2, 5, 6, 8, 12, 13].iter().map(|i| base[*i].clone()).collect();
    let ss_empty_ok = Case { body: vec![], fin: None, ..base[2].clone() };
    picks.push(ss_empty_ok);
    let mut out = Vec::new();
    for c in &picks {
        for f in ["lim", "gen", "clone", "twice", "api2", "hints", "icpt"] {
            out.push(Case { flags: vec![f], ..c.clone() });
        }
        out.push(Case { flags: vec!["lim", "gen", "clone", "twice", "api2", "hints", "icpt"], ..c.clone() });
        out.push(Case { flags: vec!["lim", "gen"], ..c.clone() });
        out.push(Case { flags: vec!["lim", "clone"], ..c.clone() });
        // compression: one encoding per direction, configured both ways; single responses sent uncompressed
        for (x, y) in [('g', 'd'), ('z', 'g'), ('d', 'z')] {
            out.push(Case { comp: Some(x), comp2: Some(y), ..c.clone() });
            out.push(Case { comp: Some(x), comp2: Some(y), flags: vec!["gen", "clone"], ..c.clone() });
            if !c.srv_resp_stream {
                out.push(Case { comp: Some(x), comp2: Some(y), flags: vec!["nocomp"], ..c.clone() });
            }
        }
    }
    out
}

fn corpus() -> Vec<Case> {
    let base = Case {
        h2: false,
        conc: 1,
        comp: None,
        comp2: None,
        flags: vec![],
        srv_req_stream: false,
        srv_resp_stream: false,
        cli_resp_stream: false,
        yield_thr: 32 * 1024,
        rq_md: vec![(s("x-a"), s("1")), (s("x-b"), s("2")), (s("x-a"), s("3")), (s("te"), s("gzip")), (s("content-type"), s("text/plain"))],
        rq: vec![Tok::Msg(vec![1, 2, 3])],
        rq_cut: vec![],
        reads: 0,
        early: None,
        init_md: vec![(s("x-r"), s("a")), (s("x-r"), s("b")), (s("data-bin"), b64(&[0, 255, 7]))],
        body: vec![Tok::Msg(vec![9, 8, 7, 6])],
        fin: None,
        rs_cut: vec![],
    };
    let rich = StatusSpec {
        code: 9,
        msg: "50% \u{e9}chec\nligne 2 \u{2713}".as_bytes().to_vec(),
        details: vec![0, 255, 16, 32, 48],
        md: vec![
            (s("x-a"), s("1")),
            (s("x-b"), s("mid")),
            (s("x-a"), s("2")),
            (s("trace-bin"), b64(&[1, 2, 3, 4])),
            (s("trace-bin"), b64(&[5])),
            (s("grpc-status"), s("0")),
            (s("grpc-message"), s("forged")),
            (s("content-type"), s("text/html")),
            (s("grpc-status-details-bin"), s("QUJD")),
        ],
    };
    let mut out = Vec::new();
    // unary ok / unary rich error
    out.push(base.clone());
    out.push(Case { early: Some(rich.clone()), ..base.clone() });
    // server streaming: error after two messages; whole body and trailers handed over back to back
    let ss = Case {
        srv_resp_stream: true,
        cli_resp_stream: true,
        body: vec![Tok::Msg(vec![1]), Tok::Pend, Tok::Msg(vec![]), Tok::Msg(vec![2; 40])],
        fin: Some(rich.clone()),
        ..base.clone()
    };
    out.push(ss.clone());
    // … last data byte and trailers in the same poll, everything before it byte by byte
    out.push(Case { rs_cut: (0..56).map(|_| Step::Take(1)).collect(), ..ss.clone() });
    // … cut inside every length prefix, Pending before the trailers
    out.push(Case { rs_cut: vec![Step::Take(1), Step::Take(3), Step::Pend, Step::Take(2), Step::Take(4), Step::Take(2), Step::Take(100), Step::Pend], ..ss.clone() });
    // error before the first message: as Err(status) and as a stream that fails at once
    out.push(Case { early: Some(rich.clone()), ..ss.clone() });
    out.push(Case { body: vec![], ..ss.clone() });
    out.push(Case { body: vec![Tok::Pend, Tok::Pend], ..ss.clone() });
    // client streaming and bidi
    let cs = Case {
        srv_req_stream: true,
        rq: vec![Tok::Msg(vec![1, 1]), Tok::Pend, Tok::Msg(vec![]), Tok::Msg(vec![3; 10])],
        rq_cut: vec![Step::Take(2), Step::Pend, Step::Take(4), Step::Take(1), Step::Take(0), Step::Take(7)],
        reads: 10,
        ..base.clone()
    };
    out.push(cs.clone());
    out.push(Case { reads: 2, ..cs.clone() });
    out.push(Case { reads: 3, ..cs.clone() });
    out.push(Case { reads: 0, early: Some(rich.clone()), ..cs.clone() });
    out.push(Case { srv_resp_stream: true, cli_resp_stream: true, body: ss.body.clone(), fin: Some(rich.clone()), ..cs.clone() });
    out.push(Case { srv_resp_stream: true, cli_resp_stream: true, body: ss.body.clone(), fin: None, yield_thr: 0, ..cs.clone() });
    // out of contract: missing request / response message, OK-coded error, forged grpc-encoding
    out.push(Case { rq: vec![], ..base.clone() });
    out.push(Case { srv_resp_stream: true, body: vec![], ..base.clone() });
    out.push(Case { early: Some(StatusSpec { code: 0, ..rich.clone() }), ..base.clone() });
    out.push(Case { init_md: vec![(s("grpc-encoding"), s("gzip"))], ..base.clone() });
    out.push(Case { rq_md: vec![(s("grpc-encoding"), s("gzip"))], ..base.clone() });
    // … the same name on a status returned as Err (trailers-only: it travels in HEADERS), and in
    // the trailers of a stream (harmless there); value `identity` (accepted)
    let mut forged = rich.clone();
    forged.md.push((s("grpc-encoding"), s("br")));
    out.push(Case { early: Some(forged.clone()), ..base.clone() });
    out.push(Case { fin: Some(forged), ..ss.clone() });
    out.push(Case { init_md: vec![(s("grpc-encoding"), s("identity"))], ..base.clone() });
    out
}

pub fn generate(tier: &str, rng: &mut Rng) -> Vec<String> {
    let thorough = tier == "thorough";
    let mut out: Vec<String> = corpus().iter().map(|c| c.line()).collect();
    out.extend(corpus_flagged().iter().map(|c| c.line()));
    let mut h2: Vec<String> = Vec::new();
    // the real stacks (Channel / transport::Server / Routes over hyper) in the quick tier as well:
    // the corpus whole and in small fragments, alone and with the h2-side dimensions
    for c in corpus() {
        for (plan, flags) in [
            (vec![], vec![]),
            (vec![Step::Take(9), Step::Take(1), Step::Pend, Step::Take(5)], vec!["knobs"]),
            (vec![], vec!["lazy", "icpt"]),
            (vec![Step::Take(7)], vec!["lim", "gen", "clone", "twice", "api2", "icpt", "knobs", "lazy"]),
        ] {
            if thorough && flags.is_empty() {
                continue; // the thorough tier has this line below
            }
            h2.push(Case { h2: true, rq_cut: plan.clone(), rs_cut: plan.clone(), flags: flags.clone(), ..c.clone() }.line());
        }
        h2.push(Case { h2: true, conc: 3, rq_cut: vec![], rs_cut: vec![Step::Take(13)], flags: vec!["knobs", "twice"], ..c.clone() }.line());
    }
    if thorough {
        // the corpus over real HTTP/2 as well, whole and byte by byte
        for c in corpus() {
            for plan in [vec![], vec![Step::Take(1)], vec![Step::Take(9), Step::Take(1), Step::Pend, Step::Take(5)]] {
                h2.push(Case { h2: true, rq_cut: plan.clone(), rs_cut: plan.clone(), ..c.clone() }.line());
                h2.push(Case { h2: true, conc: 3, rq_cut: plan.clone(), rs_cut: plan, ..c.clone() }.line());
            }
        }
    }
    let (n_struct, n_mal, n_h2, n_h2_mal) = if thorough { (400000, 60000, 40000, 6000) } else { (24000, 4000, 1200, 200) };
    let mut inproc: Vec<String> = Vec::new();
    for i in 0..n_struct {
        let mut c = gen_structured(rng, false);
        if i % 8 == 7 {
            // compression on at both ends; the model predicts the same results
            c.comp = Some(*rng.pick(&['g', 'd', 'z']));
            if rng.chance(1, 2) {
                // another encoding for the responses
                c.comp2 = Some(*rng.pick(&['g', 'd', 'z']));
            }
        }
        gen_flags(rng, &mut c);
        inproc.push(c.line());
    }
    for _ in 0..n_mal {
        let mut c = gen_malformed(rng, false);
        gen_flags(rng, &mut c);
        inproc.push(c.line());
    }
    for i in 0..n_h2 {
        let mut c = gen_structured(rng, true);
        if i % 4 == 3 {
            c.conc = 3;
        }
        gen_flags(rng, &mut c);
        h2.push(c.line());
    }
    for _ in 0..n_h2_mal {
        let mut c = gen_malformed(rng, true);
        gen_flags(rng, &mut c);
        h2.push(c.line());
    }
    // the HTTP/2 cases are much slower than the in-process ones: spread them evenly over the
    // case list (the runner shards it in contiguous blocks)
    let every = if h2.is_empty() { usize::MAX } else { (inproc.len() / h2.len()).max(1) };
    let mut h2 = h2.into_iter();
    for (i, c) in inproc.into_iter().enumerate() {
        out.push(c);
        if i % every == every - 1 {
            if let Some(h) = h2.next() {
                out.push(h);
            }
        }
    }
    out.extend(h2);
    out
}
