//! Shared driver for the framing family (C01, C03, C06, C07): runs the real `EncodeBody`
//! and `Streaming` on scripted sources/bodies, one poll at a time, with a counting waker (see
//! "waker discipline" below: a Pending without a wake-up is the observation `lost-wakeup`).
//!
//! Case grammar (space separated):
//!   enc <c|s> <none|gzip|deflate|zstd> <i|d> <yieldThr> <bufSize> <max|none> <npolls> Z <k> (<raw> <comp>)*k EV <ev>*
//!        ev: i<hex> item | e<code> source error | p pending
//!            f<k>.<hex> item on which `Encoder::encode` fails after writing its first k bytes (raw codec only)
//!   dec <req|resp<http>|empty> <none|gzip|deflate|zstd> <max|none> <bufSize> <npolls> Z <k> (<raw|F> <comp>)*k EV <ev>*
//!        ev: d<hex> data chunk | t<code|none> trailers | e<code> body error | p pending
//!   pdec … Z <k> … P <j> (<payload> <canonical re-encoding|F>)*j EV …   (prost codec: what prost, called
//!        directly, makes of every frame payload a naive header walk finds; F = it does not decode)
//! Observed: one token per poll.  enc: d<hex> | t<code>:<cls> | e<code>:<cls> | p | n
//!     then E<bits>: `Body::is_end_stream()` before every poll and after the last one, and
//!     Hd (every `Body::size_hint()` observed at those points was the default: lower 0, no upper)
//!     or H<lower>/<upper|->,… (all of them)
//!                                dec: m<hex> | e<code>:<cls> | n | p
use crate::common::*;
use bytes::{Buf, BufMut, Bytes};
use http::HeaderMap;
use http_body::{Body, Frame};
use std::collections::VecDeque;
use std::io::Read;
use std::pin::Pin;
use std::task::{Context, Poll, RawWaker, RawWakerVTable, Waker};
use tokio_stream::Stream;
use tonic::codec::{BufferSettings, CompressionEncoding, DecodeBuf, Decoder, EncodeBody, EncodeBuf, Encoder};
use tonic::{Status, Streaming};

// ---------- byte strings in tokens: bare hex with run-length groups ----------

/// Bare hex; a run of 32 or more equal bytes is written `(bb*N)`.  Canonical (greedy, maximal runs
/// from the left), so that the Lean side renders the same bytes to the same text.  Keeps cases
/// with 16 MiB messages (rev1 S5) a few hundred bytes long.
pub fn hexr(b: &[u8]) -> String {
    const D: &[u8; 16] = b"0123456789abcdef";
    let mut s = String::with_capacity(64.min(b.len()) * 2);
    let mut i = 0;
    while i < b.len() {
        let x = b[i];
        let mut j = i + 1;
        while j < b.len() && b[j] == x {
            j += 1;
        }
        if j - i >= 32 {
            s.push('(');
            s.push(D[(x >> 4) as usize] as char);
            s.push(D[(x & 15) as usize] as char);
            s.push('*');
            s.push_str(&(j - i).to_string());
            s.push(')');
            i = j;
        } else {
            s.push(D[(x >> 4) as usize] as char);
            s.push(D[(x & 15) as usize] as char);
            i += 1;
        }
    }
    s
}

pub fn unhexr(s: &str) -> Vec<u8> {
    let b = s.as_bytes();
    let v = |c: u8| -> u8 {
        match c {
            b'0'..=b'9' => c - b'0',
            b'a'..=b'f' => c - b'a' + 10,
            _ => panic!("bad hex digit in case token"),
        }
    };
    let mut out = Vec::new();
    let mut i = 0;
    while i < b.len() {
        if b[i] == b'(' {
            let close = i + s[i..].find(')').expect("unterminated run");
            let (byte, n) = s[i + 1..close].split_once('*').expect("(bb*N)");
            let x = v(byte.as_bytes()[0]) * 16 + v(byte.as_bytes()[1]);
            out.resize(out.len() + n.parse::<usize>().unwrap(), x);
            i = close + 1;
        } else {
            out.push(v(b[i]) * 16 + v(b[i + 1]));
            i += 2;
        }
    }
    out
}

// ---------- waker discipline ----------
//
// A `Poll::Pending` is only legitimate if somebody will wake the task: under a real executor a
// stream that returns Pending without a wake-up having been registered parks for ever.  The
// scripted doubles model "not ready now, ready again at once": they wake the waker they were
// polled with before returning Pending.  The drivers poll with a counting waker; a Pending from
// the code under test during which no wake-up was issued is the observation `lost-wakeup`, and
// the driver stops polling that stream, as an executor would.

pub struct CountingWake {
    pub wakes: std::sync::atomic::AtomicUsize,
    /// a real task waker to pass the wake-up on to (drivers running under an executor)
    pub inner: Option<Waker>,
}

impl std::task::Wake for CountingWake {
    fn wake(self: std::sync::Arc<Self>) {
        self.wake_by_ref()
    }
    fn wake_by_ref(self: &std::sync::Arc<Self>) {
        self.wakes.fetch_add(1, std::sync::atomic::Ordering::SeqCst);
        if let Some(w) = &self.inner {
            w.wake_by_ref();
        }
    }
}

pub fn counting_waker(inner: Option<Waker>) -> (std::sync::Arc<CountingWake>, Waker) {
    let c = std::sync::Arc::new(CountingWake { wakes: std::sync::atomic::AtomicUsize::new(0), inner });
    (c.clone(), Waker::from(c))
}

impl CountingWake {
    pub fn count(&self) -> usize {
        self.wakes.load(std::sync::atomic::Ordering::SeqCst)
    }
}

/// Did the poll that just returned Pending leave the task without any prospect of being woken?
/// (no wake-up issued since `wakes_before`, and nobody kept a clone of the waker: `refs_before`
/// is the `Arc` count before the poll)
pub fn no_wakeup(c: &std::sync::Arc<CountingWake>, wakes_before: usize, refs_before: usize) -> bool {
    c.count() == wakes_before && std::sync::Arc::strong_count(c) <= refs_before
}

#[allow(dead_code)]
pub fn noop_waker() -> Waker {
    fn clone(_: *const ()) -> RawWaker {
        RawWaker::new(std::ptr::null(), &VT)
    }
    fn noop(_: *const ()) {}
    static VT: RawWakerVTable = RawWakerVTable::new(clone, noop, noop, noop);
    unsafe { Waker::from_raw(RawWaker::new(std::ptr::null(), &VT)) }
}

// ---------- raw codec: bytes in, bytes out; a payload starting with 0xFF fails to decode ----------

#[derive(Clone, Copy)]
pub struct RawEnc(pub BufferSettings);
impl Encoder for RawEnc {
    type Item = Vec<u8>;
    type Error = Status;
    fn encode(&mut self, item: Vec<u8>, dst: &mut EncodeBuf<'_>) -> Result<(), Status> {
        dst.put_slice(&item);
        Ok(())
    }
    fn buffer_settings(&self) -> BufferSettings {
        self.0
    }
}

#[derive(Clone, Copy)]
pub struct RawDec(pub BufferSettings);
impl Decoder for RawDec {
    type Item = Vec<u8>;
    type Error = Status;
    fn decode(&mut self, src: &mut DecodeBuf<'_>) -> Result<Option<Vec<u8>>, Status> {
        let n = src.remaining();
        let b = src.copy_to_bytes(n);
        if b.first() == Some(&0xFF) {
            return Err(Status::internal("codec"));
        }
        Ok(Some(b.to_vec()))
    }
    fn buffer_settings(&self) -> BufferSettings {
        self.0
    }
}

/// The raw encoder with a failure switch: an item `(bytes, Some(k))` makes `Encoder::encode`
/// write the first `k` bytes and then return an error (rev1 S2: a failing `Encoder::encode`).
#[derive(Clone, Copy)]
pub struct FailEnc(pub BufferSettings);
impl Encoder for FailEnc {
    type Item = (Vec<u8>, Option<usize>);
    type Error = Status;
    fn encode(&mut self, item: (Vec<u8>, Option<usize>), dst: &mut EncodeBuf<'_>) -> Result<(), Status> {
        match item.1 {
            None => {
                dst.put_slice(&item.0);
                Ok(())
            }
            Some(k) => {
                dst.put_slice(&item.0[..k.min(item.0.len())]);
                Err(Status::internal("enc"))
            }
        }
    }
    fn buffer_settings(&self) -> BufferSettings {
        self.0
    }
}

// ---------- independent compressors (flate2 / zstd called directly, not through tonic) ----------

pub fn enc_name(e: Option<CompressionEncoding>) -> &'static str {
    match e {
        None => "none",
        Some(CompressionEncoding::Gzip) => "gzip",
        Some(CompressionEncoding::Deflate) => "deflate",
        Some(CompressionEncoding::Zstd) => "zstd",
        #[allow(unreachable_patterns)]
        _ => "other",
    }
}

pub fn parse_enc(s: &str) -> Option<CompressionEncoding> {
    match s {
        "gzip" => Some(CompressionEncoding::Gzip),
        "deflate" => Some(CompressionEncoding::Deflate),
        "zstd" => Some(CompressionEncoding::Zstd),
        _ => None,
    }
}

pub fn oracle_compress(e: CompressionEncoding, raw: &[u8]) -> Vec<u8> {
    let mut out = Vec::new();
    match e {
        CompressionEncoding::Gzip => {
            flate2::read::GzEncoder::new(raw, flate2::Compression::new(6)).read_to_end(&mut out).unwrap();
        }
        CompressionEncoding::Deflate => {
            flate2::read::ZlibEncoder::new(raw, flate2::Compression::new(6)).read_to_end(&mut out).unwrap();
        }
        CompressionEncoding::Zstd => {
            zstd::stream::read::Encoder::new(raw, zstd::DEFAULT_COMPRESSION_LEVEL).unwrap().read_to_end(&mut out).unwrap();
        }
        #[allow(unreachable_patterns)]
        _ => unreachable!(),
    }
    out
}

pub fn oracle_decompress(e: CompressionEncoding, comp: &[u8]) -> Option<Vec<u8>> {
    let mut out = Vec::new();
    let r = match e {
        CompressionEncoding::Gzip => flate2::read::GzDecoder::new(comp).read_to_end(&mut out),
        CompressionEncoding::Deflate => flate2::read::ZlibDecoder::new(comp).read_to_end(&mut out),
        CompressionEncoding::Zstd => match zstd::stream::read::Decoder::new(comp) {
            Ok(mut d) => d.read_to_end(&mut out),
            Err(e) => Err(e),
        },
        #[allow(unreachable_patterns)]
        _ => unreachable!(),
    };
    r.ok().map(|_| out)
}

/// Every complete flag-1 payload a naive 5-byte-header walk finds in `bytes`, with what the
/// reference decompressor makes of it. Used only to give the Lean side its `dz` table.
pub fn ztable_for_stream(e: CompressionEncoding, bytes: &[u8]) -> Vec<(Option<Vec<u8>>, Vec<u8>)> {
    let mut out = Vec::new();
    let mut i = 0;
    while i + 5 <= bytes.len() {
        let len = u32::from_be_bytes([bytes[i + 1], bytes[i + 2], bytes[i + 3], bytes[i + 4]]) as usize;
        if i + 5 + len > bytes.len() {
            break;
        }
        let pl = &bytes[i + 5..i + 5 + len];
        if bytes[i] == 1 {
            out.push((oracle_decompress(e, pl), pl.to_vec()));
        }
        i += 5 + len;
    }
    out
}

/// largest declared length ≤ `limit` found by a naive header walk (stops at the first
/// over-limit or incomplete frame)
pub fn declared_within(bytes: &[u8], limit: usize) -> usize {
    let mut best = 0;
    let mut i = 0;
    while i + 5 <= bytes.len() {
        let len = u32::from_be_bytes([bytes[i + 1], bytes[i + 2], bytes[i + 3], bytes[i + 4]]) as usize;
        if len > limit {
            break;
        }
        best = best.max(len);
        if i + 5 + len > bytes.len() {
            break;
        }
        i += 5 + len;
    }
    best
}

pub fn naive_frame_count(bytes: &[u8]) -> usize {
    let mut n = 0;
    let mut i = 0;
    while i + 5 <= bytes.len() {
        let len = u32::from_be_bytes([bytes[i + 1], bytes[i + 2], bytes[i + 3], bytes[i + 4]]) as usize;
        if i + 5 + len > bytes.len() {
            break;
        }
        n += 1;
        i += 5 + len;
    }
    n
}

pub fn ztable_tokens(tab: &[(Option<Vec<u8>>, Vec<u8>)]) -> String {
    let mut seen = std::collections::HashSet::new();
    let mut parts = Vec::new();
    for (raw, comp) in tab {
        if seen.insert(comp.clone()) {
            parts.push(format!("{} {}", raw.as_ref().map(|r| hex(r)).unwrap_or_else(|| "F".into()), hex(comp)));
        }
    }
    format!("Z {} {}", parts.len(), parts.join(" ")).trim_end().to_string()
}

/// What prost itself (called directly, not through tonic) makes of a payload offered as a
/// `google.protobuf.Any`: its canonical re-encoding, or `None` when it does not decode.
pub fn oracle_prost(payload: &[u8]) -> Option<Vec<u8>> {
    // The oracle must not itself depend on prost's recursion limit being switched on (cargo unifies
    // features: a tonic that enables `prost/no-recursion-limit` changes the prost this harness calls
    // too - seed C07e). Group nesting is measured by an iterative walk first; beyond prost's documented
    // limit of 100 (with a margin for its exact counting) the payload is refused without calling prost.
    if max_group_depth(payload) > 110 {
        return None;
    }
    <prost_types::Any as prost::Message>::decode(payload).ok().map(|m| prost::Message::encode_to_vec(&m))
}

/// Deepest nesting of START_GROUP keys in the top-level field sequence of `b`, by an iterative walk
/// (length-delimited fields are skipped, as prost skips them for `Any`); stops at the first malformed key.
fn max_group_depth(b: &[u8]) -> usize {
    fn varint(b: &[u8], i: &mut usize) -> Option<u64> {
        let mut v = 0u64;
        for k in 0..10 {
            let x = *b.get(*i)?;
            *i += 1;
            v |= ((x & 0x7f) as u64) << (7 * k);
            if x & 0x80 == 0 {
                return Some(v);
            }
        }
        None
    }
    let (mut i, mut depth, mut max) = (0usize, 0usize, 0usize);
    while i < b.len() {
        let Some(key) = varint(b, &mut i) else { break };
        match key & 7 {
            0 => { if varint(b, &mut i).is_none() { break } }
            1 => i += 8,
            2 => { let Some(l) = varint(b, &mut i) else { break }; i = i.saturating_add(l as usize) }
            3 => { depth += 1; max = max.max(depth) }
            4 => depth = depth.saturating_sub(1),
            5 => i += 4,
            _ => break,
        }
    }
    max
}

/// Every complete frame payload a naive header walk finds in `bytes` (decompressed by the
/// reference decompressor when its flag is 1), with prost's verdict on it.
pub fn ptable_for_stream(e: Option<CompressionEncoding>, bytes: &[u8]) -> Vec<(Vec<u8>, Option<Vec<u8>>)> {
    let mut out = Vec::new();
    let mut i = 0;
    while i + 5 <= bytes.len() {
        let len = u32::from_be_bytes([bytes[i + 1], bytes[i + 2], bytes[i + 3], bytes[i + 4]]) as usize;
        if i + 5 + len > bytes.len() {
            break;
        }
        let pl = &bytes[i + 5..i + 5 + len];
        let raw = match (bytes[i], e) {
            (1, Some(e)) => oracle_decompress(e, pl),
            _ => Some(pl.to_vec()),
        };
        if let Some(raw) = raw {
            let v = oracle_prost(&raw);
            out.push((raw, v));
        }
        i += 5 + len;
    }
    out
}

pub fn ptable_tokens(tab: &[(Vec<u8>, Option<Vec<u8>>)]) -> String {
    let mut seen = std::collections::HashSet::new();
    let mut parts = Vec::new();
    for (pl, canon) in tab {
        if seen.insert(pl.clone()) {
            parts.push(format!("{} {}", hex(pl), canon.as_ref().map(|r| hex(r)).unwrap_or_else(|| "F".into())));
        }
    }
    format!("P {} {}", parts.len(), parts.join(" ")).trim_end().to_string()
}

// ---------- status classification ----------

/// Who produced a status, judged without reading tonic's message texts (rev1-FA1: rewording a
/// message is not an alarm): the harness's own doubles mark theirs with the messages `user`
/// (scripted source / body / trailers) and `codec` (the raw decoder double); every other non-OK
/// status was made by tonic itself (`t`).  What distinguishes tonic's own statuses for the
/// property is the code, which is compared exactly.
pub fn cls_of(st: &Status) -> &'static str {
    let m = st.message();
    if st.code() == tonic::Code::Ok {
        "ok"
    } else if m == "user" {
        "user"
    } else if m == "codec" {
        "codec"
    } else {
        "t"
    }
}

pub fn st_tok(prefix: &str, st: &Status) -> String {
    format!("{}{}:{}", prefix, st.code() as i32, cls_of(st))
}

// ---------- scripted source stream / body ----------

pub enum SrcEv {
    Item(Vec<u8>),
    /// an item the encoder double fails on after writing this many bytes
    FailItem(Vec<u8>, usize),
    Err(i32),
    Pending,
}

/// Strict: a source that has returned `Ready(None)` must never be polled again (the `Stream`
/// contract leaves that unspecified — `unfold` panics, a cursor may start over); a second poll
/// after the end panics here, which `execute` reports as the observable `panic` (seed C02c).
pub struct ScriptedSource {
    pub evs: VecDeque<SrcEv>,
    pub polls_after_end: usize,
}

impl Stream for ScriptedSource {
    type Item = Result<(Vec<u8>, Option<usize>), Status>;
    fn poll_next(mut self: Pin<&mut Self>, cx: &mut Context<'_>) -> Poll<Option<Self::Item>> {
        match self.evs.pop_front() {
            None => {
                self.polls_after_end += 1;
                if self.polls_after_end > 1 {
                    panic!("message source polled again after it returned Ready(None)");
                }
                Poll::Ready(None)
            }
            Some(SrcEv::Pending) => {
                // "ready again at once": the wake-up is issued to whoever polled
                cx.waker().wake_by_ref();
                Poll::Pending
            }
            Some(SrcEv::Item(v)) => Poll::Ready(Some(Ok((v, None)))),
            Some(SrcEv::FailItem(v, k)) => Poll::Ready(Some(Ok((v, Some(k))))),
            Some(SrcEv::Err(c)) => Poll::Ready(Some(Err(Status::new(tonic::Code::from_i32(c), "user")))),
        }
    }
}

pub enum BodyEv {
    Data(Vec<u8>),
    Trailers(Option<i32>),
    Err(i32),
    Pending,
}

pub struct ScriptedBody {
    pub evs: VecDeque<BodyEv>,
    pub polls_after_end: std::sync::Arc<std::sync::atomic::AtomicUsize>,
}

impl Body for ScriptedBody {
    type Data = Bytes;
    type Error = Status;
    fn poll_frame(mut self: Pin<&mut Self>, cx: &mut Context<'_>) -> Poll<Option<Result<Frame<Bytes>, Status>>> {
        match self.evs.pop_front() {
            None => {
                self.polls_after_end.fetch_add(1, std::sync::atomic::Ordering::SeqCst);
                Poll::Ready(None)
            }
            Some(BodyEv::Pending) => {
                cx.waker().wake_by_ref();
                Poll::Pending
            }
            Some(BodyEv::Data(v)) => Poll::Ready(Some(Ok(Frame::data(Bytes::from(v))))),
            Some(BodyEv::Err(c)) => Poll::Ready(Some(Err(Status::new(tonic::Code::from_i32(c), "user")))),
            Some(BodyEv::Trailers(code)) => {
                let mut h = HeaderMap::new();
                h.insert("x-other", "1".parse().unwrap());
                if let Some(c) = code {
                    h.insert("grpc-status", c.to_string().parse().unwrap());
                    h.insert("grpc-message", "user".parse().unwrap());
                }
                Poll::Ready(Some(Ok(Frame::trailers(h))))
            }
        }
    }
}

// ---------- executing a case ----------

fn opt_usize(s: &str) -> Option<usize> {
    if s == "none" {
        None
    } else {
        Some(s.parse().unwrap())
    }
}

/// index of the `EV` token
fn ev_start(t: &[&str]) -> usize {
    t.iter().position(|x| *x == "EV").expect("EV") + 1
}

pub fn execute(case: &str) -> String {
    let t: Vec<&str> = case.split(' ').collect();
    match t[0] {
        "enc" => exec_enc(&t),
        "dec" => exec_dec(&t),
        "penc" => exec_penc(&t),
        "pdec" => exec_pdec(&t),
        _ => "bad-case".into(),
    }
}

fn exec_enc(t: &[&str]) -> String {
    exec_enc_with(t, false)
}

fn exec_penc(t: &[&str]) -> String {
    exec_enc_with(t, true)
}

fn exec_enc_with(t: &[&str], prost: bool) -> String {
    let server = t[1] == "s";
    let comp = parse_enc(t[2]);
    let disable = t[3] == "d";
    let yield_thr: usize = t[4].parse().unwrap();
    let buf_size: usize = t[5].parse().unwrap();
    let max = opt_usize(t[6]);
    let npolls: usize = t[7].parse().unwrap();
    let evs: VecDeque<SrcEv> = t[ev_start(t)..]
        .iter()
        .map(|e| match e.as_bytes()[0] {
            b'i' => SrcEv::Item(unhexr(&e[1..])),
            b'f' => {
                let (k, h) = e[1..].split_once('.').expect("f<k>.<hex>");
                SrcEv::FailItem(unhexr(h), k.parse().unwrap())
            }
            b'e' => SrcEv::Err(e[1..].parse().unwrap()),
            _ => SrcEv::Pending,
        })
        .collect();
    let src = ScriptedSource { evs, polls_after_end: 0 };
    let bs = BufferSettings::new(buf_size, yield_thr);
    let ovr = || if disable { tonic::codec::verif_disable_compression_override() } else { Default::default() };
    let body: Pin<Box<dyn Body<Data = Bytes, Error = Status>>> = if prost {
        use tokio_stream::StreamExt;
        let enc = tonic::codec::ProstCodec::<prost_types::Any, prost_types::Any>::raw_encoder(bs);
        let src = src.map(|r| r.map(|(v, _)| <prost_types::Any as prost::Message>::decode(&v[..]).expect("case items are valid Any")));
        if server {
            Box::pin(EncodeBody::new_server(enc, src, comp, ovr(), max))
        } else {
            Box::pin(EncodeBody::new_client(enc, src, comp, max))
        }
    } else {
        let enc = FailEnc(bs);
        if server {
            Box::pin(EncodeBody::new_server(enc, src, comp, ovr(), max))
        } else {
            Box::pin(EncodeBody::new_client(enc, src, comp, max))
        }
    };
    let mut body = body;
    let (wakes, waker) = counting_waker(None);
    let mut cx = Context::from_waker(&waker);
    let mut out = Vec::new();
    let mut end_flags = String::new();
    let mut hints: Vec<(u64, Option<u64>)> = Vec::new();
    for i in 0..=npolls {
        // what hyper looks at between polls: a true `is_end_stream` makes it finish the stream
        // without polling again (rev1 S3), `size_hint` feeds content-length decisions
        end_flags.push(if body.is_end_stream() { '1' } else { '0' });
        let h = body.size_hint();
        hints.push((h.lower(), h.upper()));
        if i == npolls {
            break;
        }
        let (woken_before, refs_before) = (wakes.count(), std::sync::Arc::strong_count(&wakes));
        match body.as_mut().poll_frame(&mut cx) {
            Poll::Pending if no_wakeup(&wakes, woken_before, refs_before) => {
                // Pending, and nobody was asked to wake us: the stream would park for ever
                out.push("lost-wakeup".to_string());
                break;
            }
            Poll::Pending => out.push("p".to_string()),
            Poll::Ready(None) => out.push("n".to_string()),
            Poll::Ready(Some(Err(st))) => out.push(st_tok("e", &st)),
            Poll::Ready(Some(Ok(frame))) => {
                if frame.is_data() {
                    out.push(format!("d{}", hexr(&frame.into_data().unwrap())));
                } else {
                    let tr = frame.into_trailers().unwrap();
                    let st = Status::from_header_map(&tr).unwrap_or_else(|| Status::unknown("no grpc-status in trailers"));
                    out.push(st_tok("t", &st));
                }
            }
        }
    }
    out.push(format!("E{}", end_flags));
    if hints.iter().all(|h| *h == (0, None)) {
        out.push("Hd".to_string());
    } else {
        let l: Vec<String> = hints.iter().map(|(l, u)| format!("{}/{}", l, u.map(|u| u.to_string()).unwrap_or_else(|| "-".into()))).collect();
        out.push(format!("H{}", l.join(",")));
    }
    out.join(" ")
}

fn exec_dec(t: &[&str]) -> String {
    exec_dec_with(t, false)
}

fn exec_pdec(t: &[&str]) -> String {
    exec_dec_with(t, true)
}

fn exec_dec_with(t: &[&str], prost: bool) -> String {
    let enc = parse_enc(t[2]);
    let max = opt_usize(t[3]);
    let buf_size: usize = t[4].parse().unwrap();
    let npolls: usize = t[5].parse().unwrap();
    let evs: VecDeque<BodyEv> = t[ev_start(t)..]
        .iter()
        .map(|e| match e.as_bytes()[0] {
            b'd' => BodyEv::Data(unhexr(&e[1..])),
            b't' => BodyEv::Trailers(if &e[1..] == "none" { None } else { Some(e[1..].parse().unwrap()) }),
            b'e' => BodyEv::Err(e[1..].parse().unwrap()),
            _ => BodyEv::Pending,
        })
        .collect();
    let after = std::sync::Arc::new(std::sync::atomic::AtomicUsize::new(0));
    let total_data: usize = evs.iter().map(|e| if let BodyEv::Data(d) = e { d.len() } else { 0 }).sum();
    let all_data: Vec<u8> = evs.iter().flat_map(|e| if let BodyEv::Data(d) = e { d.clone() } else { vec![] }).collect();
    let body = ScriptedBody { evs, polls_after_end: after.clone() };
    let bs = BufferSettings::new(buf_size, 32 * 1024);
    let (wakes, waker) = counting_waker(None);
    let mut cx = Context::from_waker(&waker);
    let mut out = Vec::new();
    // allocation budget for this case: a generous multiple of everything the decoder may
    // legitimately hold (received bytes, decompression scratch), far below any refused length
    // … plus twice the largest length a header within the limit announces (the decoder may
    // reserve that much; what it must never do is reserve for a length over the limit)
    let limit = if t[1] == "empty" { 4 * 1024 * 1024 } else { max.unwrap_or(4 * 1024 * 1024) };
    // … plus a small multiple of the largest decompressed message (the reference decompressor's
    // table says how large): a message that compresses 1000:1 legitimately needs its raw size
    let zpos = t.iter().position(|x| *x == "Z").unwrap();
    let zk: usize = t[zpos + 1].parse().unwrap();
    let max_raw = (0..zk).map(|i| t[zpos + 2 + 2 * i]).filter(|r| *r != "F").map(|r| (r.len() - 1) / 2).max().unwrap_or(0);
    let budget = 64 * (total_data + buf_size) + 1024 * 1024 + 2 * declared_within(&all_data, limit) + 4 * max_raw;
    reset_max_alloc();
    macro_rules! mk {
        ($dec:expr) => {
            if t[1] == "req" {
                Streaming::new_request($dec, body, enc, max)
            } else if t[1] == "empty" {
                Streaming::new_empty($dec, body)
            } else {
                let code: u16 = t[1][4..].parse().unwrap();
                Streaming::new_response($dec, body, http::StatusCode::from_u16(code).unwrap(), enc, max)
            }
        };
    }
    enum Either {
        Raw(Streaming<Vec<u8>>),
        Prost(Streaming<prost_types::Any>),
    }
    let mut stream = if prost {
        Either::Prost(mk!(tonic::codec::ProstCodec::<prost_types::Any, prost_types::Any>::raw_decoder(bs)))
    } else {
        Either::Raw(mk!(RawDec(bs)))
    };
    for _ in 0..npolls {
        let (woken_before, refs_before) = (wakes.count(), std::sync::Arc::strong_count(&wakes));
        let r: Poll<Option<Result<Vec<u8>, Status>>> = match &mut stream {
            Either::Raw(s) => Pin::new(s).poll_next(&mut cx),
            Either::Prost(s) => Pin::new(s).poll_next(&mut cx).map(|o| o.map(|r| r.map(|m| prost::Message::encode_to_vec(&m)))),
        };
        match r {
            Poll::Pending if no_wakeup(&wakes, woken_before, refs_before) => {
                out.push("lost-wakeup".to_string());
                break;
            }
            Poll::Pending => out.push("p".to_string()),
            Poll::Ready(None) => out.push("n".to_string()),
            Poll::Ready(Some(Err(st))) => out.push(st_tok("e", &st)),
            Poll::Ready(Some(Ok(m))) => out.push(format!("m{}", hexr(&m))),
        }
        if after.load(std::sync::atomic::Ordering::SeqCst) > 1000 {
            out.push("busy-loop".into());
            break;
        }
    }
    // largest single allocation made while decoding, against the budget
    let biggest = max_alloc();
    out.push(if biggest > budget { "a1".to_string() } else { "a0".to_string() });
    out.join(" ")
}

// ---------- generators ----------

/// buffer sizes every generator draws from: `BufferSettings::new` is public and takes any usize,
/// 0 included (rev1 §1: 0 used to divide by zero in compress/decompress)
pub const BUF_SIZES: [usize; 9] = [0, 1, 2, 3, 4, 5, 16, 1024, 8192];

pub const ENCS: [Option<CompressionEncoding>; 4] = [
    None,
    Some(CompressionEncoding::Gzip),
    Some(CompressionEncoding::Deflate),
    Some(CompressionEncoding::Zstd),
];

pub fn gen_msg(rng: &mut Rng, maxlen: usize) -> Vec<u8> {
    let len = match rng.below(8) {
        0 => 0,
        1 => 1,
        2 => rng.below(8) as usize,
        3 => rng.below(maxlen as u64 + 1) as usize,
        4 => 250 + rng.below(12) as usize, // around 255/256 (second length byte)
        _ => rng.below(40) as usize,
    }
    .min(maxlen);
    let mut m = match rng.below(3) {
        0 => vec![rng.next() as u8; len],
        1 => (0..len).map(|i| (i % 7) as u8).collect(),
        _ => rng.bytes(len),
    };
    if !m.is_empty() && m[0] == 0xFF {
        m[0] = 0xFE; // keep decodable unless the generator asks otherwise
    }
    m
}

pub fn frame(flag: u8, payload: &[u8]) -> Vec<u8> {
    let mut f = vec![flag];
    f.extend_from_slice(&(payload.len() as u32).to_be_bytes());
    f.extend_from_slice(payload);
    f
}

/// Cut `bytes` into chunks: style 0 whole, 1 every byte, 2 every boundary within the first 6
/// bytes of each frame start given in `starts`, 3 random k cuts.
pub fn chunkings(rng: &mut Rng, bytes: &[u8], starts: &[usize], style: u64) -> Vec<Vec<u8>> {
    let n = bytes.len();
    let mut cuts: Vec<usize> = match style {
        0 => vec![],
        1 => (1..n).collect(),
        2 => {
            let mut c = Vec::new();
            for s in starts {
                for k in 0..=6 {
                    if rng.chance(2, 3) {
                        c.push(s + k);
                    }
                }
            }
            c
        }
        _ => {
            let k = rng.below(6) as usize + 1;
            (0..k).map(|_| rng.below(n as u64 + 1) as usize).collect()
        }
    };
    cuts.retain(|c| *c > 0 && *c < n);
    cuts.sort();
    cuts.dedup();
    let mut out = Vec::new();
    let mut prev = 0;
    for c in cuts {
        out.push(bytes[prev..c].to_vec());
        prev = c;
    }
    out.push(bytes[prev..].to_vec());
    if style == 3 && rng.chance(1, 4) {
        // an empty chunk somewhere
        let pos = rng.below(out.len() as u64 + 1) as usize;
        out.insert(pos, vec![]);
    }
    out
}

pub struct EncCase {
    pub server: bool,
    pub comp: Option<CompressionEncoding>,
    pub disable: bool,
    pub yield_thr: usize,
    pub buf_size: usize,
    pub max: Option<usize>,
    pub evs: Vec<String>,
    pub items: Vec<Vec<u8>>,
    pub extra_polls: usize,
}

impl EncCase {
    pub fn line(&self) -> String {
        let eff = if self.disable && self.server { None } else { self.comp };
        let tab: Vec<(Option<Vec<u8>>, Vec<u8>)> = match eff {
            Some(e) => self.items.iter().map(|m| (Some(m.clone()), oracle_compress(e, m))).collect(),
            None => vec![],
        };
        format!(
            "enc {} {} {} {} {} {} {} {} EV {}",
            if self.server { "s" } else { "c" },
            enc_name(self.comp),
            if self.disable { "d" } else { "i" },
            self.yield_thr,
            self.buf_size,
            self.max.map(|m| m.to_string()).unwrap_or_else(|| "none".into()),
            self.evs.len() + 3 + self.extra_polls,
            ztable_tokens(&tab),
            self.evs.join(" ")
        )
        .trim_end()
        .to_string()
    }
}

/// A random encoder case. `errors`: allow source errors; `limit`: use a size limit around the
/// message sizes.
pub fn gen_enc_case(rng: &mut Rng, errors: bool, limit: bool) -> EncCase {
    let comp = *rng.pick(&ENCS);
    let nitems = rng.below(6) as usize;
    let maxlen = *rng.pick(&[8usize, 40, 300, 2000]);
    let mut items = Vec::new();
    let mut evs = Vec::new();
    for _ in 0..nitems {
        while rng.chance(1, 3) {
            evs.push("p".to_string());
        }
        if errors && rng.chance(1, 8) {
            evs.push(format!("e{}", rng.range(1, 16)));
        }
        let m = gen_msg(rng, maxlen);
        if errors && rng.chance(1, 8) {
            // `Encoder::encode` fails on this item after writing some of it
            let k = rng.below(m.len() as u64 + 1) as usize;
            evs.push(format!("f{}.{}", k, hexr(&m)));
            continue;
        }
        evs.push(format!("i{}", hexr(&m)));
        items.push(m);
    }
    while rng.chance(1, 3) {
        evs.push("p".to_string());
    }
    if errors && rng.chance(1, 6) {
        evs.push(format!("e{}", rng.range(1, 16)));
    }
    let total: usize = items.iter().map(|m| m.len() + 5).sum();
    let yield_thr = match rng.below(5) {
        0 => 0,
        1 => 1,
        2 => rng.below(total as u64 + 2) as usize,
        3 => 32 * 1024,
        _ => items.first().map(|m| m.len() + 5).unwrap_or(5) + rng.below(3) as usize - 1,
    };
    let max = if limit && !items.is_empty() {
        let l = rng.pick(&items).len();
        Some(match rng.below(4) {
            0 => l.saturating_sub(1),
            1 => l,
            2 => l + 1,
            _ => rng.below(50) as usize,
        })
    } else {
        None
    };
    EncCase {
        server: rng.chance(1, 2),
        comp,
        disable: rng.chance(1, 5),
        yield_thr,
        buf_size: *rng.pick(&BUF_SIZES),
        max,
        evs,
        items,
        extra_polls: rng.below(3) as usize,
    }
}

pub struct DecCase {
    pub dir: String,
    pub enc: Option<CompressionEncoding>,
    pub max: Option<usize>,
    pub buf_size: usize,
    pub evs: Vec<String>,
    pub stream: Vec<u8>,
    pub extra_polls: usize,
}

impl DecCase {
    pub fn line(&self) -> String {
        let tab = match self.enc {
            Some(e) => ztable_for_stream(e, &self.stream),
            None => vec![],
        };
        format!(
            "dec {} {} {} {} {} {} EV {}",
            self.dir,
            enc_name(self.enc),
            self.max.map(|m| m.to_string()).unwrap_or_else(|| "none".into()),
            self.buf_size,
            self.evs.len() + naive_frame_count(&self.stream) + 2 + self.extra_polls,
            ztable_tokens(&tab),
            self.evs.join(" ")
        )
        .trim_end()
        .to_string()
    }
}

impl DecCase {
    /// the same case through the real `ProstCodec` (`pdec`), with prost's own verdict on every
    /// frame payload as a table for the Lean side
    pub fn pline(&self) -> String {
        let tab = match self.enc {
            Some(e) => ztable_for_stream(e, &self.stream),
            None => vec![],
        };
        format!(
            "pdec {} {} {} {} {} {} {} EV {}",
            self.dir,
            enc_name(self.enc),
            self.max.map(|m| m.to_string()).unwrap_or_else(|| "none".into()),
            self.buf_size,
            self.evs.len() + naive_frame_count(&self.stream) + 2 + self.extra_polls,
            ztable_tokens(&tab),
            ptable_tokens(&ptable_for_stream(self.enc, &self.stream)),
            self.evs.join(" ")
        )
        .trim_end()
        .to_string()
    }
}

pub fn gen_dir(rng: &mut Rng) -> String {
    match rng.below(6) {
        0 | 1 => "req".into(),
        2 => "empty".into(),
        3 => "resp200".into(),
        _ => format!("resp{}", rng.pick(&[200u16, 200, 400, 401, 403, 404, 429, 500, 502, 503, 504, 302])),
    }
}

/// Valid stream of messages (some compressed when an encoding is negotiated).
/// a prost-serialized `google.protobuf.Any` with random fields
pub fn gen_any_msg(rng: &mut Rng, maxlen: usize) -> Vec<u8> {
    let n = rng.below(12) as usize;
    let url: String = (0..n).map(|_| char::from(b'a' + rng.below(26) as u8)).collect();
    let any = prost_types::Any { type_url: if rng.chance(1, 4) { String::new() } else { url }, value: gen_msg(rng, maxlen) };
    prost::Message::encode_to_vec(&any)
}

pub fn gen_valid_stream(rng: &mut Rng, enc: Option<CompressionEncoding>, maxlen: usize) -> (Vec<u8>, Vec<usize>, Vec<Vec<u8>>) {
    gen_valid_stream_with(rng, enc, maxlen, false)
}

pub fn gen_valid_stream_with(rng: &mut Rng, enc: Option<CompressionEncoding>, maxlen: usize, prost: bool) -> (Vec<u8>, Vec<usize>, Vec<Vec<u8>>) {
    let n = rng.below(5) as usize;
    let mut bytes = Vec::new();
    let mut starts = Vec::new();
    let mut msgs = Vec::new();
    for _ in 0..n {
        let m = if prost { gen_any_msg(rng, maxlen) } else { gen_msg(rng, maxlen) };
        starts.push(bytes.len());
        match enc {
            Some(e) if rng.chance(3, 4) => bytes.extend(frame(1, &oracle_compress(e, &m))),
            _ => bytes.extend(frame(0, &m)),
        }
        msgs.push(m);
    }
    (bytes, starts, msgs)
}

pub fn events_from_chunks(rng: &mut Rng, chunks: Vec<Vec<u8>>, pendings: bool) -> Vec<String> {
    let mut evs = Vec::new();
    for c in chunks {
        while pendings && rng.chance(1, 4) {
            evs.push("p".to_string());
        }
        evs.push(format!("d{}", hexr(&c)));
    }
    while pendings && rng.chance(1, 4) {
        evs.push("p".to_string());
    }
    evs
}

/// A decoder case over a valid stream. `limit`: pick a limit near a message size.
pub fn gen_dec_valid(rng: &mut Rng, limit: bool) -> DecCase {
    let enc = *rng.pick(&ENCS);
    let maxlen = *rng.pick(&[8usize, 40, 300, 2000]);
    let (bytes, starts, msgs) = gen_valid_stream(rng, enc, maxlen);
    let style = rng.below(4);
    let style = if bytes.len() > 600 && style == 1 { 3 } else { style };
    let chunks = chunkings(rng, &bytes, &starts, style);
    let mut evs = events_from_chunks(rng, chunks, true);
    let dir = gen_dir(rng);
    if rng.chance(1, 2) {
        evs.push(format!("t{}", if rng.chance(3, 4) { "0".to_string() } else if rng.chance(1, 2) { "none".into() } else { rng.range(1, 16).to_string() }));
    }
    let max = if limit && !msgs.is_empty() {
        // limit applies to the on-the-wire payload length
        let l = rng.pick(&msgs).len();
        Some(match rng.below(4) {
            0 => l.saturating_sub(1),
            1 => l,
            2 => l + 1,
            _ => rng.below(60) as usize,
        })
    } else if rng.chance(1, 6) {
        Some(5000)
    } else {
        None
    };
    DecCase { dir, enc, max, buf_size: *rng.pick(&BUF_SIZES), evs, stream: bytes, extra_polls: rng.below(4) as usize }
}

/// A decoder case around one BIG frame (seed C07f: a decoder that swaps its buffer for a fresh one after a
/// frame larger than 64 KiB loses whatever followed that frame in the same chunk).  The big payload is one
/// long run (a few hundred bytes as a token), a small frame may precede it and one to three small frames
/// follow it; the chunkings put the first bytes of the following frame into the chunk that completes the big
/// one (k = 1..8 bytes, a whole frame, everything), or cut the big payload the way h2 does (16 KiB DATA
/// frames).  `hostile`: the tail is damaged (cut off, bad flag) - the messages before it must still arrive.
pub fn gen_dec_big(rng: &mut Rng, hostile: bool) -> DecCase {
    let big = *rng.pick(&[60_000usize, 65_530, 65_531, 65_535, 65_536, 65_537, 65_541, 70_000, 131_072, 300_000, 1 << 20]);
    // (a first byte 0xff is the raw codec's "undecodable message" marker: keep clear of it)
    let fill = rng.below(250) as u8;
    let mut payload = vec![fill; big];
    payload[0] = fill.wrapping_add(1);
    payload[big - 1] = fill.wrapping_add(2);
    let mut bytes = Vec::new();
    if rng.chance(1, 3) {
        bytes.extend(frame(0, &gen_msg(rng, 20)));
    }
    bytes.extend(frame(0, &payload));
    let end = bytes.len();
    let mut tail_starts = Vec::new();
    for _ in 0..rng.range(1, 4) {
        tail_starts.push(bytes.len());
        bytes.extend(frame(0, &gen_msg(rng, 30)));
    }
    if hostile {
        match rng.below(3) {
            0 => {
                let cut = rng.range(end as u64 + 1, bytes.len() as u64) as usize;
                bytes.truncate(cut);
            }
            1 => {
                let at = *rng.pick(&tail_starts);
                bytes[at] = rng.range(2, 256) as u8;
            }
            _ => {
                // the last frame announces more than follows
                let at = *tail_starts.last().unwrap();
                bytes[at + 4] = bytes[at + 4].wrapping_add(3);
            }
        }
    }
    let n = bytes.len();
    let mut cuts: Vec<usize> = match rng.below(6) {
        0 => vec![],
        1 => vec![end + rng.range(1, 9) as usize],
        2 => vec![end - rng.range(1, 9) as usize, end + rng.range(1, 9) as usize],
        3 => (1..=n / 16384).map(|i| i * 16384).collect(),
        4 => {
            let mut c: Vec<usize> = (1..=end / 16384).map(|i| i * 16384).collect();
            c.push(tail_starts.get(1).copied().unwrap_or(end + 5));
            c
        }
        _ => {
            let mut c = vec![rng.below(end as u64) as usize, rng.below(end as u64) as usize];
            c.push(end + rng.range(1, 9) as usize);
            c
        }
    };
    cuts.retain(|c| *c > 0 && *c < n);
    cuts.sort();
    cuts.dedup();
    let mut chunks = Vec::new();
    let mut prev = 0;
    for c in cuts {
        chunks.push(bytes[prev..c].to_vec());
        prev = c;
    }
    chunks.push(bytes[prev..].to_vec());
    let pend = rng.chance(1, 2);
    let mut evs = events_from_chunks(rng, chunks, pend);
    let dir = if rng.chance(1, 2) { "req".to_string() } else { "resp200".to_string() };
    if dir == "resp200" && rng.chance(1, 2) {
        evs.push("t0".into());
    }
    let max = match rng.below(4) {
        0 => None,
        1 => Some(big),
        2 => Some(big + 1),
        _ => Some(8 << 20),
    };
    DecCase { dir, enc: None, max, buf_size: *rng.pick(&BUF_SIZES), evs, stream: bytes, extra_polls: rng.below(4) as usize }
}

/// A decoder case with MANY tiny messages buffered at once (seed C07g: a "cooperative yielding" budget of 128
/// messages per body poll that is only refilled by the next body poll - with 129 complete messages in the read
/// buffer the stream answers `Pending` for ever): 100 … 1000 frames of 0-3 bytes in one chunk, in two, or
/// spread; `hostile`: the tail is damaged, the messages before it and the one error must still arrive.
pub fn gen_dec_many(rng: &mut Rng, hostile: bool) -> DecCase {
    let k = *rng.pick(&[100usize, 127, 128, 129, 130, 200, 257, 1000]);
    let mut bytes = Vec::new();
    let mut starts = Vec::new();
    for i in 0..k {
        starts.push(bytes.len());
        let l = rng.below(4) as usize;
        let m: Vec<u8> = (0..l).map(|j| (i + j) as u8 & 0x7f).collect();
        bytes.extend(frame(0, &m));
    }
    if hostile {
        match rng.below(3) {
            0 => bytes.extend([7u8, 0, 0, 0, 0]),
            1 => bytes.extend([0u8, 0, 0, 0, 9, 1, 2]),
            _ => {
                let at = starts[rng.range(k as u64 / 2, k as u64 - 1) as usize];
                bytes[at] = 9;
            }
        }
    }
    let n = bytes.len();
    let mut cuts: Vec<usize> = match rng.below(4) {
        0 => vec![],
        1 => vec![starts[k / 2]],
        2 => vec![starts[k - 1] + 2],
        _ => (0..3).map(|_| rng.below(n as u64) as usize).collect(),
    };
    cuts.retain(|c| *c > 0 && *c < n);
    cuts.sort();
    cuts.dedup();
    let mut chunks = Vec::new();
    let mut prev = 0;
    for c in cuts {
        chunks.push(bytes[prev..c].to_vec());
        prev = c;
    }
    chunks.push(bytes[prev..].to_vec());
    let pend = rng.chance(1, 2);
    let mut evs = events_from_chunks(rng, chunks, pend);
    let dir = if rng.chance(1, 2) { "req".to_string() } else { "resp200".to_string() };
    if dir == "resp200" && rng.chance(1, 2) {
        evs.push("t0".into());
    }
    DecCase { dir, enc: None, max: None, buf_size: *rng.pick(&BUF_SIZES), evs, stream: bytes, extra_polls: rng.below(4) as usize }
}

/// A decoder case with COMPRESSIBLE messages and a limit between the compressed and the uncompressed size
/// (seed C01g: a "decompression bomb" guard that read at most `limit` decompressed bytes handed the decoder a
/// message cut to exactly `limit` bytes): the receive limit applies to the payload ON THE WIRE, so such a message is
/// accepted and must arrive whole.  `huge`: one message of 5 MiB under the default limit of 4 MiB.
pub fn gen_dec_compressible(rng: &mut Rng, e: CompressionEncoding, huge: bool) -> DecCase {
    let mut bytes = Vec::new();
    let mut starts = Vec::new();
    let mut max = None;
    let n = if huge { 1 } else { rng.range(1, 3) };
    for i in 0..n {
        let len = if huge { 5 * 1024 * 1024 } else { *rng.pick(&[300usize, 1000, 5000, 20000, 70000]) };
        let fill = rng.below(250) as u8;
        let mut m = vec![fill; len];
        m[len / 2] = fill.wrapping_add(1);
        m[len - 1] = fill.wrapping_add(2);
        let z = oracle_compress(e, &m);
        if i == 0 && !huge {
            // wire length <= limit < uncompressed length (when the message compressed at all)
            max = Some(match rng.below(3) {
                0 => z.len(),
                1 => z.len() + (len - z.len().min(len)) / 2,
                _ => len.saturating_sub(1).max(z.len()),
            });
        }
        starts.push(bytes.len());
        bytes.extend(frame(1, &z));
        if rng.chance(1, 2) {
            starts.push(bytes.len());
            bytes.extend(frame(0, &gen_msg(rng, 10)));
        }
    }
    // later messages may be over the limit on the wire: fine, the case is then about the refusal too
    let style = if huge { 0 } else { *rng.pick(&[0u64, 2, 3]) };
    let chunks = chunkings(rng, &bytes, &starts, style);
    let mut evs = events_from_chunks(rng, chunks, !huge);
    let dir = if rng.chance(1, 2) { "req".to_string() } else { "resp200".to_string() };
    if dir == "resp200" {
        evs.push("t0".into());
    }
    DecCase { dir, enc: Some(e), max, buf_size: *rng.pick(&[5usize, 1024, 8192]), evs, stream: bytes, extra_polls: 2 }
}

/// Hostile input: mutations of a valid stream, truncations, raw random bytes, injected body
/// errors and mid-stream trailers.
pub fn gen_dec_hostile(rng: &mut Rng) -> DecCase {
    let enc = *rng.pick(&ENCS);
    let (mut bytes, starts, _msgs) = gen_valid_stream(rng, enc, 60);
    match rng.below(12) {
        0 => {
            // bad flag on some frame
            if let Some(s) = starts.get(rng.below(starts.len().max(1) as u64) as usize) {
                bytes[*s] = *rng.pick(&[2u8, 7, 0x80, 0xFF, 1]);
            }
        }
        1 => {
            // truncation at every possible point is done by the caller in thorough; here random
            let n = rng.below(bytes.len() as u64 + 1) as usize;
            bytes.truncate(n);
        }
        2 => {
            // bit flip anywhere
            if !bytes.is_empty() {
                let i = rng.below(bytes.len() as u64) as usize;
                bytes[i] ^= 1 << rng.below(8);
            }
        }
        3 => {
            // oversize declared length, nothing following
            bytes.extend_from_slice(&[0]);
            bytes.extend_from_slice(&(*rng.pick(&[0xFFFF_FFFFu32, 0x0040_0001, 0x0040_0000, 0x7FFF_FFFF, 70000])).to_be_bytes());
        }
        4 => {
            let n = rng.below(40) as usize;
            bytes = rng.bytes(n);
        }
        5 => {
            // undecodable payload (raw codec rejects a leading 0xFF)
            bytes.extend(frame(0, &[0xFF, 1, 2]));
            bytes.extend(frame(0, &[9]));
        }
        6 => {
            // garbage compressed payload
            bytes.extend(frame(1, &{ let n = rng.below(20) as usize; rng.bytes(n) }));
            bytes.extend(frame(0, &[9, 9]));
        }
        8 | 9 | 10 => {
            // a length prefix that is a few bytes too short or too long for its payload (all the
            // bytes stay): the rest of the payload / the next header is read as something else
            if !starts.is_empty() {
                let s = starts[rng.below(starts.len() as u64) as usize];
                let len = u32::from_be_bytes([bytes[s + 1], bytes[s + 2], bytes[s + 3], bytes[s + 4]]);
                let k = 1 + rng.below(12) as u32;
                let new = if rng.chance(2, 3) { len.saturating_sub(k.min(len)) } else { len + k };
                bytes[s + 1..s + 5].copy_from_slice(&new.to_be_bytes());
            }
        }
        7 => {
            // trailing partial header
            bytes.extend_from_slice(&[0, 0, 0][..rng.below(4) as usize]);
        }
        _ => {}
    }
    let style = rng.below(4);
    let chunks = chunkings(rng, &bytes, &starts, style);
    let pend = rng.chance(1, 2);
    let mut evs = events_from_chunks(rng, chunks, pend);
    // inject a body error or trailers at a random position
    match rng.below(5) {
        0 => {
            let pos = rng.below(evs.len() as u64 + 1) as usize;
            evs.insert(pos, format!("e{}", rng.pick(&[1u8, 1, 2, 13, 14, 4])));
        }
        1 => {
            let pos = rng.below(evs.len() as u64 + 1) as usize;
            evs.insert(pos, format!("t{}", rng.pick(&["0", "none", "5", "13"])));
        }
        2 => evs.push(format!("t{}", rng.pick(&["0", "none", "5"]))),
        _ => {}
    }
    let max = match rng.below(4) {
        0 => Some(rng.below(70) as usize),
        1 => Some(4 * 1024 * 1024),
        _ => None,
    };
    DecCase { dir: gen_dir(rng), enc, max, buf_size: *rng.pick(&BUF_SIZES), evs, stream: bytes, extra_polls: 3 + rng.below(6) as usize }
}

// ---------- hostile and unusual protobuf payloads for the real prost decoder (rev1 S1, seed C07c) ----------

/// A payload prost must refuse (almost always; the `P` table carries prost's own verdict, so a
/// mutation that happens to stay decodable is still judged correctly): a valid `Any` encoding
/// with one protobuf-level defect.
pub fn gen_pb_hostile_payload(rng: &mut Rng) -> Vec<u8> {
    let mut p = if rng.chance(1, 4) { Vec::new() } else { gen_any_msg(rng, 20) };
    match rng.below(16) {
        0 => p.extend([0x0a, 0x80]),                     // length varint truncated by the end of the payload
        1 => p.push(*rng.pick(&[0x80u8, 0xff, 0x8a])),   // key varint truncated by the end of the payload
        2 => {
            let k = 1 + rng.below(7) as usize;           // zero bytes where a field key is expected (tail padding)
            p.extend(vec![0u8; k]);
        }
        3 => p.insert(0, 0),                             // zero key first, fields after it
        4 => {
            p.extend(vec![0xff; 10]);                    // over-long key varint (11 bytes)
            p.push(0x7f);
        }
        5 => {
            p.push(0x0a);                                // over-long length varint
            p.extend(vec![0x80; 10]);
            p.push(0x01);
        }
        6 => p.extend([0x08, 0x05]),                     // field 1 (string) with wire type varint
        7 => p.extend([0x15, 1, 2, 3, 4]),               // field 2 (bytes) with wire type fixed32
        8 => {
            p.push(*rng.pick(&[0x0eu8, 0x0f, 0x16, 0x17])); // wire types 6 and 7 do not exist
            p.push(0);
        }
        9 => p.extend([0x0a, 0x7f, 0x61, 0x62]),         // length-delimited field longer than the payload
        10 => p.extend([0x12, 0xff, 0xff, 0xff, 0xff, 0x0f, 0x01]), // bytes field of 4 GiB - 1
        11 => p.extend([0x0a, 0x02, 0xff, 0xfe]),        // type_url is not UTF-8
        12 => p.push(0x0c),                              // end-group without a start
        13 => p.extend([0x1b, 0x18, 0x05]),              // group opened, never closed
        14 => {
            let cut = rng.below(p.len() as u64 + 1) as usize; // valid encoding cut anywhere
            p.truncate(cut);
            p.push(0x0a);
            p.push(0x05);
        }
        _ => {
            let n = 1 + rng.below(12) as usize;
            p = rng.bytes(n);
        }
    }
    p
}

/// A payload prost accepts although no encoder would write it that way: unknown fields of every
/// wire type, repeated and reordered fields, non-minimal varints, explicit defaults.  The message
/// it decodes to is in the case's `P` table.
pub fn gen_pb_unusual_valid(rng: &mut Rng) -> Vec<u8> {
    let mut p = Vec::new();
    let k = 1 + rng.below(4);
    for _ in 0..k {
        match rng.below(10) {
            0 => p.extend([0x18, 0x05]),                              // unknown field 3, varint
            1 => p.extend([0x22, 0x03, 0x61, 0x62, 0x63]),            // unknown field 4, length-delimited
            2 => p.extend([0x29, 1, 2, 3, 4, 5, 6, 7, 8]),            // unknown field 5, fixed64
            3 => p.extend([0x35, 1, 2, 3, 4]),                        // unknown field 6, fixed32
            4 => p.extend([0x1b, 0x18, 0x05, 0x1c]),                  // unknown group 3 { 3: 5 }
            5 => p.extend([0x12, 0x01, 0x09, 0x0a, 0x01, 0x61]),      // value before type_url
            6 => p.extend([0x0a, 0x01, 0x61, 0x0a, 0x01, 0x62]),      // type_url twice (last wins)
            7 => p.extend([0x0a, 0x82, 0x00, 0x61, 0x62]),            // non-minimal length varint
            8 => p.extend([0x0a, 0x00, 0x12, 0x00]),                  // explicit defaults
            _ => p.extend(gen_any_msg(rng, 12)),
        }
    }
    p
}

/// Hostile input for the prost decoder: a stream of frames some of whose payloads are defective
/// protobuf (each followed by more frames, so that reading past a payload's end finds bytes),
/// optionally with a wrong length prefix, under every chunking style, with and without injected
/// trailers / body errors.
pub fn gen_pdec_hostile(rng: &mut Rng) -> DecCase {
    let enc = *rng.pick(&ENCS);
    let n = 1 + rng.below(4) as usize;
    let bad_at = rng.below(n as u64) as usize;
    let mut bytes = Vec::new();
    let mut starts = Vec::new();
    for i in 0..n {
        let m = if i == bad_at || rng.chance(1, 5) {
            gen_pb_hostile_payload(rng)
        } else if rng.chance(1, 4) {
            gen_pb_unusual_valid(rng)
        } else {
            gen_any_msg(rng, 30)
        };
        starts.push(bytes.len());
        match enc {
            Some(e) if rng.chance(1, 3) => bytes.extend(frame(1, &oracle_compress(e, &m))),
            _ => bytes.extend(frame(0, &m)),
        }
    }
    if rng.chance(1, 5) {
        // the declared length is a few bytes off: part of the payload / of the next header is read as something else
        let s = starts[rng.below(starts.len() as u64) as usize];
        let len = u32::from_be_bytes([bytes[s + 1], bytes[s + 2], bytes[s + 3], bytes[s + 4]]);
        let k = 1 + rng.below(6) as u32;
        let new = if rng.chance(1, 2) { len.saturating_sub(k.min(len)) } else { len + k };
        bytes[s + 1..s + 5].copy_from_slice(&new.to_be_bytes());
    }
    let style = rng.below(4);
    let chunks = chunkings(rng, &bytes, &starts, style);
    let pend = rng.chance(1, 2);
    let mut evs = events_from_chunks(rng, chunks, pend);
    match rng.below(8) {
        0 => {
            let pos = rng.below(evs.len() as u64 + 1) as usize;
            evs.insert(pos, format!("e{}", rng.pick(&[1u8, 2, 13, 14])));
        }
        1 => {
            let pos = rng.below(evs.len() as u64 + 1) as usize;
            evs.insert(pos, format!("t{}", rng.pick(&["0", "none", "5"])));
        }
        2 => evs.push(format!("t{}", rng.pick(&["0", "none", "5"]))),
        _ => {}
    }
    let dir = match rng.below(4) {
        0 | 1 => "req".to_string(),
        2 => "resp200".to_string(),
        _ => gen_dir(rng),
    };
    let dir = if dir == "empty" && enc.is_some() { "req".to_string() } else { dir };
    DecCase { dir, enc, max: if rng.chance(1, 6) { Some(rng.below(40) as usize) } else { None }, buf_size: *rng.pick(&BUF_SIZES), evs, stream: bytes, extra_polls: 3 + rng.below(4) as usize }
}
